#!/usr/bin/env python3
"""tools/twin_matrix.py [DIR...]: apply each behaviour-preserving refactoring (patch.diff) to /repo,
run every armed check (no evidence), undo.  VIOLATION on a twin = false alarm to fix; exit 2 = not decided."""
import glob, os, re, subprocess, sys
H = os.path.dirname(os.path.dirname(os.path.abspath(__file__)))
armed = [l.strip() for l in open(f'{H}/tools/armed.txt') if l.strip()]
dirs = sys.argv[1:] or sorted(glob.glob(f'{H}/twins/*/'))
from concurrent.futures import ThreadPoolExecutor
for d in dirs:
    d = os.path.abspath(d).rstrip('/') + '/'
    if not os.path.exists(d + 'patch.diff'):
        continue
    if subprocess.run(['git', '-C', '/repo', 'diff', '--quiet']).returncode:
        sys.exit('/repo dirty')
    r = subprocess.run(['git', '-C', '/repo', 'apply', d + 'patch.diff'], capture_output=True, text=True)
    if r.returncode:
        print(f'{d}: patch does not apply'); continue
    try:
        def run(pid):
            o = subprocess.run([f'{H}/check', pid, '--no-evidence'], capture_output=True, text=True, cwd=H)
            return pid, o.returncode, o.stdout
        with ThreadPoolExecutor(8) as ex:
            res = list(ex.map(run, armed))
    finally:
        subprocess.run(['git', '-C', '/repo', 'checkout', '--', '.'])
    bad = [(p, rc, out) for p, rc, out in res if rc != 0]
    name = '/'.join(d.rstrip('/').split('/')[-2:]) if '/tmp/' in d else d.rstrip('/').split('/')[-1]
    if not bad:
        print(f'{name}: silent on all {len(armed)} checks')
    for p, rc, out in bad:
        lines = [l for l in out.splitlines() if l.startswith(('FAIL', 'ANALYSIS-ERROR'))]
        print(f'{name}: {p} rc={rc} :: ' + ' || '.join(l[:230] for l in lines[:3]))
