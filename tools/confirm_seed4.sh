#!/bin/sh
# tools/confirm_seed3.sh <ID> <variant>  - confirm a wave-4 sub-agent seeded change (from /tmp/seed4/<ID>/<variant>)
# in my own scratch worktree /tmp/wtc4-<ID>: demo fails with the patch, suite unchanged, demo passes without.
ID="$1"; V="$2"; WT=/tmp/wtc4-$ID; S=/tmp/seed4/$ID/$V
[ -f "$S/patch.diff" ] || { echo "$ID/$V: no patch"; exit 9; }
[ -d "$WT" ] || git -C /repo worktree add -q --detach "$WT" HEAD
cd "$WT" || exit 9
git checkout -q -- . ; git clean -fdq; git checkout -q --detach "$(git -C /repo rev-parse HEAD)"
git apply "$S/patch.diff" || { echo "$ID/$V APPLY-FAILED"; exit 9; }
sed "s#/tmp/wt4-$ID#$WT#g" "$S/demo.py" > /tmp/seed4/$ID/$V.demo_confirm.py
PYTHONPATH=$WT/src /venv/bin/python /tmp/seed4/$ID/$V.demo_confirm.py >/tmp/seed4/$ID/$V.demo_with.txt 2>&1; RC_WITH=$?
SUITE=$(PYTHONHASHSEED=0 /venv/bin/python -m pytest -q -p no:cacheprovider -n ${NPROC:-8} 2>&1 | tail -1)
git checkout -q -- .; git clean -fdq
PYTHONPATH=$WT/src /venv/bin/python /tmp/seed4/$ID/$V.demo_confirm.py >/tmp/seed4/$ID/$V.demo_without.txt 2>&1; RC_WITHOUT=$?
echo "$ID/$V demo_with_patch=$RC_WITH demo_without=$RC_WITHOUT suite='$SUITE'"
case "$SUITE" in *"3 failed, 8054 passed"*) SOK=1;; *) SOK=0;; esac
if [ "$RC_WITH" = 1 ] && [ "$RC_WITHOUT" = 0 ] && [ "$SOK" = 1 ]; then
  D=/verif/seeded/$ID-$V; mkdir -p "$D"; cp "$S/patch.diff" "$S/demo.py" "$D/"; [ -f "$S/notes.md" ] && cp "$S/notes.md" "$D/"
  echo "CONFIRMED -> $D"
else
  echo "NOT-CONFIRMED"
fi
