#!/usr/bin/env python3
"""Regenerates /verif/MANIFEST.json from the table below.  A property is listed
under `checks` only once its check is armed and silent on the unchanged tree;
everything else is listed under not_applicable with the reason."""
import json
import os

HERE = os.path.dirname(os.path.dirname(os.path.abspath(__file__)))

# id -> (level, technique, level text, level note (assumed / not decided), design ref)
T = {
 "C01": ("other", "abstract interpretation (own interpreter over the repository's ASTs) of the parse loop on all short sequences of abstract lines and of property_items/to_ical on abstract component trees, against a reference written from the statement; registry closure; str.replace chains recovered by interpreting the functions on a symbolic text and decided as transducer equivalences; position-marker interpretation of the fixed-width codecs; purity of time-zone construction on the parsed VTIMEZONE; parameter round trip and physical-line model of the E9 string model (reader splits only at CRLF/LF for every character the text layer or a builtin it calls distinguishes); VALUE-parameter codec probe",
         "For every line sequence up to the bound (all 13 line kinds, both result modes) the parse loop recovers nesting, names, parameters and values as the text denotes, falsy and repeated values included; serialisation re-emits every name, value and the value's own parameters; every types_map target is a registered codec; Parse∘Emit∘Parse = Parse for TEXT / identity codecs as transducers on the clean domain; DATE/DATE-TIME/TIME writer layout = reader slices = RFC shape.",
         "Bounded: line sequences of length <= 3 (4 thorough) plus curated deeper ones; tree shapes <= 5 nodes. Value equality of typed values for every accepted text is not decided; TEXT stability excludes the K1/K10 factor domains (printed as known findings).", "15-16/C01"),
 "C02": ("other", "table agreement against an RFC 5545 oracle; finite abstract interpretation of Component.add/_encode/descriptor setters over value kinds (incl. re-assignment histories); parse-loop probe over all registered names; position-marker interpretation of the fixed-width codecs; parameter round trip (E9); classification sweep of vDDDTypes.from_ical over DURATION texts of every length; accumulation with falsy first values",
         "Every RFC 5545 property name maps to the codec family the RFC assigns; for each date/time-family name x value kind the VALUE/TZID parameters produced by the real constructor/add/setter ASTs are the RFC ones, also after re-assignment and for lists; repeated adds accumulate in order; every name under which a TZID is written gets it back on parse.",
         "Oracle = RFC 5545 section 3.8 table embedded in sa/oracles; tzid_from_dt modelled by its contract; equality of decoded Python values is not decided.", "16/C02"),
 "C03": ("exploration", "interpretation of the DATE/DATE-TIME/TIME codecs on position-marker texts; bounded-domain interpretation of UTC-OFFSET and DURATION against an independent RFC reader; the combined decoder on one text of every RFC form; regex language inclusion (own NFA/DFA over re._parser ASTs); exception-escape analysis of every from_ical; scalar codecs (INTEGER beyond 2^53, FLOAT, BOOLEAN, URI, weekday, month) on concrete values",
         "Writer layout = reader slices = RFC text shape for the fixed-width codecs however they are written; UTC-OFFSET (all hours x boundary minutes/seconds x sign) and DURATION (every unit-presence pattern x boundary magnitudes x sign) encode to RFC grammar, denote the value and decode back; every RFC form is classified as the right type incl. lists/periods with a time zone; codec objects render the value they hold now; every codec's from_ical converts failures to ValueError.",
         "UTC-OFFSET/DURATION are decided on a bounded value domain, not for all magnitudes; INTEGER/FLOAT/BOOLEAN/URI/weekday/month are decided on concrete samples of every magnitude class (incl. beyond 2^53), BINARY on sample texts (base64 computed).", "15.3/C03"),
 "C04": ("other", "exception-escape analysis over the resolved call graph with handler subtraction, guard facts and caller-side guard binding; abstract interpretation of the parse loop on sequences with unsplittable lines and undecodable values; re-serialisation of whatever the composite decoders accept (RECUR/lists/combined decoder x member kinds); lazily evaluated generators in the interpreter; whole-parser interpretation on concrete inputs of every failure class incl. list-shaped (multi-valued) TZID parameters",
         "For the entry points from_ical/to_ical/walk every typed risk site in the cone is under a converting handler, discharged by a dominating guard, or justified; inside a lenient component a bad line/value is recorded and dropped with everything else kept, elsewhere it is a ValueError; provider lookups return None on the external's documented exceptions.",
         "Exact on what it reports, incomplete by construction: receivers of unknown static type raise nothing; dateutil/pytz/zoneinfo internals are opaque; termination/CPU bound not decided.", "16/C04"),
 "C05": ("exploration", "bounded exhaustive abstract execution (own interpreter, never the repository) of Contentline.from_parts/parts, Parameters.to_ical/from_ical and the line-list serialiser on every string up to a length bound over the character-class quotient computed from the source; who-may-construct rule; regex class inclusions",
         "Name, parameters and TEXT value read back equal the ones joined for every explored input; values, list items and parameter values cannot create or rename properties, parameters or content lines; raw LF cannot enter a content line; what is serialised does not depend on history; control and structural characters are rejected in unquoted parameter values; the fold language is removed exactly.",
         "Bounded (strings of length <= 2, 3 thorough, per position, plus the reader's multi-character patterns). Known findings K1 (%XX placeholders) and K2 (backslash in parameter values) are reported by key with the minimal offending character set.", "15.2/C05"),
 "C06": ("proof", "linear-arithmetic normalisation of the ASCII branch; exhaustive reachability of the fold loop's integer state with a ghost octet meter; general abstract execution of foldline on lines A^n.R; regex automata facts for unfold; bounded abstract execution of line/line-list serialisation and re-reading; every width class and white space at every octet offset around the first and second fold point, through Contentline.to_ical itself",
         "Every physical line produced by foldline is <= 75 octets for every input line (closed state space, not sampled), characters are never split, chunks tile the line, and uFOLD removes exactly the inserted separators; every line of a serialised component is such a line, also when it was read from otherwise folded input.",
         "Trusted: UTF-8 length of a code point is in {1,2,3,4}; defaults limit=75 and fold_sep CRLF+SP (the only call site passes none). If foldline is rewritten beyond both symbolic arguments the bound is decided by the bounded PHYS-MODEL only (noted in the evidence).", "16/C06"),
 "C07": ("proof", "str.replace chains recovered by interpreting each function on a symbolic text, decided as subsequential transducers (equivalence / range-emptiness by bounded-delay product on an exact alphabet quotient); bounded abstract execution of the whole wire path (join, serialise, split, parts, decode) and of the list codec; physical-line model (fold/unfold of long texts of every character width)",
         "unescape∘escape = documented normalisation for every Unicode string at codec, property and list level, decided exactly on the domain avoiding the known factors; encoded form has no raw line break and no unescaped ; or ,; raw str/bytes values and list items survive the wire path on every explored input.",
         "Trusted: transducer semantics of str.replace (Appendix D), alphabet quotient argument. Known findings K1/K3/K9 factors are excluded and printed; the wire/list model is bounded.", "16/C07"),
 "C08": ("exploration", "bounded exhaustive abstract execution of Parameters.to_ical/from_ical (alone and inside a content line) over the character-class quotient, the emitted text read by an independent RFC 5545 tokenizer; ownership of parameters by every codec constructor; regex class inclusion; transducer identity of the placeholder rewriting",
         "Every quote-free, control-free value (and lists of them) round-trips with the same arity and order, names in any case; every value containing , ; : is inside double quotes so that a conforming reader splits it the same way; sorted vs insertion order; output depends on the current content only, not on history or on objects shared with a cache or another value.",
         "Bounded (values of length <= 2, 3 thorough; lists of short values). K1/K2 factors are decided by the transducer rule and excluded here.", "15.2/C08"),
 "C09": ("exploration", "abstract interpretation of the parse loop on mixed-case line sequences and on every registered property name in both cases; raw-case taint of caller-supplied names; regex language facts; bounded abstract execution of the line reader under every insignificant rewriting",
         "BEGIN/END, component, property and parameter names in any case parse like their upper-case spelling; the logical lines are the same under LF/CRLF, BOM, str/bytes, every fold position with space or tab, blank lines.",
         "Bounded (one four-line text for the fold positions; line sequences <= 3). Equality of whole parse trees for all texts is not decided.", "16/C09"),
 "C10": ("other", "write-effect analysis of the to_ical cone, set-iteration-order leak analysis, sorted-flag binding over call edges; abstract interpretation of property_items/content_lines/to_ical on abstract trees and of the canonical ordering",
         "No store to observable non-fresh state in the serialisation cone; no set iteration order flows into output; the sorted flag reaches every nested sorter; items are emitted in canonical (sorted) or insertion order with values and subcomponents in insertion order, BEGIN/END balanced and properly nested.",
         "Observable state = attributes/items read by the to_ical cone or any __eq__; byte identity as such follows from these but floats/locale are not examined; trees <= 5 nodes.", "16/C10"),
 "C11": ("other", "finite abstract interpretation over tz-kinds (naive/utc/zoned, UTC-alias zone) of the TZID producers under both provider models; interpretation of TZP.localize_utc/localize on provider-level contracts; parse-loop probe for TZID forwarding; ownership of parameters; providers' localize/localize_utc on the library contract; tz database modelled with ids differing only in punctuation",
         "UTC values get Z and no TZID, zoned values (incl. aliases of UTC) their own TZID and no Z, naive neither, in all producers; every field the DATE-TIME writer formats is read from a value with the stored value's kind, zone and instant (interpreted on position markers); RFC UTC-only properties are forced to UTC; the TZID is handed to the decoder of every value of a line exactly for the names that admit it.",
         "Offsets near transitions, tz database content and provider agreement are runtime facts and are not decided; tzid_from_dt by contract.", "15.4/C11"),
 "C12": ("other", "abstract interpretation (own interpreter over the repo ASTs) of Timezone.get_transitions and PYTZ.create_timezone on abstract VTIMEZONEs - symbolic local onsets as linear terms, concrete whole-minute offsets, DTSTART/RDATE/RRULE onsets (RDATE before DTSTART included), dateutil by contract - against an RFC 5545 3.6.5 oracle; global read/write effect analysis across parses; sibling interface completeness; interpretation of the VTIMEZONE caching path on a stub provider",
         "For 11 abstract VTIMEZONE shapes: one transition per distinct onset, ordered by local onset; UTC onset = local onset minus TZOFFSETFROM (as a symbolic term); offset in force = TZOFFSETTO; DST part from the nearest STANDARD observance; name = TZNAME; RRULE expanded in the TZOFFSETFROM offset; the pytz zone class carries exactly these transitions. No process-global state written by one parse is read by another except the listed known finding; both providers implement the full interface; a custom TZID is served by the zone built from the calendar's own VTIMEZONE.",
         "What dateutil/pytz/zoneinfo report at each instant from the transitions they are given, dateutil's expansion of an RRULE, the zoneinfo provider's path through dateutil.tz.tzical, second-granular offsets and generated names for observances without TZNAME are not decided; K4 (process-wide first-wins VTIMEZONE cache) is a known finding.", "19.2"),
 "C14": ("other", "abstract evaluation of Alarms.times / Alarm.triggers and the manual Alarms() paths in linear normal form over symbolic start/end/trigger/duration, under the zoneinfo and the pytz provider model; symbolic trip count where the loop has that shape; start and end in different zones (instant vs wall-clock arithmetic)",
         "For every alarm shape (incl. zero-length triggers, alarms added after the component) the computed times are anchor + TRIGGER + k*DURATION with k = 0..REPEAT exactly when DURATION is present, the anchor is start/end per RELATED, absolute triggers ignore the component, only the documented errors occur, and pytz wall clocks are not re-read after arithmetic.",
         "REPEAT in 0..2 (3 thorough) concretely, symbolically when the repeat loop is a range loop; date vs date-time arithmetic values are not decided.", "16/C14"),
 "C15": ("proof", "exhaustive abstract evaluation of the real ASTs of AlarmTime.acknowledged/trigger/is_active and Alarms._alarm_time over all order types x presence x trigger kinds (both provider models), against the decision table of the statement; history independence of the Alarms object (settings made, read, withdrawn with None); order independence of settings made before add_component; sub-second fields on a quarter-second model",
         "The functions observe instants only through comparisons/None tests (checked), so the finite quotient is exact: every case equals the decision table; active is exactly the sub-list of times; reading times/active never freezes later settings.",
         "Trusted: the abstract interpreter and its semantic table for date/datetime comparison; contracts of tzp.localize_utc / normalize_pytz.", "16/C15"),
 "C16": ("model_checking", "presence/kind state machine extracted by abstract interpretation of the descriptor setter/deleter ASTs, explored to closure over all stored states; getter decision tables (also under the pytz provider model); every edit with and without earlier reads of start/end/duration (read purity); DURATIONs of negative and zero length; re-assignment of the stored value; instances of date/datetime subclasses (type() vs isinstance)",
         "All states reachable through the start/end/DTSTART/DTEND|DUE/DURATION setters and deleters satisfy exclusivity; rejected arguments leave the state unchanged; start/end/duration getters equal the RFC decision table for every stored shape; Event and Todo agree; end is the instant start + DURATION.",
         "CaselessDict semantics as decided in C17; states reached through add()/item assignment are inputs of the getter tables and of the machine's start states.", "16/C16"),
 "C17": ("exploration", "model-based exploration by interpretation: the CaselessDict family's own methods on a model of the builtin OrderedDict, on every sequence of mapping operations up to a bound, compared after every step with a dictionary keyed by the upper-cased name; canonical ordering of every class of the family",
         "Results, exceptions, stored keys (upper-case str only), first-insertion order and equality agree with the reference dictionary for every explored sequence (keys in both cases, str and bytes; construction from mappings/pairs/keywords; get/set/delete/in/get/pop/setdefault/update/copy/|/|=/==/!=); priority names first in declared order, the rest alphabetically.",
         "Sequences of <= 2 operations (3 thorough) from four initial maps; which inherited OrderedDict operations dispatch through overridable methods was established against CPython 3.12 and is trusted. K6 (pop default) is a known finding.", "17.3b/C17"),
 "C18": ("exploration", "exception-escape analysis of the two queries; interpretation of get_used_tzids/get_missing_tzids/add_missing_timezones/Timezone.from_tzid and property_items on abstract calendars",
         "The queries cannot raise; used = TZID parameters of every value of every nested component; missing = used minus VTIMEZONEs present; add_missing_timezones adds exactly one VTIMEZONE per id the provider resolves (incl. unclean and alias ids) labelled with that id, leaves unknown ids missing, and is idempotent.",
         "16 abstract calendars; Timezone.from_tzinfo by contract (stores the id it is given: checked separately); correctness of generated VTIMEZONE content is C13 (not applicable).", "16/C18"),
 "C19": ("exploration", "interpretation of vRecur.to_ical/from_ical/parse_type and the part codecs on rules of every RFC 5545/7529 part, alone and combined, three construction modes, read back by an independent RECUR reader; table agreement with the RFC part table; regex inclusion",
         "The encoded text is RECUR syntax with FREQ (after an optional RSCALE) first and exactly the supplied parts and values; decoding yields every part in text order with the same typed values; re-encoding is stable; decoded/encoded results do not depend on history; canonical_order and the type table agree with the RFC.",
         "About 150 rules; equality of occurrence sequences under an expander is not decided.", "17.3b/C19"),
 "C20": ("exploration", "interpretation of walk/_walk, the kind accessors and Component.__eq__ on abstract component trees against pre-order and the equivalence laws, also on trees produced by the interpreted parser (lower-case texts, unknown components); guard analysis of every __eq__ (following helper methods); registry data; deep copies (own __deepcopy__ interpreted) equal, separate, serialising identically; components of a kind by name only",
         "walk returns every matching component exactly once in pre-order for names in any case and any predicate; accessors return the components of their kind; equality is reflexive, symmetric, insensitive to subcomponent and insertion order, False for 9 kinds of foreign operand, != its negation, and distinguishes value, list order, extra property, dropped/extra subcomponent and the multiset of subcomponents; no __eq__ can raise on a foreign operand.",
         "Trees <= 5 nodes plus repeated-kind and VTIMEZONE trees; pickle fidelity not decided; K8 (component kind not compared) is a known finding.", "16/C20"),
}

NA = {
 "C13": "Equality of two UTC-offset functions at every instant of a window, produced by a coarse-to-fine step search whose soundness depends on tz-database contents; no structural clause is a faithful necessary condition beyond well-formedness facts the suite already covers (DESIGN.md section 6).",
}

ARMED = [l.strip() for l in open(os.path.join(HERE, "tools", "armed.txt"))
         if l.strip() and not l.startswith("#")]


def main():
    checks = []
    na = []
    for pid in sorted(T):
        level, tech, text, note, ref = T[pid]
        if pid in ARMED:
            checks.append({
                "property_id": pid,
                "quick_cmd": f"./check {pid} --tier quick",
                "thorough_cmd": f"./check {pid} --tier thorough",
                "evidence_file": f"evidence/{pid}.json",
                "replay_cmd_template": "./check replay --replay {path}",
                "engine": "sa",
                "level_claimed": {"category": level, "text": text,
                                  "design_ref": f"DESIGN.md section {ref}"},
                "level_note": note,
                "technique": "static analysis: " + tech,
            })
        else:
            na.append({"property_id": pid,
                       "reason": "static check designed (DESIGN.md section "
                                 f"{ref}) but not armed yet in this build; "
                                 "not claimed until it runs silent on the "
                                 "unchanged tree"})
    for pid, why in sorted(NA.items()):
        na.append({"property_id": pid, "reason": why})
    man = {
        "version": 1,
        "setup_cmd": "/venv/bin/python -m compileall -q sa >/dev/null 2>&1 || python3 -m compileall -q sa",
        "hooks": {
            "guard": "ICALENDAR_VERIF",
            "enable": "none needed: the checks parse /repo/src with ast and never import or instrument the repository",
            "baseline_off_cmd": "cd /repo && /venv/bin/python -m pytest -ra -q -p no:cacheprovider --timeout=900 --continue-on-collection-errors",
            "source_commits": [],
            "add_only": True,
        },
        "engines": [{
            "name": "sa", "path": "sa/",
            "serves_properties": sorted(ARMED),
            "kind_free_text": "repository-specific static analysis in pure "
            "stdlib Python: AST source model with constant folding and "
            "registry/descriptor extraction, AST canonicalisation, symbolic "
            "local expansion, call graph, exception/write effects, str.replace "
            "transducers, regex automata, finite loop exploration, and an "
            "abstract interpreter of the repository's ASTs (never importing or "
            "running the repository) on which the parse loop, tree functions, "
            "mappings, codecs and the text layer are explored on abstract / "
            "class-representative inputs; decides from /repo's current source "
            "on every run",
        }],
        "checks": checks,
        "not_applicable": na,
        "notes": "Every check is `./check <ID>`; exit 0 = held (KNOWN-FINDING "
                 "lines for entries of known_findings.json), 1 = VIOLATION, "
                 "2 = ANALYSIS-ERROR (anchor vanished / unsupported idiom).",
    }
    with open(os.path.join(HERE, "MANIFEST.json"), "w") as f:
        json.dump(man, f, indent=1)
        f.write("\n")
    print(f"MANIFEST.json: {len(checks)} checks, {len(na)} not_applicable")


if __name__ == "__main__":
    main()
