#!/usr/bin/env python3
"""Regenerates /verif/MANIFEST.json from the table below.  A property is listed
under `checks` only once its check is armed and silent on the unchanged tree;
everything else is listed under not_applicable with the reason."""
import json
import os

HERE = os.path.dirname(os.path.dirname(os.path.abspath(__file__)))

# id -> (level, technique, level text, level note (assumed / not decided), design ref)
T = {
 "C01": ("other", "must-pass-through + typestate on the parse loop (AST/def-use), registry closure, string-transducer equivalence of the replace chains on the value path",
         "Decides structural necessary conditions for every input: parsed parameters are attached to every decoded value on all paths and re-emitted; the component stack pushes/pops/attaches on every BEGIN/END path; unknown components keep their name; every types_map target is a registered codec with both directions; Parse∘Emit∘Parse = Parse for TEXT/identity codecs as transducers on the clean domain.",
         "Value equality of typed values for every accepted text is not decided; TEXT stability excludes the K1 factor domain (backslash sequences, %2C-style text).", "5/C01"),
 "C02": ("other", "table agreement against an RFC 5545 oracle; finite abstract interpretation of Component.add/_encode/descriptor setters over value kinds",
         "Every RFC 5545 property name maps to the codec family the RFC assigns (47/47); for each date/time-family name x value kind the VALUE/TZID parameters produced by the real constructor ASTs are the RFC ones; list wrapper forwards what element wrappers derive; repeated adds accumulate in order.",
         "Oracle = RFC 5545 section 3.8 table embedded in sa/oracles; tzid_from_dt modelled by its contract; equality of decoded Python values is not decided.", "5/C02"),
 "C03": ("other", "writer/reader field-layout agreement from f-strings and slices; regex language inclusion (own NFA/DFA over re._parser ASTs); dispatch order analysis",
         "Fixed-width codecs (DATE, DATE-TIME, TIME, UTC-OFFSET) write and read the same field tiling; DURATION_REGEX and WEEKDAY_RULE accept every RFC-grammar text; frequency/weekday tables equal the RFC enumerations; vDDDTypes.from_ical sends each RFC text shape to the right decoder; every codec's from_ical converts failures to ValueError.",
         "Numeric inverse (decode(encode(v)) == v) for DURATION/UTC-OFFSET/INTEGER/FLOAT/BINARY is arithmetic over unbounded values and is not decided.", "5/C03"),
 "C04": ("other", "exception-escape analysis over the resolved call graph with handler subtraction and guard facts; handler-shape rules for the lenient VEVENT path",
         "For the entry points from_ical/to_ical/walk every typed risk site in the cone is under a converting handler, discharged by a dominating guard, or justified; lenient handlers record and continue with the next line; provider lookups return None on the external's documented exceptions.",
         "Exact on what it reports, incomplete by construction: receivers of unknown static type raise nothing; dateutil/pytz/zoneinfo internals are opaque (may raise anything) ; termination/CPU bound not decided.", "5/C04"),
 "C05": ("other", "who-may-construct, delimiter agreement between writer and reader, reader-special vs writer-neutralised character sets computed from the code",
         "Contentline has one construction path and it refuses LF; writer and reader use the same delimiters; every character the reader treats specially in a position is neutralised by the writer for that position or rejected on read (set inclusion computed from literals, regex classes and replace chains).",
         "The tuple-level inverse for arbitrary parameter maps (quote-aware scanners parts/q_split as loops) is not modelled; known findings K1 (%XX placeholders) and K2 (backslash in parameter values) are excluded by key.", "5/C05"),
 "C06": ("proof", "linear-arithmetic normalisation of the ASCII branch; exhaustive reachability of the fold loop's integer state with a ghost octet meter; regex automata facts for unfold",
         "Every physical line produced by foldline is <= 75 octets for every input line (closed state space, not sampled), characters are never split, chunks tile the line, and uFOLD removes exactly the inserted separators.",
         "Trusted: UTF-8 length of a code point is in {1,2,3,4}; defaults limit=75 and fold_sep CRLF+SP (checked: the only call site passes none); the interpreter of the loop body.", "5/C06"),
 "C07": ("proof", "str.replace chains extracted from the AST as subsequential transducers; equivalence / range-emptiness by bounded-delay product construction on an exact alphabet quotient",
         "unescape∘escape = documented normalisation for every Unicode string at codec, property and list level, decided exactly on the domain avoiding the known factors; encoded form has no raw line break and no unescaped ; or ,.",
         "Trusted: transducer semantics of str.replace (Appendix D), alphabet quotient argument. Known findings K1/K3 factors are excluded and printed; any other counterexample is a violation with a shortlex-minimal witness.", "5/C07"),
 "C08": ("other", "regex class inclusion, sanitiser must-pass-through, writer/reader arity agreement, transducer identity of the parameter value path",
         "Every parameter value containing , ; : is emitted inside double quotes on every path; lists are quoted item-wise and split quote-aware; names are upper-cased on write and stored caselessly on read; the only rewriting between write and read is the placeholder pair, identity on the clean domain.",
         "The scanner q_split itself (loop with a quote flag) is not modelled; K1/K2 factors excluded.", "5/C08"),
 "C09": ("other", "raw-case taint from Contentline.parts to comparisons; regex membership for line endings/folds; decode-path ordering",
         "No raw-case name or value reaches a comparison with upper-case constants; CRLF/LF and all four fold forms are accepted and unfolded before splitting; every bytes entry decodes with utf-8-sig.",
         "Equality of whole parse trees for all texts is not decided.", "5/C09"),
 "C10": ("other", "write-effect analysis of the to_ical cone, set-iteration-order leak analysis, sorted-flag propagation over call edges, shape of property_items",
         "No store to observable non-fresh state in the serialisation cone; no set iteration order flows into output; the sorted flag reaches every nested sorter and selects sorted vs insertion order; BEGIN/END are balanced around properties and recursive subcomponents.",
         "Observable state = attributes/items read by the to_ical cone or any __eq__; byte identity as such follows from these but floats/locale are not examined.", "5/C10"),
 "C11": ("other", "finite abstract interpretation over tz-kinds (naive/utc/zoned) of the four TZID producers; table agreement with RFC UTC-only names",
         "UTC values get Z and no TZID, zoned values get their TZID and no Z, naive neither, in all four producers; wall-clock fields are formatted without conversion; RFC UTC-only properties are forced to UTC; TZID is forwarded to decoders exactly for the names that admit it.",
         "Offsets near transitions, tz database content and provider agreement are runtime facts and are not decided; tzid_from_dt by contract.", "5/C11"),
 "C12": ("other", "global read/write effect analysis across parses; def-use of TZOFFSETFROM/TZOFFSETTO into onset and offset; sibling interface completeness",
         "No process-global state written by one parse is read by another except the listed known finding; UTC onsets are computed as local onset minus a TZOFFSETFROM-derived value and the observance offset from TZOFFSETTO; both providers implement the full interface with the same cut-off.",
         "Onset arithmetic at every instant and dateutil/pytz agreement are numerical and not decided; K4 (process-wide first-wins VTIMEZONE cache) is a known finding.", "5/C12"),
 "C14": ("other", "symbolic trip-count normalisation; abstract evaluation of Alarms.times / Alarm.triggers in linear normal form over symbolic start/end/trigger/duration",
         "For every alarm shape the computed times are anchor + TRIGGER + k*DURATION with k = 0..REPEAT exactly when DURATION is present, the anchor is start/end per RELATED, absolute triggers ignore the component, and only the documented errors occur.",
         "Date vs date-time arithmetic and DST normalisation values are not decided; small REPEAT values exercise the term shape, the trip count is symbolic.", "5/C14"),
 "C15": ("proof", "exhaustive abstract evaluation of the real ASTs of AlarmTime.acknowledged/trigger/is_active and Alarms._alarm_time over all order types x presence x trigger kinds, against the decision table of the statement",
         "The functions observe instants only through comparisons/None tests (checked), so the finite quotient is exact: every case equals the decision table.",
         "Trusted: the abstract interpreter and its semantic table for date/datetime comparison; contracts of tzp.localize_utc / normalize_pytz.", "5/C15"),
 "C16": ("model_checking", "presence/kind state machine extracted by abstract interpretation of the descriptor setter/deleter ASTs, explored to closure; getter decision tables",
         "All states reachable through the start/end/DTSTART/DTEND|DUE/DURATION setters and deleters satisfy exclusivity; rejected arguments leave the state unchanged; start/end/duration getters equal the RFC decision table for every stored shape; Event and Todo agree.",
         "CaselessDict semantics as decided in C17; states reached through add()/item assignment are inputs of the getter tables, not of the machine.", "5/C16"),
 "C17": ("other", "override completeness and key taint over the CaselessDict family, signature agreement with dict, operand normalisation in __eq__, shape of the canonical sort",
         "Every key-taking mapping operation is overridden and the key that reaches storage is to_unicode(key).upper() on every path; no subclass bypasses it; __eq__ folds both operands; canonical ordering is priority-by-position then alphabetical.",
         "Assumes CPython's OrderedDict stores through overridden __setitem__/update/copy in __init__/|/|=/fromkeys; equivalence to a reference dict over all histories follows only under that assumption. K6 (pop default) is a known finding.", "5/C17"),
 "C18": ("other", "exception-totality of the two queries, traversal-shape rules, parameter pass-through chain",
         "get_used_tzids/get_missing_tzids cannot raise; the scan consumes every value of every property of every nested component; the id queried is the id stored in the generated VTIMEZONE; unknown ids are skipped.",
         "Correctness of the generated VTIMEZONE content is C13 (not applicable).", "5/C18"),
 "C19": ("other", "table agreement with RFC 5545/7529 oracles, regex inclusion, delimiter agreement writer/reader",
         "canonical_order contains every RFC part with RSCALE, FREQ first; each part's codec is the RFC type and writer and reader use the same table and delimiters; weekday/frequency/month grammars accept the RFC forms.",
         "Equality of occurrence sequences under an expander is not decided.", "5/C19"),
 "C20": ("other", "traversal-shape rules, accessor literal/class agreement, guard analysis of every __eq__, equality-observes-serialised-fields",
         "walk visits self before all subcomponents without filter or early exit and passes name/select through; accessors ask for the name of the class they return; no __eq__ can raise on a foreign operand; copyreg reducers exist for the stored dateutil types.",
         "Reflexivity/symmetry/multiset matching for all trees and pickle fidelity are not decided; K8 (Component.__eq__ ignores name) is a known finding.", "5/C20"),
}

NA = {
 "C13": "Equality of two UTC-offset functions at every instant of a window, produced by a coarse-to-fine step search whose soundness depends on tz-database contents; no structural clause is a faithful necessary condition beyond well-formedness facts the suite already covers (DESIGN.md section 6).",
}

ARMED = [l.strip() for l in open(os.path.join(HERE, "tools", "armed.txt"))
         if l.strip() and not l.startswith("#")]


def main():
    checks = []
    na = []
    for pid in sorted(T):
        level, tech, text, note, ref = T[pid]
        if pid in ARMED:
            checks.append({
                "property_id": pid,
                "quick_cmd": f"./check {pid} --tier quick",
                "thorough_cmd": f"./check {pid} --tier thorough",
                "evidence_file": f"evidence/{pid}.json",
                "replay_cmd_template": "./check replay --replay {path}",
                "engine": "sa",
                "level_claimed": {"category": level, "text": text,
                                  "design_ref": f"DESIGN.md section {ref}"},
                "level_note": note,
                "technique": "static analysis: " + tech,
            })
        else:
            na.append({"property_id": pid,
                       "reason": "static check designed (DESIGN.md section "
                                 f"{ref}) but not armed yet in this build; "
                                 "not claimed until it runs silent on the "
                                 "unchanged tree"})
    for pid, why in sorted(NA.items()):
        na.append({"property_id": pid, "reason": why})
    man = {
        "version": 1,
        "setup_cmd": "/venv/bin/python -m compileall -q sa >/dev/null 2>&1 || python3 -m compileall -q sa",
        "hooks": {
            "guard": "ICALENDAR_VERIF",
            "enable": "none needed: the checks parse /repo/src with ast and never import or instrument the repository",
            "baseline_off_cmd": "cd /repo && /venv/bin/python -m pytest -ra -q -p no:cacheprovider --timeout=900 --continue-on-collection-errors",
            "source_commits": [],
            "add_only": True,
        },
        "engines": [{
            "name": "sa", "path": "sa/",
            "serves_properties": sorted(ARMED),
            "kind_free_text": "repository-specific static analysis in pure "
            "stdlib Python: AST source model with constant folding and "
            "registry/descriptor extraction, symbolic local expansion, "
            "call graph, exception/write effects, str.replace transducers, "
            "regex automata, finite loop exploration, finite-domain abstract "
            "interpreter; decides from /repo's current source on every run",
        }],
        "checks": checks,
        "not_applicable": na,
        "notes": "Every check is `./check <ID>`; exit 0 = held (KNOWN-FINDING "
                 "lines for entries of known_findings.json), 1 = VIOLATION, "
                 "2 = ANALYSIS-ERROR (anchor vanished / unsupported idiom).",
    }
    with open(os.path.join(HERE, "MANIFEST.json"), "w") as f:
        json.dump(man, f, indent=1)
        f.write("\n")
    print(f"MANIFEST.json: {len(checks)} checks, {len(na)} not_applicable")


if __name__ == "__main__":
    main()
