#!/usr/bin/env python3
"""tools/mut.py <mutant-id> [PROP]: apply one selftest variant to a scratch copy and show the check's full output (development aid)."""
import os, sys, tempfile, shutil, subprocess, warnings
H = os.path.dirname(os.path.dirname(os.path.abspath(__file__)))
sys.path.insert(0, H)
warnings.simplefilter("ignore", SyntaxWarning)
from sa import selftest
from sa.mutants import MUTANTS
mu = MUTANTS[sys.argv[1]]
tmp = tempfile.mkdtemp(prefix="sa-mut-")
try:
    selftest._copy_tree("/repo", tmp)
    why = selftest._apply(tmp, mu["edits"])
    if why:
        print("SKIP", why); sys.exit(3)
    r = subprocess.run([f"{H}/check", sys.argv[2] if len(sys.argv) > 2 else mu["prop"], "--root", tmp, "--no-evidence"], capture_output=True, text=True)
    print("\n".join(l for l in (r.stdout + r.stderr).splitlines() if not l.startswith("KNOWN-FINDING") and "WARNING conda" not in l)[-6000:])
    print("rc", r.returncode, "expect", mu["expect"])
finally:
    shutil.rmtree(tmp, ignore_errors=True)
