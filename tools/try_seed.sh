#!/bin/sh
# tools/try_seed.sh <patch.diff> <PROP> [more props...]: apply a seeded change to /repo, run checks, undo.
P="$1"; shift
cd /repo || exit 9
git diff --quiet || { echo "/repo dirty"; exit 9; }
git apply "$P" || { echo "patch does not apply"; exit 9; }
for id in "$@"; do
  (cd /verif && ./check "$id" --no-evidence 2>&1 | grep -E "^(FAIL|VIOLATION|ANALYSIS-ERROR|C[0-9]+ \[)" | cut -c1-400)
done
git -C /repo checkout -- .
