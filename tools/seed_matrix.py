#!/usr/bin/env python3
"""For every /verif/seeded/<ID>-<v>/patch.diff: apply to /repo, run the property's check (no evidence),
undo, and record rc + fired rules in meta.json (keeps hand-written fields)."""
import json, os, re, subprocess, sys, glob
H = os.path.dirname(os.path.dirname(os.path.abspath(__file__)))
armed = [l.strip() for l in open(f'{H}/tools/armed.txt') if l.strip()]
only = sys.argv[1:]
rows = []
for d in sorted(glob.glob(f'{H}/seeded/*/')):
    name = os.path.basename(d.rstrip('/'))
    pid = name.split('-')[0]
    if only and pid not in only and name not in only:
        continue
    mp = d + 'meta.json'
    meta = json.load(open(mp)) if os.path.exists(mp) else {}
    meta.setdefault('property', pid)
    if subprocess.run(['git', '-C', '/repo', 'diff', '--quiet']).returncode:
        sys.exit('/repo dirty')
    r = subprocess.run(['git', '-C', '/repo', 'apply', d + 'patch.diff'], capture_output=True, text=True)
    if r.returncode:
        meta['check_result'] = 'patch does not apply to current /repo HEAD: ' + r.stderr[:200]
        rows.append((name, 'N/A', ''))
    else:
        others = {}
        try:
            out = subprocess.run([f'{H}/check', pid, '--no-evidence'], capture_output=True, text=True, cwd=H)
            if out.returncode != 1:
                # not reported by its own property's check: do the checks of other properties see it?
                from concurrent.futures import ThreadPoolExecutor
                def run_other(q):
                    o = subprocess.run([f'{H}/check', q, '--no-evidence'], capture_output=True, text=True, cwd=H)
                    return q, o.returncode, sorted(set(re.findall(r'^FAIL (\S+) key=', o.stdout, re.M)))
                with ThreadPoolExecutor(8) as ex:
                    for q, rc, rules in ex.map(run_other, [a for a in armed if a != pid]):
                        if rc == 1:
                            others[q] = rules[:4]
        finally:
            subprocess.run(['git', '-C', '/repo', 'checkout', '--', '.'])
        fired = sorted(set(re.findall(r'^FAIL (\S+) key=(.*?) at ', out.stdout, re.M)))
        err = re.findall(r'^ANALYSIS-ERROR.*$', out.stdout, re.M)
        verdict = {0: 'MISSED (check silent)', 1: 'DETECTED (VIOLATION)', 2: 'NOT-DECIDED (ANALYSIS-ERROR, exit 2)'}.get(out.returncode, str(out.returncode))
        if pid not in armed:
            verdict += ' [check not armed yet]'
        meta['check_cmd'] = f'git -C /repo apply seeded/{name}/patch.diff && ./check {pid} --no-evidence; git -C /repo checkout -- .'
        meta.pop('analysis_error', None)
        meta['check_exit'] = out.returncode
        meta['check_result'] = verdict
        meta['fired'] = [f'{r} key={k}' for r, k in fired][:12]
        meta.pop('detected_by_other_properties', None)
        if others:
            meta['detected_by_other_properties'] = others
            verdict += ' [reported by ' + ', '.join(sorted(others)) + ']' 
        if err: meta['analysis_error'] = err[0][:300]
        rows.append((name, verdict, '; '.join(f'{r}' for r, k in fired)[:100] or (err[0][:100] if err else '')))
    json.dump(meta, open(mp, 'w'), indent=1); open(mp, 'a').write('\n')
for r in rows: print('%-10s %-45s %s' % r)
