#!/usr/bin/env python3
"""Validate MANIFEST.json and evidence/*.json against the schemas (python3-vt has jsonschema)."""
import json, sys, glob, os
import jsonschema
H = os.path.dirname(os.path.dirname(os.path.abspath(__file__)))
ms = json.load(open('/root/.vp/MANIFEST.schema.json'))
es = json.load(open('/root/.vp/EVIDENCE.schema.json'))
bad = 0
try:
    jsonschema.validate(json.load(open(f'{H}/MANIFEST.json')), ms)
    print('MANIFEST ok')
except Exception as e:
    bad += 1; print('MANIFEST INVALID', str(e)[:300])
for p in sorted(glob.glob(f'{H}/evidence/*.json')):
    try:
        jsonschema.validate(json.load(open(p)), es)
    except Exception as e:
        bad += 1; print('INVALID', p, str(e)[:300])
print('evidence files checked:', len(glob.glob(f'{H}/evidence/*.json')), 'bad:', bad)
sys.exit(1 if bad else 0)
