#!/usr/bin/env python3
"""tools/kf.py <property> <rule> <key> <status> <id> <what> [witness] [commit] - add/replace an entry of known_findings.json (development-time only; checks never write it)."""
import json, sys, os
H = os.path.dirname(os.path.dirname(os.path.abspath(__file__)))
p = f'{H}/known_findings.json'
d = json.load(open(p))
prop, rule, key, status, fid, what = sys.argv[1:7]
wit = sys.argv[7] if len(sys.argv) > 7 else None
commit = sys.argv[8] if len(sys.argv) > 8 else None
d['findings'] = [f for f in d['findings'] if not (f['property'] == prop and f['rule'] == rule and f['key'] == key)]
e = {'property': prop, 'rule': rule, 'key': key, 'status': status, 'id': fid, 'what': what}
if wit: e['witness'] = wit
if commit: e['commit'] = commit
d['findings'].append(e)
d['findings'].sort(key=lambda f: (f['property'], f['rule'], f['key']))
json.dump(d, open(p, 'w'), indent=1); open(p, 'a').write('\n')
print('ok', len(d['findings']))
