#!/bin/sh
# Run the repository's pinned suite (in parallel) on a tree; prints the summary line.
# usage: tools/suite.sh [DIR]   (default /repo)
D="${1:-/repo}"
cd "$D" && PYTHONHASHSEED=0 /venv/bin/python -m pytest -q -p no:cacheprovider -n 16 --timeout=900 2>&1 | tail -6
