#!/bin/bash
# tools/allchecks.sh [--tier thorough]: every armed check on the current /repo tree, no evidence; one line each
cd "$(dirname "$0")/.."
cat tools/armed.txt | xargs -P 16 -I{} sh -c './check {} --no-evidence "$@" > /tmp/allchecks.{}.out 2>&1; echo "{} rc=$?"' _ "$@" | sort
for p in $(cat tools/armed.txt); do grep -h "^FAIL\|^ANALYSIS-ERROR\|^VIOLATION\|Traceback" /tmp/allchecks.$p.out | cut -c1-300; done
