#!/usr/bin/env python3
"""tools/seed_eval.py DIR...: evaluate seeded changes (DIR/patch.diff) without touching /repo: each is applied to
a scratch copy of /repo's working tree and every armed check is run with --root on it.
Prints per seed: the property's own check verdict and which other checks report."""
import os, sys, subprocess, tempfile, shutil, warnings, re
from concurrent.futures import ThreadPoolExecutor
H = os.path.dirname(os.path.dirname(os.path.abspath(__file__)))
sys.path.insert(0, H)
warnings.simplefilter("ignore", SyntaxWarning)
from sa import selftest
armed = [l.strip() for l in open(f'{H}/tools/armed.txt') if l.strip()]

def one(d):
    d = os.path.abspath(d).rstrip('/')
    m = re.search(r'(C\d\d)', d)
    own = m.group(1)
    tmp = tempfile.mkdtemp(prefix="sa-seed-")
    try:
        selftest._copy_tree("/repo", tmp)
        r = subprocess.run(['git', 'apply', '--include=src/*', d + '/patch.diff'], cwd=tmp, capture_output=True, text=True)
        if r.returncode:
            r = subprocess.run(['patch', '-p1', '-f', '-i', d + '/patch.diff'], cwd=tmp, capture_output=True, text=True)
            if r.returncode and os.path.isdir(tmp + '/src') and 'CHANGES' in (r.stdout + r.stderr):
                r = subprocess.CompletedProcess([], 0, '', '')
            if r.returncode:
                return d, own, None, "patch does not apply: " + r.stderr[:200]
        res = {}
        order = [own] + [p for p in armed if p != own]
        for pid in order:
            o = subprocess.run([f'{H}/check', pid, '--root', tmp, '--no-evidence'], capture_output=True, text=True, cwd=H)
            lines = [l for l in o.stdout.splitlines() if l.startswith(('FAIL', 'ANALYSIS-ERROR'))]
            res[pid] = (o.returncode, lines)
            if os.environ.get("OWN_FIRST") and pid == own and o.returncode == 1:
                break
        return d, own, res, None
    finally:
        shutil.rmtree(tmp, ignore_errors=True)

WRITE_META = '--write-meta' in sys.argv
dirs = [d for d in sys.argv[1:] if os.path.exists(os.path.join(d, 'patch.diff'))]
with ThreadPoolExecutor(int(os.environ.get("JOBS", "6"))) as ex:
    for d, own, res, err in ex.map(one, dirs):
        name = '/'.join(d.split('/')[-2:])
        if err:
            print(f'{name}: {err}'); continue
        rc, lines = res[own]
        verdict = {0: 'MISSED', 1: 'DETECTED', 2: 'EXIT2'}.get(rc, f'rc={rc}')
        others = [f'{p}:{ {1:"V",2:"E2"}[r[0]] }' for p, r in res.items() if p != own and r[0] != 0]
        rules = sorted({l.split()[1] for l in lines if l.startswith('FAIL')})
        print(f'{name}: own={verdict} {" ".join(rules)[:120]} others=[{" ".join(others)}]', flush=True)
        if WRITE_META:
            import json
            mp = d + '/meta.json'
            meta = json.load(open(mp)) if os.path.exists(mp) else {}
            sid = os.path.basename(d)
            meta['check_cmd'] = f'git -C /repo apply seeded/{sid}/patch.diff && ./check {own} --no-evidence; git -C /repo checkout -- .'
            meta['check_exit'] = rc
            meta['check_result'] = {0: 'MISSED (check silent)', 1: 'DETECTED (VIOLATION)',
                                    2: 'NOT-DECIDED (ANALYSIS-ERROR, exit 2)'}.get(rc, str(rc))
            meta['fired'] = [l.split(' at ')[0][5:] for l in lines if l.startswith('FAIL')][:12]
            meta.pop('analysis_error', None)
            if rc == 2 and lines:
                meta['analysis_error'] = lines[0][:300]
            meta.pop('detected_by_other_properties', None)
            oth = {p: sorted({l.split()[1] for l in r[1] if l.startswith('FAIL')})[:4] for p, r in res.items()
                   if p != own and r[0] == 1}
            if oth:
                meta['detected_by_other_properties'] = oth
            json.dump(meta, open(mp, 'w'), indent=1); open(mp, 'a').write('\n')
        if rc == 2:
            print('      ' + (lines[0][:260] if lines else ''))
        for p, r in res.items():
            if p != own and r[0] == 2:
                print(f'      {p}: {r[1][0][:220] if r[1] else ""}')
