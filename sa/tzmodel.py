"""C12: what Timezone.get_transitions computes, decided by interpretation (E7).

A VTIMEZONE is built as an abstract tree: observances with symbolic local onsets
(DT with a linear term and a rank giving their order), concrete whole-minute
TZOFFSETFROM / TZOFFSETTO and (optionally) a TZNAME; onsets come from DTSTART
alone, from RDATE lists or from an RRULE (dateutil modelled by contract: the
rule yields onsets in the zone of the dtstart it was given).  The repo's
get_transitions / _extract_offsets / helper functions are *interpreted*; the
result is compared with an oracle written from RFC 5545 3.6.5:

  - every onset gives exactly one transition, ordered by local onset;
  - the UTC time of an onset is the local onset minus TZOFFSETFROM;
  - the offset in force from the onset on is TZOFFSETTO;
  - the DST part is 0 for STANDARD, TZOFFSETTO minus the standard offset of the
    nearest STANDARD observance (before, else after) for DAYLIGHT;
  - the name is the observance's TZNAME (a generated, pairwise distinct one if absent);
  - an RRULE is expanded from DTSTART in the TZOFFSETFROM offset and the
    onsets are local (naive) times.

PYTZ.create_timezone is interpreted on the same trees: the class it builds for
pytz carries exactly the transitions get_transitions returned.

Nothing here depends on how the repo code is laid out: helper extraction,
renames, comprehension/loop rewrites all interpret to the same values.
"""
import ast

from .core import AnalysisError
from .absint import (Interp, DT, TD, TZ, Obj, ClassVal, AbsRaise, Unsupported, Native, NativeObj,
                     Bound, Closure, Unknown, is_opaque)
from .treemodel import TreeInterp


class DynClass:
    """type(name, bases, namespace)"""
    def __init__(self, name, bases, ns):
        self.name, self.bases, self.ns = name, bases, ns


class TzInterp(TreeInterp):
    def __init__(self, model):
        super().__init__(model)
        self.rrule_calls = []
        self.fix_calls = []
        self.contracts["parser.Contentlines.to_ical"] = TzInterp._lines_to_ical
        old_type = self.type_ctor["type"]

        def type_(i, a, k):
            if len(a) == 3:
                ns = a[2]
                if isinstance(ns, Obj) and ns.items is not None:
                    ns = dict(ns.items)
                if not isinstance(ns, dict):
                    raise Unsupported(f"type() namespace {ns!r}")
                return DynClass(self._str(a[0]), a[1], dict(ns))
            return old_type.fn(i, a, k)
        self.type_ctor["type"] = Native("type", type_)

    # -- the serialised component as dateutil.tz.tzical reads it
    def _lines_to_ical(self, args, kwargs):
        o = Obj(None)
        o.attrs["__ics_lines__"] = list(self._as_list(args[0]))
        return o

    def getattr(self, o, name):
        if isinstance(o, Obj) and "__ics_lines__" in o.attrs and name in ("decode", "encode"):
            return Native(name, lambda i, a, k, o=o: o)          # the same text, as str / bytes
        if isinstance(o, Obj) and o.attrs.get("__tzical__") is not None and name == "get":
            def get(i, a, k, o=o):
                """dateutil.tz.tzical.get(tzid=None): the zones are keyed by the TZID *as written in the
                text* (dateutil does not unescape); without an argument the only zone is returned."""
                want = a[0] if a else k.get("tzid")
                zones = o.attrs["__tzical__"]
                if want is None:
                    if len(zones) != 1:
                        raise AbsRaise("ValueError", "no or more than one timezone available")
                    return next(iter(zones.values()))
                w = self._str(want)
                if is_opaque(w):
                    raise Unsupported("tzical.get(<non-concrete id>)")
                return zones.get(w)
            return Native("tzical.get", get)
        return super().getattr(o, name)

    def _tzical(self, i, a, k):
        src = a[0]
        if not (isinstance(src, Obj) and "__ics_lines__" in src.attrs):
            raise Unsupported(f"tzical({src!r})")
        zones = {}
        depth = 0
        cur = None
        for ln in src.attrs["__ics_lines__"]:
            if not (isinstance(ln, tuple) and len(ln) == 5 and ln[0] == "line"):
                continue
            _, nm, params, value, _srt = ln
            nm = self._str(nm)
            raw = value
            if isinstance(value, Obj) and value.cls is not None and \
                    self.model.lookup_method(value.cls, "to_ical") is not None:
                raw = self.call(self.getattr(value, "to_ical"), [], {})
            if isinstance(raw, bytes):
                raw = raw.decode("utf-8")
            raw = raw.strval if isinstance(raw, Obj) and raw.strval is not None else raw
            if nm == "BEGIN" and raw == "VTIMEZONE":
                cur = {"tzid": None}
            elif nm == "TZID" and cur is not None and cur["tzid"] is None:
                if not isinstance(raw, str) or is_opaque(raw):
                    raise Unsupported("TZID text is not concrete")
                cur["tzid"] = raw
            elif nm == "END" and raw == "VTIMEZONE" and cur is not None:
                if cur["tzid"] is None:
                    raise AbsRaise("ValueError", "mandatory TZID not found")
                zones[cur["tzid"]] = ("tzical-zone", cur["tzid"])
                cur = None
        o = Obj(None)
        o.attrs["__tzical__"] = zones
        return o

    # -- dateutil, by contract
    def _wrap_resolved(self, r, name):
        if isinstance(r, tuple) and r[0] == "external" and r[1] in ("io.StringIO", "io.BytesIO"):
            return Native("StringIO", lambda i, a, k: a[0])
        if isinstance(r, tuple) and r[0] == "external" and r[1] in ("dateutil.tz.tzical", "dateutil.tz.tz.tzical"):
            return Native("tzical", self._tzical)
        if isinstance(r, tuple) and r[0] == "external" and r[1].split(".")[0] == "dateutil":
            o = NativeObj("dateutil")
            for part in r[1].split(".")[1:]:
                o = self._native_obj_attr(o, part)
            return o
        if isinstance(r, tuple) and r[0] == "external" and r[1] in ("pytz.tzinfo.DstTzInfo", "pytz.tzinfo"):
            return NativeObj(r[1])
        return super()._wrap_resolved(r, name)

    def _native_obj_attr(self, o, name):
        if o.name == "dateutil" and name in ("tz", "rrule"):
            return NativeObj(f"dateutil.{name}")
        if o.name == "dateutil.tz" and name == "tzical":
            return Native("tzical", self._tzical)
        if o.name == "dateutil.tz" and name == "tzoffset":
            def tzoffset(i, a, k):
                off = a[1] if len(a) > 1 else k.get("offset")
                if isinstance(off, TD) and off.secs is not None:
                    secs = off.secs
                elif isinstance(off, (int, float)):
                    secs = off
                else:
                    raise Unsupported(f"tzoffset({off!r})")
                return TZ("fixed", f"fixed{secs:+d}", "plain")
            return Native("tzoffset", tzoffset)
        if o.name == "dateutil.tz" and name in ("UTC", "tzutc"):
            return TZ("utc", "UTC", "plain") if name == "UTC" else Native("tzutc", lambda i, a, k: TZ("utc", "UTC", "plain"))
        if o.name == "dateutil.rrule" and name in ("rrulestr", "rrule"):
            def rrulestr(i, a, k):
                start = k.get("dtstart")
                self.rrule_calls.append((a[0] if a else None, start, {kk: vv for kk, vv in k.items()
                                                                      if kk != "dtstart"}))
                if not isinstance(start, DT):
                    raise Unsupported(f"rrulestr(dtstart={start!r})")
                base = next(iter(start.term)) if start.term else "o"
                onsets = [start] + [start.with_(rank=start.rank + 10 * j, term={f"{base}+{j}y": 1})
                                    for j in (1, 2)]
                rule = Obj(None)
                rule.listval = onsets
                rule.attrs["_dtstart"] = start
                rule.attrs["_until"] = None
                rule.attrs["__rrule__"] = True
                return rule
            return Native("rrulestr", rrulestr)
        if o.name == "tzp" and name == "fix_rrule_until":
            def fix(i, a, k):
                self.fix_calls.append(a)
            return Native("tzp.fix_rrule_until", fix)
        return super()._native_obj_attr(o, name)

    def call(self, f, args, kwargs):
        if isinstance(f, DynClass):
            o = Obj(None)
            o.attrs.update(f.ns)
            o.attrs["__dynclass__"] = f
            return o
        return super().call(f, args, kwargs)


# ---------------------------------------------------------------------------
# observance: (kind, onsets-spec, from, to, name)
#   onsets-spec: ("start", rank) | ("rdate", rank, [ranks...], form) | ("rrule", rank)
H = 3600
CASES = [
    dict(name="standard then daylight", obs=[("S", ("start", 20), 2 * H, 1 * H, "CET"),
                                             ("D", ("start", 10), 1 * H, 2 * H, "CEST")]),
    dict(name="daylight first, standard later", obs=[("D", ("start", 10), 1 * H, 2 * H, "CEST"),
                                                     ("S", ("start", 20), 2 * H, 1 * H, "CET")]),
    dict(name="west of UTC", obs=[("S", ("start", 10), -4 * H, -5 * H, "EST"),
                                  ("D", ("start", 20), -5 * H, -4 * H, "EDT")]),
    dict(name="three observances, half-hour offsets",
         obs=[("S", ("start", 10), 5 * H, 5 * H + 1800, "IST"),
              ("D", ("start", 20), 5 * H + 1800, 6 * H + 1800, "IDT"),
              ("S", ("start", 30), 6 * H + 1800, 5 * H + 1800, "IST2")]),
    dict(name="RDATE onsets (one list)", obs=[("S", ("rdate", 10, [30, 50], "single"), 2 * H, 1 * H, "CET"),
                                             ("D", ("rdate", 20, [40], "single"), 1 * H, 2 * H, "CEST")]),
    dict(name="RDATE onsets (several lists)", obs=[("S", ("rdate", 10, [30, 50], "lists"), 2 * H, 1 * H, "CET"),
                                                  ("D", ("start", 20), 1 * H, 2 * H, "CEST")]),
    dict(name="RDATE repeats DTSTART", obs=[("S", ("rdate", 10, [10, 30], "single"), 2 * H, 1 * H, "CET"),
                                           ("D", ("start", 20), 1 * H, 2 * H, "CEST")]),
    # RDATE is a set of onsets: one that lies before the observance's DTSTART still counts
    dict(name="RDATE onset earlier than DTSTART", obs=[("S", ("rdate", 30, [10, 50], "single"), 2 * H, 1 * H, "CET"),
                                                      ("D", ("rdate", 20, [40], "single"), 1 * H, 2 * H, "CEST")]),
    dict(name="RRULE onsets", obs=[("S", ("rrule", 5), 2 * H, 1 * H, "CET"),
                                   ("D", ("rrule", 1), 1 * H, 2 * H, "CEST")]),
    dict(name="RRULE east of UTC, large offset", obs=[("S", ("rrule", 5), 13 * H, 12 * H, "NZST"),
                                                      ("D", ("rrule", 1), 12 * H, 13 * H, "NZDT")]),
    dict(name="RRULE with UNTIL (UTC)", obs=[("S", ("rrule-until", 5), 2 * H, 1 * H, "CET"),
                                             ("D", ("rrule-until", 1), 1 * H, 2 * H, "CEST")]),
    dict(name="offset unchanged, name changes", obs=[("S", ("start", 10), 1 * H, 1 * H, "MET"),
                                                     ("S", ("start", 20), 1 * H, 1 * H, "CET"),
                                                     ("D", ("start", 30), 1 * H, 2 * H, "CEST")]),
    dict(name="single observance", obs=[("S", ("start", 10), 0, 1 * H, "X")]),
]


def _td(secs):
    return TD(secs=secs, term={"second": secs} if secs else {})


def build(it, case):
    m = it.model
    tz = it.instantiate(m.cls("cal.Timezone"), [], {})
    tz.items["TZID"] = it.call(ClassVal(m.cls("prop.vText")), ["Custom/Zone"], {})
    vddd = ClassVal(m.cls("prop.vDDDTypes"))
    expected = []          # (rank, onset-symbol, from, to, name-or-index, is_dst)
    rrule_obs = []
    for j, (kind, spec, fr, to, name) in enumerate(case["obs"]):
        q = "cal.TimezoneStandard" if kind == "S" else "cal.TimezoneDaylight"
        c = it.instantiate(m.cls(q), [], {})
        sym = f"o{j}"
        start = DT("naive", spec[1], {sym: 1})
        c.items["DTSTART"] = it.call(vddd, [start], {})
        c.items["TZOFFSETFROM"] = it.call(ClassVal(m.cls("prop.vUTCOffset")), [_td(fr)], {})
        c.items["TZOFFSETTO"] = it.call(ClassVal(m.cls("prop.vUTCOffset")), [_td(to)], {})
        if name is not None:
            c.items["TZNAME"] = it.call(ClassVal(m.cls("prop.vText")), [name], {})
        onsets = [(spec[1], {sym: 1})]
        if spec[0] == "rdate":
            dts = []
            for r in spec[2]:
                if r == spec[1]:
                    dts.append(start)            # the same instant again
                else:
                    dts.append(DT("naive", r, {f"{sym}r{r}": 1}))
                    onsets.append((r, {f"{sym}r{r}": 1}))
            vlist = ClassVal(m.cls("prop.vDDDLists"))
            if spec[3] == "single":
                c.items["RDATE"] = it.call(vlist, [dts], {})
            else:
                c.items["RDATE"] = [it.call(vlist, [[d]], {}) for d in dts]
        elif spec[0] in ("rrule", "rrule-until"):
            rec = it.instantiate(m.cls("prop.vRecur"), [], {})
            rec.items["FREQ"] = ["YEARLY"]
            if spec[0] == "rrule-until":
                # RFC 5545 3.6.5: the UNTIL of an observance rule is a UTC time
                rec.items["UNTIL"] = [DT("utc", 10 ** 6, {f"{sym}until": 1})]
            c.items["RRULE"] = rec
            onsets += [(spec[1] + 10 * k, {f"{sym}+{k}y": 1}) for k in (1, 2)]
            rrule_obs.append((j, sym, fr, spec[0] == "rrule-until"))
        for r, term in onsets:
            expected.append((r, term, fr, to, name if name is not None else j, kind == "D"))
        tz.attrs["subcomponents"].append(c)
    expected.sort(key=lambda e: e[0])
    return tz, expected, rrule_obs


def _expected_dst(expected, i):
    r, term, fr, to, name, is_dst = expected[i]
    if not is_dst:
        return 0
    for j in range(i - 1, -1, -1):
        if not expected[j][5]:
            return to - expected[j][3]
    for j in range(i + 1, len(expected)):
        if not expected[j][5]:
            return to - expected[j][3]
    return None


def _term(t):
    return {k: v for k, v in (t or {}).items() if v}


def check_transitions(it, case, result, expected, rrule_obs, note):
    cname = case["name"]
    if not (isinstance(result, (tuple, list)) and len(result) == 2):
        raise Unsupported(f"get_transitions returned {result!r}")
    times, info = [it._as_list(x) for x in result]
    if len(times) != len(expected) or len(info) != len(expected):
        note("count", f"{len(expected)} onsets are defined, get_transitions returns {len(times)} "
             f"transition times and {len(info)} transition infos", case=cname)
        return
    names_seen = {}
    for i, (r, term, fr, to, name, is_dst) in enumerate(expected):
        t = times[i]
        if not isinstance(t, DT):
            raise Unsupported(f"transition time {t!r}")
        want = _term({**term, "second": -fr} if fr else term)
        if t.kind != "naive":
            note("naive", f"transition time {i} is {t.kind}, the list pytz/dateutil expect holds "
                 f"naive UTC times", case=cname)
        if t.term is None:
            raise Unsupported(f"transition time {t!r} has no symbolic term")
        got = _term(t.term)
        if got != want:
            onset_syms = {k for k in got if k != "second"}
            if onset_syms != set(term):
                note("order", f"transition {i} (by local onset) is computed from onset "
                     f"{sorted(onset_syms)}, expected {sorted(term)}: the transitions are not "
                     f"ordered by local onset", case=cname)
                return
            note("utc-onset", f"UTC time of onset {i} is local onset {got.get('second', 0):+d} s; "
                 f"it must be the local onset minus TZOFFSETFROM ({fr:+d} s) [TZOFFSETTO is {to:+d} s]",
                 case=cname)
        tup = info[i]
        if not (isinstance(tup, tuple) and len(tup) == 3):
            raise Unsupported(f"transition info {tup!r}")
        off, dst, nm = tup
        if not isinstance(off, TD) or off.secs is None:
            raise Unsupported(f"utcoffset {off!r} is not concrete")
        if off.secs != to:
            note("utcoffset", f"offset in force after onset {i} is {off.secs:+d} s, TZOFFSETTO is "
                 f"{to:+d} s (TZOFFSETFROM {fr:+d} s)", case=cname)
        wd = _expected_dst(expected, i)
        if wd is not None:
            if not isinstance(dst, TD) or dst.secs is None:
                raise Unsupported(f"dst offset {dst!r} is not concrete")
            if dst.secs != wd:
                note("dst", f"DST part after onset {i} ({'DAYLIGHT' if is_dst else 'STANDARD'}) is "
                     f"{dst.secs:+d} s, expected {wd:+d} s", case=cname)
        if isinstance(name, str):
            nmv = nm.strval if isinstance(nm, Obj) and nm.strval is not None else nm
            if is_opaque(nmv) or nmv != name:
                note("tzname", f"name after onset {i} is {nmv!r}, the observance's TZNAME is {name!r}",
                     case=cname)
        else:
            prev = names_seen.setdefault(name, nm)
            if prev is not nm and not (isinstance(nm, str) and not is_opaque(nm) and nm == prev):
                note("tzname", f"onsets of one observance without TZNAME get different names", case=cname)
            for other, v in names_seen.items():
                if other != name and (v is nm or (not is_opaque(v) and not is_opaque(nm) and v == nm)):
                    note("tzname", "two observances without TZNAME share one generated name", case=cname)
    # RRULE anchoring
    for (j, sym, fr, has_until) in rrule_obs:
        mine = [(s, kw) for (_, s, kw) in it.rrule_calls if isinstance(s, DT) and s.term and sym in s.term]
        if not mine:
            note("rrule-start", f"the RRULE of observance {j} is not expanded from its DTSTART", case=cname)
            continue
        s, kw = mine[0]
        if has_until and (s.kind == "naive" or it.truth(kw.get("ignoretz", False))):
            note("rrule-anchor", f"the RRULE of observance {j} has an UNTIL in UTC and is expanded "
                 f"{'with ignoretz' if kw.get('ignoretz') else 'from a naive DTSTART'}: the UTC digits of "
                 f"UNTIL are compared with local onset times (off by TZOFFSETFROM = {fr:+d} s: the last onset "
                 f"is lost east of Greenwich, one too many is produced west of it), or dateutil refuses the rule",
                 case=cname)
            continue
        if s.kind == "naive":
            continue        # no UNTIL: a naive expansion yields the same local onsets
        want = f"fixed{fr:+d}"
        if not (s.kind == "zoned" and s.zone == want) and not (fr == 0 and s.kind == "utc"):
            note("rrule-anchor", f"the RRULE of observance {j} is expanded with DTSTART in "
                 f"{s.zone or s.kind}, not in the TZOFFSETFROM offset ({want}): UNTIL (UTC) is "
                 f"compared in the wrong offset and the last onset of the rule is lost or one too "
                 f"many is produced", case=cname)


LAWS = ["one transition per onset", "ordered by local onset", "UTC onset = local onset - TZOFFSETFROM",
        "offset in force = TZOFFSETTO", "DST part from the nearest STANDARD observance",
        "name = TZNAME or a distinct generated name", "RRULE expanded in the TZOFFSETFROM offset",
        "transition times are naive", "pytz zone carries exactly these transitions"]
ALIAS = {"count": LAWS[0], "order": LAWS[1], "utc-onset": LAWS[2], "utcoffset": LAWS[3], "dst": LAWS[4],
         "tzname": LAWS[5], "rrule-anchor": LAWS[6], "rrule-start": LAWS[6], "naive": LAWS[7],
         "pytz": LAWS[8], "total": "conversion of a well-formed VTIMEZONE does not fail"}


def explore(ctx):
    model = ctx.model
    tzc = model.cls("cal.Timezone")
    if model.lookup_method(tzc, "get_transitions") is None:
        raise AnalysisError("anchor vanished: Timezone.get_transitions")
    pytz_ci = model.cls("timezone.pytz.PYTZ")
    create = model.lookup_method(pytz_ci, "create_timezone")
    if create is None:
        raise AnalysisError("anchor vanished: PYTZ.create_timezone")
    fails = []
    n = 0

    def note(law, desc, **d):
        fails.append((law, desc, d))

    for case in CASES:
        it = TzInterp(model)
        try:
            tz, expected, rrule_obs = build(it, case)
            n += 1
            try:
                res = it.call(it.getattr(tz, "get_transitions"), [], {})
            except AbsRaise as e:
                note("total", f"get_transitions raises {e.cls_name} ({e.msg})", case=case["name"])
                continue
            check_transitions(it, case, res, expected, rrule_obs, note)
            # the pytz provider
            it2 = TzInterp(model)
            tz2, expected2, rr2 = build(it2, case)
            n += 1
            try:
                zone = it2.call(Bound(Closure(create), Obj(pytz_ci)), [tz2], {})
            except AbsRaise as e:
                note("total", f"PYTZ.create_timezone raises {e.cls_name} ({e.msg})", case=case["name"])
                continue
            if not (isinstance(zone, Obj) and "__dynclass__" in zone.attrs):
                raise Unsupported(f"PYTZ.create_timezone returned {zone!r}")
            tt, ti = zone.attrs.get("_utc_transition_times"), zone.attrs.get("_transition_info")
            if tt is None or ti is None:
                raise Unsupported("the pytz class lacks _utc_transition_times/_transition_info")
            before = len(fails)
            check_transitions(it2, case, (tt, ti), expected2, rr2,
                              lambda law, desc, **d: fails.append(
                                  ("pytz", f"PYTZ.create_timezone: {desc}", d)))
            zname = zone.attrs.get("zone")
            zname = zname.strval if isinstance(zname, Obj) and zname.strval is not None else zname
            if len(fails) == before and (is_opaque(zname) or zname != "Custom/Zone"):
                note("pytz", f"the pytz zone is named {zname!r}, the TZID is 'Custom/Zone'", case=case["name"])
        except Unsupported as e:
            raise AnalysisError(f"VTIMEZONE conversion leaves the abstract interface on case "
                                f"{case['name']!r}: {e}")
    return n, fails


ZI_TZIDS = ["Custom/Zone", "(UTC+01:00) Amsterdam, Berlin, Rome", "Semi;colon Zone", "Back\\slash"]


def explore_zoneinfo(ctx):
    """ZONEINFO.create_timezone on VTIMEZONEs whose TZID needs escaping in the text: the zone
    dateutil builds from the serialised component is the one that is returned (never None)."""
    model = ctx.model
    ci = model.cls("timezone.zoneinfo.ZONEINFO")
    create = model.lookup_method(ci, "create_timezone")
    if create is None:
        raise AnalysisError("anchor vanished: ZONEINFO.create_timezone")
    fails = []
    n = 0
    for tzid in ZI_TZIDS:
        it = TzInterp(model)
        try:
            tz, _, _ = build(it, CASES[0])
            tz.items["TZID"] = it.call(ClassVal(model.cls("prop.vText")), [tzid], {})
            n += 1
            try:
                zone = it.call(Bound(Closure(create), Obj(ci)), [tz], {})
            except AbsRaise as e:
                fails.append(("zoneinfo", f"ZONEINFO.create_timezone raises {e.cls_name} for the TZID {tzid!r}",
                              dict(tzid=tzid)))
                continue
            if not (isinstance(zone, tuple) and zone and zone[0] == "tzical-zone"):
                fails.append(("zoneinfo", f"ZONEINFO.create_timezone returns {zone!r} for a VTIMEZONE with the "
                              f"TZID {tzid!r}: the zone dateutil builds from the component is keyed by the TZID "
                              f"as written in the text ({_raw_tzid(it, tz)!r}); every value with this TZID is "
                              f"then read as naive under zoneinfo while pytz resolves it", dict(tzid=tzid)))
        except Unsupported as e:
            raise AnalysisError(f"ZONEINFO.create_timezone leaves the abstract interface on TZID {tzid!r}: {e}")
    return n, fails


def _raw_tzid(it, tz):
    try:
        raw = it.call(it.getattr(tz.items["TZID"], "to_ical"), [], {})
        return raw.decode("utf-8") if isinstance(raw, bytes) else raw
    except Exception:
        return None


ALIAS["zoneinfo"] = "the zoneinfo provider returns the zone built from the component"


def report(ctx, rule, loc, floor):
    n, fails = explore(ctx)
    n2, fails2 = explore_zoneinfo(ctx)
    n += n2
    fails = fails + fails2
    if n < floor:
        raise AnalysisError(f"{rule}: only {n} cases explored (floor {floor})")
    by_law = {}
    for law, desc, d in fails:
        by_law.setdefault(ALIAS.get(law, law), []).append((desc, d))
    laws = list(dict.fromkeys(list(LAWS) + [ALIAS["total"], ALIAS["zoneinfo"]]))
    for law in laws:
        bad = by_law.get(law, [])
        if bad:
            desc, d = bad[0]
            ctx.fail(rule, law, f"{desc} [{len(bad)} case(s): "
                     f"{sorted({x[1].get('case') for x in bad})[:4]}]", loc,
                     witness=d.get("case"))
        else:
            ctx.ok(rule, law, loc, detail=f"{n} conversions of {len(CASES)} abstract VTIMEZONEs")
    return n
