"""Locates, by def-use expansion (not by variable names), the string rewriting
applied to a TEXT property value between the API and the wire and back:

    writer:  vText.to_ical          = encode(escape_char(self))
             Contentline.from_parts = name [; params] : to_unicode(value.to_ical())
    reader:  Contentline.parts      -> (name, params, unescape_string(escape_string(self)[split+1:]))
             vText.from_ical        = cls(unescape_char(ical))

and returns the transducer chains of the stages.  Used by C01, C05, C07, C08.
"""
from __future__ import annotations

import ast

from .core import AnalysisError
from .flow import SymEnv, is_param, is_marker, dump
from .model import walk_no_nested, FuncInfo
from . import fst

N_SPEC = [("\\N", "\n"), ("\r\n", "\n")]     # documented normalisation


def normaliser():
    return fst.Chain([fst.Replace(p, r) for p, r in N_SPEC], "N")


def _peel(model, module, e, idents=("to_unicode", "str", "cls")):
    """Strip identity-like wrappers: cls(x), to_unicode(x), x.encode(..),
    x.decode(..), x[a:b] (records 'slice')."""
    notes = []
    while True:
        if isinstance(e, ast.Call) and isinstance(e.func, ast.Attribute) \
                and e.func.attr in ("encode", "decode"):
            e = e.func.value
            continue
        if isinstance(e, ast.Call) and isinstance(e.func, ast.Name) \
                and e.func.id in idents and e.args:
            e = e.args[0]
            continue
        if isinstance(e, ast.Subscript) and isinstance(e.slice, ast.Slice):
            notes.append("slice")
            e = e.value
            continue
        return e, notes


def stages_of(model, f: FuncInfo, expr, param):
    """expr (expanded) = f_n(...f_1(param)) with identity wrappers in between
    -> list of FuncInfo innermost first."""
    out = []
    e = expr
    while True:
        e, _ = _peel(model, f.module, e)
        if is_param(e, param):
            return list(reversed(out))
        if isinstance(e, ast.Call) and isinstance(e.func, ast.Name) \
                and len(e.args) >= 1:
            r = model.resolve_name(f.module, e.func.id)
            if isinstance(r, FuncInfo):
                out.append(r)
                e = e.args[0]
                continue
        raise AnalysisError(
            f"{f.qualname}: `{dump(expr)[:70]}` is not a pipeline of repo "
            f"string functions over `{param}`")


class TextPath:
    def __init__(self, ctx):
        m = ctx.model
        self.model = m
        vt = m.cls("prop.vText")
        # writer codec
        ti = vt.methods.get("to_ical")
        fi = vt.methods.get("from_ical")
        if ti is None or fi is None:
            raise AnalysisError("anchor vanished: vText.to_ical/from_ical")
        self.vtext_to, self.vtext_from = ti, fi
        self.enc = self._single_pipeline(ti, ti.params[0])
        self.dec = self._single_pipeline(fi, fi.params[1])
        # reader: Contentline.parts value element
        parts = m.own_method("parser.Contentline.parts")
        self.parts = parts
        env = SymEnv(parts.node)
        rets = [n for n in walk_no_nested(parts.node)
                if isinstance(n, ast.Return) and n.value is not None]
        tup = [r for r in rets if isinstance(r.value, ast.Tuple) and len(r.value.elts) == 3]
        if len(tup) != 1:
            raise AnalysisError("Contentline.parts: single `return (name, params, values)` not found")
        self.parts_ret = tup[0]
        val = env.expand_at(tup[0].value.elts[2], tup[0])
        self.value_expr = val
        self.value_stages = stages_of(m, parts, val, parts.params[0])
        name_e = env.expand_at(tup[0].value.elts[0], tup[0])
        self.name_stages = stages_of(m, parts, name_e, parts.params[0])
        self.params_expr = env.expand_at(tup[0].value.elts[1], tup[0])
        # chains
        self._chains = {}

    def _single_pipeline(self, f, param):
        env = SymEnv(f.node)
        rets = [n for n in walk_no_nested(f.node)
                if isinstance(n, ast.Return) and n.value is not None]
        if len(rets) != 1:
            raise AnalysisError(f"{f.qualname}: expected a single return")
        ex = env.expand_at(rets[0].value, rets[0])
        return stages_of(self.model, f, ex, param)

    def chain(self, f: FuncInfo, kind="str"):
        key = (f.qualname, kind)
        if key not in self._chains:
            ch = fst.function_chains(self.model, f)
            if kind not in ch:
                raise AnalysisError(f"{f.qualname}: no {kind} chain")
            self._chains[key] = ch[kind]
        return self._chains[key]

    def compose(self, funcs, name=""):
        stages = []
        for f in funcs:
            stages += self.chain(f).stages
        return fst.Chain(stages, name)

    # the four compositions
    def codec(self):
        return self.compose(self.enc + self.dec, "decode∘encode")

    def wire(self):
        """what Contentline.parts applies to the value text"""
        return self.compose(self.value_stages, "parts-value")

    def property_path(self):
        return self.compose(self.enc + self.value_stages + self.dec,
                            "decode∘parts∘encode")

    def reparse(self):
        """Parse∘Emit∘Parse vs Parse for TEXT: Parse = dec∘wire"""
        parse = self.value_stages + self.dec
        return (self.compose(parse + self.enc + parse, "Parse∘Emit∘Parse"),
                self.compose(parse, "Parse"))
