"""Rules shared by several properties."""
import ast

from .core import AnalysisError
from .flow import SymEnv, is_param, dump
from .model import ClassInfo, walk_no_nested


def single_return(f):
    rets = [n for n in walk_no_nested(f.node)
            if isinstance(n, ast.Return) and n.value is not None]
    return rets


def check_canonsort(ctx, rule):
    """canonsort_keys(keys, order) == sorted(head, key=index in order)
    + sorted(tail) with complementary filters."""
    f = ctx.model.func("caselessdict.canonsort_keys")
    if len(f.params) < 2:
        raise AnalysisError("canonsort_keys lost its (keys, canonical_order) signature")
    keys_p, order_p = f.params[0], f.params[1]
    rets = single_return(f)
    if len(rets) != 1:
        raise AnalysisError("canonsort_keys: expected a single return")
    env = SymEnv(f.node)
    ex = env.expand_at(rets[0].value, rets[0])
    if not (isinstance(ex, ast.BinOp) and isinstance(ex.op, ast.Add)):
        raise AnalysisError(f"canonsort_keys: return is not head + tail: {dump(ex)[:80]}")
    parts = [ex.left, ex.right]
    for p in parts:
        if not (isinstance(p, ast.Call) and isinstance(p.func, ast.Name)
                and p.func.id == "sorted" and p.args):
            ctx.fail(rule, "canonsort_keys sorted-parts",
                     f"a part of the result is not produced by sorted(): "
                     f"`{dump(p)[:60]}`", f.loc(rets[0]))
            return
    head, tail = parts

    def comp_info(call):
        c = call.args[0]
        if not isinstance(c, (ast.ListComp, ast.GeneratorExp)) or \
                len(c.generators) != 1:
            return None
        g = c.generators[0]
        if not (isinstance(c.elt, ast.Name) and isinstance(g.target, ast.Name)
                and c.elt.id == g.target.id):
            return None
        if not is_param(g.iter, keys_p):
            return None
        if len(g.ifs) != 1 or not isinstance(g.ifs[0], ast.Compare) or \
                len(g.ifs[0].ops) != 1:
            return None
        t = g.ifs[0]
        if not (isinstance(t.left, ast.Name) and t.left.id == g.target.id):
            return None
        return type(t.ops[0]), t.comparators[0]

    hi, ti = comp_info(head), comp_info(tail)
    if hi is None or ti is None:
        raise AnalysisError("canonsort_keys: head/tail are not simple filters of `keys`")
    ok_compl = (hi[0] is ast.In and ti[0] is ast.NotIn
                and ast.dump(hi[1]) == ast.dump(ti[1]))
    ctx.check(ok_compl, rule, "canonsort_keys complementary-filters",
              "head must keep the keys IN the canonical map and tail the keys "
              "NOT IN the same map (every key exactly once)", f.loc(rets[0]),
              detail="head: k in M, tail: k not in M, same M")
    cmap = hi[1]
    # M = {k: i for i, k in enumerate(order or [])}
    ok_map = False
    if isinstance(cmap, ast.DictComp) and len(cmap.generators) == 1:
        g = cmap.generators[0]
        it = g.iter
        if (isinstance(it, ast.Call) and isinstance(it.func, ast.Name)
                and it.func.id == "enumerate" and it.args
                and isinstance(g.target, ast.Tuple) and len(g.target.elts) == 2):
            src = it.args[0]
            src_ok = is_param(src, order_p) or (
                isinstance(src, ast.BoolOp) and is_param(src.values[0], order_p))
            idx, el = g.target.elts
            ok_map = (src_ok and isinstance(cmap.key, ast.Name)
                      and isinstance(cmap.value, ast.Name)
                      and isinstance(idx, ast.Name) and isinstance(el, ast.Name)
                      and cmap.key.id == el.id and cmap.value.id == idx.id)
    ctx.check(ok_map, rule, "canonsort_keys canonical-map",
              "the canonical map must send each name of canonical_order to its "
              "position (enumerate index)", f.loc(),
              detail="M = {name: position}")
    # head sorted by M[k]; tail sorted without key (alphabetical)
    hk = [k for k in head.keywords if k.arg == "key"]
    ok_key = False
    if len(hk) == 1 and isinstance(hk[0].value, ast.Lambda):
        lam = hk[0].value
        b = lam.body
        ok_key = (isinstance(b, ast.Subscript) and isinstance(b.slice, ast.Name)
                  and lam.args.args and b.slice.id == lam.args.args[0].arg
                  and ast.dump(b.value) == ast.dump(cmap))
    ctx.check(ok_key and not any(k.arg == "reverse" for k in head.keywords),
              rule, "canonsort_keys head-order",
              "priority names must be ordered by their declared position",
              f.loc(rets[0]), detail="sorted(head, key=lambda k: M[k])")
    ctx.check(not tail.keywords, rule, "canonsort_keys tail-order",
              "non-priority names must follow alphabetically (plain sorted())",
              f.loc(rets[0]), detail="sorted(tail)")
    # sorted_keys / sorted_items use it with the class's canonical_order
    cd = ctx.model.cls("caselessdict.CaselessDict")
    for name in ("sorted_keys", "sorted_items"):
        sk = cd.methods.get(name)
        if sk is None:
            raise AnalysisError(f"anchor vanished: CaselessDict.{name}")
        src = dump(sk.node)
        uses = [c for c in ast.walk(sk.node) if isinstance(c, ast.Call)
                and isinstance(c.func, ast.Name)
                and c.func.id in ("canonsort_keys", "canonsort_items")]
        good = bool(uses) and all(
            len(c.args) == 2 and isinstance(c.args[1], ast.Attribute)
            and c.args[1].attr == "canonical_order"
            and isinstance(c.args[1].value, ast.Name)
            and c.args[1].value.id == sk.params[0] for c in uses)
        ctx.check(good, rule, f"CaselessDict.{name} uses-class-order",
                  f"{name} must sort with self.canonical_order", sk.loc(),
                  detail="canonsort_*(…, self.canonical_order)")
    ci = ctx.model.func("caselessdict.canonsort_items")
    uses = [c for c in ast.walk(ci.node) if isinstance(c, ast.Call)
            and isinstance(c.func, ast.Name) and c.func.id == "canonsort_keys"]
    ctx.check(len(uses) == 1 and len(uses[0].args) == 2
              and isinstance(uses[0].args[1], ast.Name)
              and uses[0].args[1].id == ci.params[1],
              rule, "canonsort_items delegates",
              "canonsort_items must order by canonsort_keys(keys, canonical_order)",
              ci.loc(), detail="delegates with the same order argument")


def check_canonical_orders(ctx, rule):
    n = 0
    for c in ctx.model.all_classes():
        if "canonical_order" not in c.attrs:
            continue
        v = ctx.model.const(c.attrs["canonical_order"], c.module, c)
        if v is None:
            continue
        n += 1
        okv = isinstance(v, (tuple, list)) and all(
            isinstance(x, str) and x == x.upper() for x in v) and \
            len(set(v)) == len(v)
        ctx.check(okv, rule, f"{c.qualname}.canonical_order upper-case",
                  f"canonical_order entries must be distinct upper-case names "
                  f"(stored keys are upper-case): {v!r}", c.loc(c.attr_nodes['canonical_order']),
                  detail=f"{len(v)} names")
    if n < 4:
        raise AnalysisError(f"only {n} canonical_order constants found, 4 confirmed by hand")
