"""Recovery of the string rewriting a repo function applies to its argument by
interpreting it (E7) on a *symbolic* text: a value that only records the
`.replace(old, new)` calls (and whole-text single-pass substitutions) made on
it.  However the function is written - one chained expression, a loop over a
table of steps, a helper - the recorded sequence is the transducer chain that
sa.fst then decides.  Anything else done to the text (slicing, concatenation,
truth tests) is outside the abstract interface and ends the analysis with
exit 2, never with a verdict.
"""
from __future__ import annotations

import ast

from .core import AnalysisError
from .absint import Interp, Native, AbsRaise, Unsupported, Closure, Unknown, TypeTok
from . import fst


class SymText:
    def __init__(self, kind, stages=()):
        self.kind = kind            # 'str' | 'bytes'
        self.stages = tuple(stages)

    def __repr__(self):
        return f"<text:{self.kind} after {len(self.stages)} rewrites>"


class ChainInterp(Interp):
    def type_of(self, x):
        if isinstance(x, SymText):
            return {x.kind, "object"}
        return super().type_of(x)

    def truth(self, v):
        if isinstance(v, SymText):
            raise Unsupported("truth value of the symbolic text")
        return super().truth(v)

    def exec_stmt(self, st, env):
        """`if NEEDLE in text: text = text.replace(..)…` skips rewriting steps that cannot match:
        when every replaced string of the guarded steps contains NEEDLE, the steps are the
        identity on a text without NEEDLE, so the guarded form equals the unguarded chain."""
        if isinstance(st, ast.If) and not st.orelse and isinstance(st.test, ast.Compare) \
                and len(st.test.ops) == 1 and isinstance(st.test.ops[0], ast.In) \
                and isinstance(st.test.comparators[0], ast.Name):
            try:
                cur = env.lookup(st.test.comparators[0].id)
            except Exception:
                cur = None
            if isinstance(cur, SymText):
                needle = self.eval(st.test.left, env)
                want = str if cur.kind == "str" else bytes
                if not isinstance(needle, want) or not needle:
                    raise Unsupported("membership test of a non-constant in the symbolic text")
                nd = needle if cur.kind == "str" else needle.decode("latin-1")
                if not all(isinstance(b, ast.Assign) and len(b.targets) == 1
                           and isinstance(b.targets[0], ast.Name)
                           and b.targets[0].id == st.test.comparators[0].id for b in st.body):
                    raise Unsupported("a guarded block on the symbolic text that is not a re-assignment")
                for b in st.body:
                    super().exec_stmt(b, env)
                new = env.lookup(st.test.comparators[0].id)
                if not (isinstance(new, SymText) and new.kind == cur.kind
                        and new.stages[:len(cur.stages)] == cur.stages):
                    raise Unsupported("a guarded block does not extend the rewriting of the text")
                for stage in new.stages[len(cur.stages):]:
                    if not (isinstance(stage, fst.Replace) and nd in stage.p):
                        raise Unsupported(f"a step guarded by `{needle!r} in text` can match without it")
                return None
        return super().exec_stmt(st, env)

    def getattr(self, o, name):
        if isinstance(o, SymText):
            if name == "replace":
                def rep(i, a, k, o=o):
                    if len(a) != 2 or k:
                        raise Unsupported("replace with a count argument")
                    want = str if o.kind == "str" else bytes
                    if not isinstance(a[0], want) or not isinstance(a[1], want):
                        if isinstance(a[0], (str, bytes)) and isinstance(a[1], (str, bytes)):
                            raise AbsRaise("TypeError", "replace: str/bytes mismatch")
                        raise Unsupported(f"replace with non-constant arguments {a!r}")
                    dec = (lambda x: x) if o.kind == "str" else (lambda x: x.decode("latin-1"))
                    if a[0] == a[1][:0]:
                        raise Unsupported("replace of the empty string")
                    return SymText(o.kind, o.stages + (fst.Replace(dec(a[0]), dec(a[1])),))
                return Native("replace", rep)
            if name in ("encode", "decode"):
                # a change of representation only (utf-8 / latin-1 are injective on what they
                # accept): the rewriting recorded so far carries over
                want = "bytes" if name == "encode" else "str"
                if (o.kind == "str") != (name == "encode"):
                    raise AbsRaise("AttributeError", f"'{o.kind}' object has no attribute {name!r}")
                return Native(name, lambda i, a, k, o=o, want=want: SymText(want, o.stages))
            raise Unsupported(f"{name} on the symbolic text")
        return super().getattr(o, name)


def chains_by_interpretation(model, f):
    """{'str': Chain, 'bytes': Chain} for a function of one text argument."""
    out = {}
    for kind in ("str", "bytes"):
        it = ChainInterp(model)
        try:
            r = it.call(Closure(f), [SymText(kind)], {})
        except AbsRaise:
            continue            # this operand kind is rejected by the function
        if r is None:
            continue            # falls off the end for this kind (unescape_char on other types)
        if not isinstance(r, SymText):
            raise Unsupported(f"{f.qualname} returns {r!r} for a {kind} text")
        if r.kind != kind:
            raise Unsupported(f"{f.qualname} returns {r.kind} for a {kind} text")
        out[kind] = fst.Chain(list(r.stages), f.name)
    if not out:
        raise Unsupported(f"{f.qualname} accepts neither str nor bytes")
    return out
