"""Plumbing shared by every property check: obligations, reports, evidence,
known findings, exit codes.

Exit codes (DESIGN.md section 0):
  0  every rule instance held (known findings printed as KNOWN-FINDING)
  1  a rule instance failed that known_findings.json does not list
  2  ANALYSIS-ERROR: an anchor vanished / idiom outside the supported subset /
     instance count under the floor confirmed by hand
"""
from __future__ import annotations

import hashlib
import json
import os
import sys
import time
import traceback

VERIF = os.path.dirname(os.path.dirname(os.path.abspath(__file__)))
DEFAULT_ROOT = os.environ.get("VERIF_REPO", "/repo")

LEVELS = {
    "C06": "proof", "C07": "proof", "C15": "proof",
    "C16": "model_checking",
    "C03": "exploration", "C05": "exploration", "C08": "exploration", "C09": "exploration",
    "C17": "exploration", "C18": "exploration", "C19": "exploration", "C20": "exploration",
}


_TOKENS = iter(range(1, 10 ** 9))


def model_token(model):
    """A cache key for results computed on `model`: unique per model object for the life of the
    process (id() is not: it is reused after garbage collection, and the self-test runs many
    source trees in one worker process)."""
    t = model.__dict__.get("_sa_token")
    if t is None:
        t = model.__dict__["_sa_token"] = next(_TOKENS)
    return t


class AnalysisError(Exception):
    """The checker cannot decide: vanished anchor, unsupported idiom, floor."""


class Obligation:
    __slots__ = ("rule", "key", "status", "loc", "detail", "witness",
                 "nontrivial")

    def __init__(self, rule, key, status, loc, detail, witness, nontrivial):
        self.rule = rule
        self.key = key
        self.status = status          # ok | fail | known
        self.loc = loc
        self.detail = detail
        self.witness = witness
        self.nontrivial = nontrivial

    def as_dict(self):
        d = {"rule": self.rule, "key": self.key, "status": self.status}
        if self.loc:
            d["site"] = self.loc
        if self.detail:
            d["detail"] = self.detail
        if self.witness is not None:
            d["witness"] = self.witness
        return d


class Ctx:
    """What a property module sees."""

    def __init__(self, prop_id, tier, root, model, seed=0, quiet=False):
        self.prop_id = prop_id
        self.tier = tier
        self.root = root
        self.model = model
        self.seed = seed
        self.quiet = quiet
        self.obligations: list[Obligation] = []
        self.notes: list[str] = []
        self.assumptions: list[str] = []
        self.extra: dict = {}          # extra coverage keys
        self.explanation = ""
        self.trusted_base: list[str] = []

    @property
    def thorough(self):
        return self.tier == "thorough"

    # -- obligations -------------------------------------------------------
    def ok(self, rule, key, loc=None, detail="", nontrivial=True):
        self.obligations.append(
            Obligation(rule, str(key), "ok", loc, detail, None, nontrivial))

    def fail(self, rule, key, msg, loc=None, witness=None):
        self.obligations.append(
            Obligation(rule, str(key), "fail", loc, msg, witness, True))

    def check(self, cond, rule, key, msg, loc=None, witness=None, detail=""):
        if cond:
            self.ok(rule, key, loc, detail)
        else:
            self.fail(rule, key, msg, loc, witness)
        return bool(cond)

    def floor(self, rule, n):
        """A rule that matched fewer sites than confirmed by hand is broken."""
        have = sum(1 for o in self.obligations if o.rule == rule)
        if have < n:
            raise AnalysisError(
                f"{rule}: {have} instances found, floor is {n} "
                f"(rule would pass vacuously)")

    def note(self, msg):
        self.notes.append(msg)

    def assume(self, msg):
        if msg not in self.assumptions:
            self.assumptions.append(msg)

    def count(self, rule=None, status=None):
        return sum(1 for o in self.obligations
                   if (rule is None or o.rule == rule)
                   and (status is None or o.status == status))


def load_known():
    path = os.path.join(VERIF, "known_findings.json")
    if not os.path.exists(path):
        return []
    with open(path) as f:
        return json.load(f).get("findings", [])


def _digest(s):
    return hashlib.sha1(s.encode()).hexdigest()[:10]


def finish(ctx: Ctx, t0, only=None, write_evidence=True):
    """Classify failures against known findings, print, write evidence."""
    known = [k for k in load_known()
             if k.get("property") == ctx.prop_id and k.get("status") == "known"]
    known_keys = {(k["rule"], k["key"]): k for k in known}
    seen_known = set()
    violations = []
    for o in ctx.obligations:
        if o.status != "fail":
            continue
        k = known_keys.get((o.rule, o.key))
        if k is not None:
            o.status = "known"
            seen_known.add((o.rule, o.key))
        else:
            violations.append(o)

    out = []
    for o in ctx.obligations:
        if o.status == "known":
            out.append(f"KNOWN-FINDING: property={ctx.prop_id} {o.rule} "
                       f"key={o.key} :: {o.detail}"
                       + (f" witness={o.witness!r}" if o.witness is not None else ""))
    for (rule, key), k in known_keys.items():
        if (rule, key) not in seen_known:
            out.append(f"NOTE: known finding {rule} key={key} no longer "
                       f"reproduces on this tree (entry may be marked fixed)")
    replay_dir = os.path.join(VERIF, "evidence", "replay")
    for o in violations:
        if write_evidence:
            os.makedirs(replay_dir, exist_ok=True)
        rp = os.path.join(replay_dir,
                          f"{ctx.prop_id}-{_digest(o.rule + '|' + o.key)}.json")
        if write_evidence:
            with open(rp, "w") as f:
                json.dump({"property": ctx.prop_id, "rule": o.rule,
                           "key": o.key, "site": o.loc, "message": o.detail,
                           "witness": o.witness, "root": ctx.root}, f, indent=1)
        out.append(f"FAIL {o.rule} key={o.key} at {o.loc or '?'} :: {o.detail}"
                   + (f" witness={o.witness!r}" if o.witness is not None else ""))
        out.append(f"VIOLATION property={ctx.prop_id} replay={rp}")
    for n in ctx.notes:
        out.append(f"NOTE: {n}")

    rules = {}
    for o in ctx.obligations:
        r = rules.setdefault(o.rule, {"instances": 0, "failed": 0, "known": 0})
        r["instances"] += 1
        if o.status == "fail":
            r["failed"] += 1
        elif o.status == "known":
            r["known"] += 1
    n_eval = len(ctx.obligations)
    distinct = len({(o.rule, o.key) for o in ctx.obligations if o.nontrivial})
    summary = (f"{ctx.prop_id} [{ctx.tier}] rules={len(rules)} "
               f"instances={n_eval} distinct_nontrivial={distinct} "
               f"known={sum(r['known'] for r in rules.values())} "
               f"violations={len(violations)} "
               f"wall={time.time() - t0:.2f}s")
    if not ctx.quiet:
        for line in out:
            print(line)
        for name, r in sorted(rules.items()):
            print(f"  {name}: {r['instances']} instances, "
                  f"{r['failed']} failed, {r['known']} known")
        print(summary)

    if write_evidence:
        write_ev(ctx, rules, n_eval, distinct, violations, t0)
    return 1 if violations else 0


def write_ev(ctx, rules, n_eval, distinct, violations, t0, error=None):
    level = LEVELS.get(ctx.prop_id, "other")
    samples = []
    per_rule = {}
    for o in ctx.obligations:
        c = per_rule.get(o.rule, 0)
        if c < 3 or o.status != "ok":
            samples.append(o.as_dict())
            per_rule[o.rule] = c + 1
    samples = samples[:60]
    discharged = sum(1 for o in ctx.obligations if o.status == "ok")
    cov = {
        "explanation": ctx.explanation or "repository-specific static rules "
        "over AST / call graph / abstract domains; decides the structural "
        "clauses listed in DESIGN.md for this property, not runtime behaviour",
        "evaluations": n_eval,
        "distinct_nontrivial": distinct,
        "rule": "one evaluation = one rule instance (call site, table entry, "
                "abstract case, automaton query); non-trivial = resolved to a "
                "repo construct and not vacuous; distinct by (rule, key)",
        "samples": samples or [{"note": "no obligations generated"}],
        "rules": rules,
        "known_findings_printed": sum(r["known"] for r in rules.values()),
        "notes": ctx.notes[:40],
        "analysed_root": ctx.root,
    }
    if level == "proof":
        # findings listed as known are not proof obligations: they are
        # excluded (and printed); the proof is about everything else
        cov["obligations"] = n_eval - sum(r["known"] for r in rules.values())
        cov["discharged"] = discharged
        cov["excluded_by_known_finding"] = sum(
            r["known"] for r in rules.values())
        cov["checker_cmd"] = f"./check {ctx.prop_id} --tier {ctx.tier}"
        cov["trusted_base"] = ctx.trusted_base
    if level == "model_checking":
        cov.setdefault("traces_validated_against_impl", 0)
    cov.update(ctx.extra)
    if error:
        cov["analysis_error"] = error
    ev = {
        "property_id": ctx.prop_id,
        "tier": ctx.tier,
        "seed": ctx.seed,
        "level": level,
        "coverage": cov,
        "assumptions": ctx.assumptions,
        "wall_s": round(time.time() - t0, 3),
        "violations": len(violations),
    }
    os.makedirs(os.path.join(VERIF, "evidence"), exist_ok=True)
    path = os.path.join(VERIF, "evidence", f"{ctx.prop_id}.json")
    tmp = path + ".tmp"
    with open(tmp, "w") as f:
        json.dump(ev, f, indent=1, sort_keys=True, default=str)
        f.write("\n")
    os.replace(tmp, path)


def run_property(prop_id, tier="quick", root=None, replay=None, quiet=False,
                 write_evidence=True):
    """Returns (exit_code, ctx)."""
    import importlib
    from . import model as M
    t0 = time.time()
    root = root or DEFAULT_ROOT
    seed = int(os.environ.get("VERIF_SEED", "0") or 0)
    ctx = Ctx(prop_id, tier, root, None, seed, quiet)
    try:
        ctx.model = M.load(root)
        mod = importlib.import_module(f"sa.props.{prop_id.lower()}")
        mod.run(ctx)
        if not ctx.obligations:
            raise AnalysisError("no obligations generated")
        if ctx.thorough and write_evidence:
            from . import selftest
            selftest.attach(ctx)
        rc = finish(ctx, t0, write_evidence=write_evidence)
        return rc, ctx
    except AnalysisError as e:
        if any(o.status == "fail" for o in ctx.obligations):
            # definite violations found before the analysis gave up are reported
            ctx.note(f"analysis stopped early: {e}")
            rc = finish(ctx, t0, write_evidence=write_evidence)
            if rc == 1:
                return rc, ctx
        if not quiet:
            if os.environ.get("SA_TRACEBACK"):
                traceback.print_exc()
            print(f"ANALYSIS-ERROR property={prop_id} {e}")
        if write_evidence:
            write_ev(ctx, {}, len(ctx.obligations), 0, [], t0, error=str(e))
        return 2, ctx
    except Exception as e:  # tracebacks must not look like violations
        if any(o.status == "fail" for o in ctx.obligations):
            ctx.note(f"analysis stopped early (internal {type(e).__name__}: {e})")
            rc = finish(ctx, t0, write_evidence=write_evidence)
            if rc == 1:
                return rc, ctx
        if not quiet:
            traceback.print_exc()
            print(f"ANALYSIS-ERROR property={prop_id} internal: "
                  f"{type(e).__name__}: {e}")
        if write_evidence:
            write_ev(ctx, {}, len(ctx.obligations), 0, [], t0,
                     error=f"{type(e).__name__}: {e}")
        return 2, ctx


def main(argv=None):
    import argparse
    ap = argparse.ArgumentParser(prog="check")
    ap.add_argument("prop")
    ap.add_argument("--tier", default=os.environ.get("VERIF_TIER") or "quick",
                    choices=["quick", "thorough"])
    ap.add_argument("--root", default=None)
    ap.add_argument("--replay", default=None)
    ap.add_argument("--no-evidence", action="store_true")
    a = ap.parse_args(argv)
    if a.prop == "selftest":
        from . import selftest
        return selftest.main(a)
    if a.replay:
        with open(a.replay) as f:
            rp = json.load(f)
        rc, ctx = run_property(rp["property"], a.tier, a.root, quiet=True,
                               write_evidence=False)
        hit = [o for o in ctx.obligations
               if o.rule == rp["rule"] and o.key == rp["key"]]
        for o in hit:
            print(f"REPLAY {o.rule} key={o.key} status={o.status} "
                  f"at {o.loc} :: {o.detail} witness={o.witness!r}")
        if not hit:
            print(f"REPLAY {rp['rule']} key={rp['key']}: instance not produced "
                  f"on this tree (rc={rc})")
        bad = any(o.status == "fail" for o in hit)
        if bad:
            print(f"VIOLATION property={rp['property']} replay={a.replay}")
        return 1 if bad else (2 if rc == 2 else 0)
    rc, ctx = run_property(a.prop.upper(), a.tier, a.root,
                           write_evidence=not a.no_evidence
                           and a.root in (None, DEFAULT_ROOT))
    return rc
