"""C17 decided by interpretation: the CaselessDict family's own methods are
interpreted (E7) on every short sequence of mapping operations and compared
with a reference dictionary keyed by the upper-cased name.

Unlike the rest of the analyser - which treats the CaselessDict family as a
native case-insensitive mapping (a shortcut this module justifies) - the
interpreter here runs the repository's `__getitem__`, `__setitem__`, `update`,
`copy`, `__eq__`, ... as written, on top of a model of the *builtin*
OrderedDict they inherit from.  What the builtin does for a subclass was
established once against CPython 3.12 (which inherited operations go through
the instance's overridable methods): __init__/update/fromkeys/copy/|/|= store
through __setitem__ (and read a mapping argument through its keys() and
__getitem__); setdefault uses __contains__ then __getitem__ or __setitem__;
get/pop/popitem/keys/values/items/clear/__len__/__iter__ act on the raw table.
That table is part of the trusted base.
"""
from __future__ import annotations

import itertools
from collections import OrderedDict

from .core import AnalysisError
from .core import model_token
from .absint import (Interp, Obj, ClassVal, AbsRaise, Unsupported, Native, NativeObj, Closure, Bound,
                     TypeTok, Unknown)
from .model import ClassInfo

RAW = ("get", "pop", "popitem", "keys", "values", "items", "clear", "__len__", "__iter__",
       "move_to_end", "__reversed__")


class MapInterp(Interp):
    """E7 with the CaselessDict family interpreted faithfully."""

    faithful = True

    # -- attribute lookup on a mapping object: repo methods first, then the builtin
    def _obj_attr(self, o, name):
        if isinstance(o, Obj) and o.items is not None and o.cls is not None:
            if name in o.attrs:
                return o.attrs[name]
            for c in self.model.mro(o.cls):
                if isinstance(c, ClassInfo):
                    if name in c.properties or name in c.methods or name in c.attrs:
                        return self._repo_attr(o, name)
            return self._builtin(o, name)
        return super()._obj_attr(o, name)

    def _repo_attr(self, o, name):
        from .absint import PropertyVal
        v = self._class_attr(o.cls, name, o)
        if isinstance(v, PropertyVal):
            if v.get is None:
                raise AbsRaise("AttributeError", f"unreadable attribute {name}")
            return self.call(v.get, [o], {})
        if isinstance(v, Closure) and v.fi is not None and v.fi.cls is not None:
            if v.fi.kind == "static":
                return v
            if v.fi.kind == "class":
                return Bound(v, ClassVal(o.cls))
            return Bound(v, o)
        if isinstance(v, Closure):
            return Bound(v, o)
        return v

    def _raw_key(self, k):
        if isinstance(k, Obj) and k.strval is not None:
            k = k.strval
        try:
            hash(k)
        except TypeError:
            raise AbsRaise("TypeError", "unhashable key")
        return k

    def _set(self, o, k, v):
        self.call(self._obj_attr(o, "__setitem__"), [k, v], {})

    def _get(self, o, k):
        return self.call(self._obj_attr(o, "__getitem__"), [k], {})

    def _update_from(self, o, args, kwargs):
        """MutableMapping.update semantics (what OrderedDict.__init__/update do)."""
        if len(args) > 1:
            raise AbsRaise("TypeError", "update expected at most 1 positional argument")
        for m in args:
            if isinstance(m, Obj) and m.items is not None:
                for k in list(m.items.keys()):
                    self._set(o, k, self._get(m, k))
            elif isinstance(m, dict):
                for k in list(m.keys()):
                    self._set(o, k, m[k])
            else:
                for pair in self._as_list(m):
                    pr = self._as_list(pair)
                    if len(pr) != 2:
                        raise AbsRaise("ValueError", "dictionary update sequence element has length != 2")
                    self._set(o, pr[0], pr[1])
        for k, v in kwargs.items():
            self._set(o, k, v)

    def _builtin(self, o, name):
        """An operation inherited from the builtin OrderedDict."""
        it = o.items
        K = self._raw_key
        if name in ("__init__", "update"):
            return Native(name, lambda i, a, k: self._update_from(o, a, k))
        if name == "__setitem__":
            return Native(name, lambda i, a, k: it.__setitem__(K(a[0]), a[1]))
        if name == "__getitem__":
            def gi(i, a, k):
                if K(a[0]) not in it:
                    raise AbsRaise("KeyError", repr(a[0]))
                return it[K(a[0])]
            return Native(name, gi)
        if name == "__delitem__":
            def di(i, a, k):
                if K(a[0]) not in it:
                    raise AbsRaise("KeyError", repr(a[0]))
                del it[K(a[0])]
            return Native(name, di)
        if name == "__contains__":
            return Native(name, lambda i, a, k: K(a[0]) in it)
        if name == "get":
            return Native(name, lambda i, a, k: it.get(K(a[0]), a[1] if len(a) > 1 else k.get("default")))
        if name == "pop":
            def pop(i, a, k):
                if len(a) > 1 or "default" in k:
                    return it.pop(K(a[0]), a[1] if len(a) > 1 else k["default"])
                if K(a[0]) not in it:
                    raise AbsRaise("KeyError", repr(a[0]))
                return it.pop(K(a[0]))
            return Native(name, pop)
        if name == "popitem":
            def popitem(i, a, k):
                if not it:
                    raise AbsRaise("KeyError", "dictionary is empty")
                return it.popitem(*a, **k)
            return Native(name, popitem)
        if name == "setdefault":
            def sd(i, a, k):
                key = a[0]
                dflt = a[1] if len(a) > 1 else k.get("default")
                if self.truth(self.call(self._obj_attr(o, "__contains__"), [key], {})):
                    return self._get(o, key)
                self._set(o, key, dflt)
                return dflt
            return Native(name, sd)
        if name == "keys":
            return Native(name, lambda i, a, k: list(it.keys()))
        if name == "values":
            return Native(name, lambda i, a, k: list(it.values()))
        if name == "items":
            return Native(name, lambda i, a, k: list(it.items()))
        if name == "clear":
            return Native(name, lambda i, a, k: it.clear())
        if name == "__len__":
            return Native(name, lambda i, a, k: len(it))
        if name == "__iter__":
            return Native(name, lambda i, a, k: list(it.keys()))
        if name == "copy":
            return Native(name, lambda i, a, k: self.instantiate(o.cls, [o], {}))
        if name == "__or__":
            def or_(i, a, k):
                if not self._is_mapping(a[0]):
                    return NativeObj("NotImplemented")
                new = self.instantiate(o.cls, [o], {})
                self.call(self._obj_attr(new, "update"), [a[0]], {})
                return new
            return Native(name, or_)
        if name == "__ior__":
            def ior(i, a, k):
                self.call(self._obj_attr(o, "update"), [a[0]], {})
                return o
            return Native(name, ior)
        if name == "__ror__":
            def ror(i, a, k):
                if not self._is_mapping(a[0]):
                    return NativeObj("NotImplemented")
                new = self.instantiate(o.cls, [a[0]], {})
                self.call(self._obj_attr(new, "update"), [o], {})
                return new
            return Native(name, ror)
        if name == "__eq__":
            def eq(i, a, k):
                other = a[0]
                if isinstance(other, Obj) and other.items is not None:
                    return list(it.items()) == list(other.items.items())    # OrderedDict: order-sensitive
                if isinstance(other, dict):
                    return dict(it) == other
                return NativeObj("NotImplemented")
            return Native(name, eq)
        if name == "__ne__":
            # the builtin's own comparison - it does NOT go through an overridden __eq__
            def ne(i, a, k):
                other = a[0]
                if isinstance(other, Obj) and other.items is not None:
                    return list(it.items()) != list(other.items.items())
                if isinstance(other, dict):
                    return dict(it) != other
                return NativeObj("NotImplemented")
            return Native(name, ne)
        raise AbsRaise("AttributeError", f"{o.cls.name} has no attribute {name}")

    def getattr(self, o, name):
        # dict.get(self, key) / OrderedDict.pop(self, key): the builtin, unbound
        if isinstance(o, TypeTok) and o.name in ("dict", "OrderedDict"):
            def unbound(i, a, k, name=name):
                if not a or not (isinstance(a[0], Obj) and a[0].items is not None):
                    raise Unsupported(f"{o.name}.{name} on {a[:1]!r}")
                return self.call(self._builtin(a[0], name), a[1:], k)
            return Native(f"{o.name}.{name}", unbound)
        return super().getattr(o, name)

    def _is_mapping(self, x):
        return isinstance(x, dict) or (isinstance(x, Obj) and x.items is not None)

    # -- operators dispatch to the dunder methods
    def getitem(self, o, idx):
        if isinstance(o, Obj) and o.items is not None:
            return self._get(o, idx)
        return super().getitem(o, idx)

    def setitem(self, o, idx, value):
        if isinstance(o, Obj) and o.items is not None:
            self._set(o, idx, value)
            return
        super().setitem(o, idx, value)

    def delitem(self, o, idx):
        if isinstance(o, Obj) and o.items is not None:
            self.call(self._obj_attr(o, "__delitem__"), [idx], {})
            return
        super().delitem(o, idx)

    def _contains(self, container, x):
        if isinstance(container, Obj) and container.items is not None:
            return self.truth(self.call(self._obj_attr(container, "__contains__"), [x], {}))
        return super()._contains(container, x)

    def type_of(self, x):
        t = super().type_of(x)
        if isinstance(x, dict) or (isinstance(x, Obj) and x.items is not None):
            t = set(t) | {"Mapping", "MutableMapping", "dict"}
        return t

    def instantiate(self, ci, args, kwargs):
        if self.model.is_subclass(ci, "caselessdict.CaselessDict"):
            o = Obj(ci, OrderedDict())
            init = self.model.lookup_method(ci, "__init__")
            if init is not None:
                self._call_closure(Closure(init), [o] + list(args), dict(kwargs))
            else:
                self._update_from(o, list(args), dict(kwargs))
            return o
        return super().instantiate(ci, args, kwargs)

    def _super_call(self, meth, e, env):
        # faithful: a super() call reaches the next class in the MRO, CaselessDict included
        fi = env.func.fi if env.func is not None else None
        selfv = env.locals.get(fi.params[0]) if fi is not None and fi.params else None
        if fi is None or not (isinstance(selfv, Obj) and selfv.items is not None):
            return super()._super_call(meth, e, env)
        args = []
        for a in e.args:
            if isinstance(a, ast.Starred):
                args.extend(self._as_list(self.eval(a.value, env)))
            else:
                args.append(self.eval(a, env))
        kwargs = {}
        for k in e.keywords:
            if k.arg is None:
                kwargs.update(self.eval(k.value, env))
            else:
                kwargs[k.arg] = self.eval(k.value, env)
        mro = [c for c in self.model.mro(selfv.cls)]
        idx = next((i for i, c in enumerate(mro) if c is fi.cls), None)
        for c in (mro[idx + 1:] if idx is not None else []):
            if isinstance(c, ClassInfo) and meth in c.methods:
                return self._call_closure(Closure(c.methods[meth]), [selfv] + args, kwargs,
                                          new_obj=env.new_obj)
        # the builtin
        if meth == "copy":
            # OrderedDict.copy: self.__class__(self)
            return self.instantiate(selfv.cls, [selfv], {})
        return self.call(self._builtin(selfv, meth), args, kwargs)

    def _as_list(self, x):
        if isinstance(x, Obj) and x.items is not None:
            return list(x.items.keys())
        return super()._as_list(x)


import ast  # noqa: E402  (used by _super_call)


# ---------------------------------------------------------------------------
def up(k):
    return (k.decode() if isinstance(k, bytes) else k).upper()


class Ref:
    """A dictionary keyed by the upper-cased name (the statement's model)."""

    def __init__(self, pairs=()):
        self.d = OrderedDict()
        for k, v in pairs:
            self.d[up(k)] = v

    def apply(self, op):
        """-> ('ok', result) | ('raise', cls); result compared structurally."""
        d = self.d
        kind = op[0]
        try:
            if kind == "set":
                d[up(op[1])] = op[2]
                return ("ok", None)
            if kind == "del":
                del d[up(op[1])]
                return ("ok", None)
            if kind == "getitem":
                return ("ok", d[up(op[1])])
            if kind == "get":
                return ("ok", d.get(up(op[1]), *op[2:]))
            if kind == "contains" or kind == "has_key":
                return ("ok", up(op[1]) in d)
            if kind == "pop":
                return ("ok", d.pop(up(op[1]), *op[2:]))
            if kind == "setdefault":
                return ("ok", d.setdefault(up(op[1]), *op[2:]))
            if kind == "update_map":
                for k, v in op[1].items():
                    d[up(k)] = v
                return ("ok", None)
            if kind == "update_pairs":
                for k, v in op[1]:
                    d[up(k)] = v
                return ("ok", None)
            if kind == "update_kw":
                for k, v in op[1].items():
                    d[up(k)] = v
                return ("ok", None)
            if kind == "update_map_kw":
                for k, v in list(op[1].items()) + list(op[2].items()):
                    d[up(k)] = v
                return ("ok", None)
            if kind == "copy":
                return ("ok", ("map", list(d.items())))
            if kind == "or":
                n = OrderedDict(d)
                for k, v in op[1].items():
                    n[up(k)] = v
                return ("ok", ("map", list(n.items())))
            if kind == "ior":
                for k, v in op[1].items():
                    d[up(k)] = v
                return ("ok", None)
            if kind == "ror":
                n = OrderedDict()
                for k, v in op[1].items():
                    n[up(k)] = v
                for k, v in d.items():
                    n[k] = v
                return ("ok", ("map", list(n.items())))
            if kind == "len":
                return ("ok", len(d))
            if kind == "keys":
                return ("ok", list(d.keys()))
            if kind == "eq":
                return ("ok", dict(d) == {up(k): v for k, v in op[1].items()})
            if kind == "ne":
                return ("ok", dict(d) != {up(k): v for k, v in op[1].items()})
            if kind == "eq_other":
                return ("ok", False)
        except KeyError:
            return ("raise", "KeyError")
        raise AssertionError(op)


KEYS = ["a", "A", "b", b"a"]


def op_alphabet():
    ops = []
    for k in KEYS:
        ops += [("set", k, 7), ("del", k), ("getitem", k), ("get", k), ("get", k, "d"),
                ("contains", k), ("pop", k), ("pop", k, "d"), ("setdefault", k, 8), ("setdefault", k)]
    ops += [("has_key", "a"), ("has_key", "B"),
            ("update_map", {"a": 3, "c": 4}), ("update_map", {"B": 5, "b": 6}),
            ("update_pairs", [("c", 1), ("C", 2), ("a", 3)]), ("update_kw", {"a": 3, "d": 4}),
            ("update_pairs", [("b", 1), ("B", 2), ("b", 3)]), ("update_map_kw", {"c": 1, "C": 2}, {"c": 3}),
            ("update_pairs", [(b"a", 5), ("a", 6), (b"a", 7)]),
            ("copy",), ("or", {"a": 9, "z": 1}), ("ior", {"b": 9, "y": 1}), ("ror", {"a": 9, "Z": 1}),
            ("len",), ("keys",),
            ("eq", {"A": 1}), ("eq", {"a": 1}), ("eq", {"a": 1, "b": 2}), ("eq", {"B": 2, "A": 1}),
            ("eq", {"a": 1, "A": 1}), ("eq", {"b": 2, "a": 7, "A": 1}),
            ("ne", {"a": 1}), ("eq", {}), ("eq_other", 5), ("eq_other", None), ("eq_other", "A"),
            ("eq_other", [("A", 1)])]
    return ops


def run_op(it, o, op):
    kind = op[0]

    def call(name, *a, **k):
        return it.call(it.getattr(o, name), list(a), dict(k))
    try:
        if kind == "set":
            it.setitem(o, op[1], op[2])
            return ("ok", None)
        if kind == "del":
            it.delitem(o, op[1])
            return ("ok", None)
        if kind == "getitem":
            return ("ok", it.getitem(o, op[1]))
        if kind == "get":
            return ("ok", call("get", *op[1:]))
        if kind == "contains":
            return ("ok", it._contains(o, op[1]))
        if kind == "has_key":
            return ("ok", it.truth(call("has_key", op[1])))
        if kind == "pop":
            return ("ok", call("pop", *op[1:]))
        if kind == "setdefault":
            return ("ok", call("setdefault", *op[1:]))
        if kind == "update_map":
            call("update", dict(op[1]))
            return ("ok", None)
        if kind == "update_pairs":
            call("update", list(op[1]))
            return ("ok", None)
        if kind == "update_kw":
            call("update", **op[1])
            return ("ok", None)
        if kind == "update_map_kw":
            call("update", dict(op[1]), **op[2])
            return ("ok", None)
        if kind == "copy":
            n = call("copy")
            return ("ok", _mapval(it, n, o))
        if kind == "or":
            n = call("__or__", dict(op[1]))
            return ("ok", _mapval(it, n, o))
        if kind == "ior":
            n = call("__ior__", dict(op[1]))
            if n is not o:
                return ("ok", ("not-self",))
            return ("ok", None)
        if kind == "ror":
            n = call("__ror__", dict(op[1]))
            return ("ok", _mapval(it, n, o))
        if kind == "len":
            return ("ok", call("__len__"))
        if kind == "keys":
            return ("ok", list(call("keys")))
        if kind == "eq":
            return ("ok", it.truth(call("__eq__", dict(op[1]))))
        if kind == "ne":
            return ("ok", it.truth(call("__ne__", dict(op[1]))))
        if kind == "eq_other":
            r = call("__eq__", op[1])
            return ("ok", False if isinstance(r, NativeObj) else it.truth(r))
    except AbsRaise as e:
        return ("raise", e.cls_name)
    raise AssertionError(op)


def _mapval(it, n, o):
    if not (isinstance(n, Obj) and n.items is not None):
        return ("not-a-mapping", repr(n))
    if n is o:
        return ("same-object",)
    if n.cls is not o.cls:
        return ("other-class", n.cls.name)
    return ("map", list(n.items.items()))


INITIALS = [[], [("a", 1)], [("a", 1), ("B", 2)], [("b", 2), ("A", 1)]]


def explore(ctx, cq="caselessdict.CaselessDict", max_len=None):
    model = ctx.model
    ci = model.cls(cq)
    if max_len is None:
        max_len = 3 if ctx.thorough else 2
    ops = op_alphabet()
    if model.is_subclass(ci, "cal.Component"):
        # equality of components is C20's (False for every non-component)
        ops = [o for o in ops if o[0] not in ("eq", "ne", "eq_other")]
    fails = {}
    n = 0

    def note(law, desc, **d):
        fails.setdefault((law, desc), d)

    for init in INITIALS:
        for seq in itertools.chain.from_iterable(itertools.product(ops, repeat=r)
                                                 for r in range(1, max_len + 1)):
            # longer sequences: only those whose prefix mutates (saves nothing-new runs)
            if len(seq) > 1 and all(s[0] in ("getitem", "get", "contains", "has_key", "len", "keys", "eq",
                                             "ne", "eq_other", "copy", "or", "ror") for s in seq[:-1]):
                continue
            n += 1
            it = MapInterp(model)
            try:
                o = it.instantiate(ci, [list(init)], {})
                ref = Ref(init)
                for step, op in enumerate(seq):
                    got = run_op(it, o, op)
                    exp = ref.apply(op)
                    label = f"{op[0]}{tuple(op[1:])!r}"
                    if got != exp:
                        law = {"pop": "pop", "eq": "equality", "ne": "equality", "eq_other": "equality"}.get(
                            op[0], "results")
                        if exp == ("raise", "KeyError") and got[0] == "ok":
                            desc = f"{op[0]} of a missing key returns {got[1]!r} instead of raising KeyError"
                        elif got[0] == "raise" and exp[0] == "ok":
                            desc = f"{op[0]} raises {got[1]} where a dictionary keyed by upper-cased names answers"
                        else:
                            desc = f"{op[0]} answers differently from a dictionary keyed by upper-cased names"
                        note(law, desc, initial=init, sequence=[repr(s) for s in seq[:step + 1]],
                             got=repr(got), expected=repr(exp))
                        break
                    keys = list(o.items.keys())
                    if any(not isinstance(k, str) or k != k.upper() for k in keys):
                        note("upper-case keys", f"after {op[0]} the mapping stores the key(s) "
                             f"{[k for k in keys if not isinstance(k, str) or k != k.upper()]}",
                             initial=init, sequence=[repr(s) for s in seq[:step + 1]])
                        break
                    if list(o.items.items()) != list(ref.d.items()):
                        same = dict(o.items) == dict(ref.d)
                        note("insertion order" if same else "content",
                             f"after {op[0]} the mapping holds {list(o.items.items())}, a dictionary "
                             f"keyed by upper-cased names holds {list(ref.d.items())}",
                             initial=init, sequence=[repr(s) for s in seq[:step + 1]])
                        break
            except Unsupported as e:
                raise AnalysisError(f"{cq}: mapping operations leave the abstract interface on "
                                    f"{[s[0] for s in seq]}: {e}")
    return n, fails


def explore_construct(ctx, cq="caselessdict.CaselessDict"):
    """Construction from mappings / pairs / keywords, mixed case, collisions."""
    model = ctx.model
    ci = model.cls(cq)
    fails = {}
    n = 0
    cases = [((), {}), (({"a": 1, "B": 2},), {}), (([("a", 1), ("A", 2), ("b", 3)],), {}),
             ((), {"x": 1, "Y": 2}), (({"a": 1},), {"A": 5, "c": 6}), (([(b"k", 1)],), {}),
             (([("b", 1), ("a", 2)],), {})]
    for args, kwargs in cases:
        n += 1
        it = MapInterp(model)
        try:
            o = it.instantiate(ci, [a if not isinstance(a, dict) else dict(a) for a in args], dict(kwargs))
        except AbsRaise as e:
            fails.setdefault(("construction", f"construction raises {e.cls_name}"), dict(args=repr(args), kwargs=kwargs))
            continue
        except Unsupported as e:
            raise AnalysisError(f"{cq}{args}: construction leaves the abstract interface: {e}")
        ref = OrderedDict()
        for a in args:
            for k, v in (a.items() if isinstance(a, dict) else a):
                ref[up(k)] = v
        for k, v in kwargs.items():
            ref[up(k)] = v
        if list(o.items.items()) != list(ref.items()):
            fails.setdefault(("construction", "construction from mappings / pairs / keywords does not give "
                              "the dictionary keyed by upper-cased names (first-insertion order)"),
                             dict(args=repr(args), kwargs=kwargs, got=list(o.items.items()),
                                  expected=list(ref.items())))
    # CaselessDict == CaselessDict, both directions
    it = MapInterp(model)
    a = it.instantiate(ci, [[("a", 1), ("b", 2)]], {})
    b = it.instantiate(ci, [[("B", 2), ("A", 1)]], {})
    c = it.instantiate(ci, [[("a", 1)]], {})
    for x, y, want in ((a, b, True), (b, a, True), (a, c, False), (c, a, False), (a, a, True)):
        n += 1
        try:
            r = it.truth(it.call(it.getattr(x, "__eq__"), [y], {}))
        except AbsRaise as e:
            r = f"raises {e.cls_name}"
        if r is not want:
            fails.setdefault(("equality", "two case-insensitive mappings with the same upper-cased content "
                              "must be equal whatever their insertion order (and unequal otherwise)"),
                             dict(left=list(x.items.items()), right=list(y.items.items()), got=r))
    return n, fails


def explore_canon(ctx):
    """sorted_keys / sorted_items / canonsort_* against the stated ordering."""
    model = ctx.model
    fails = {}
    n = 0
    classes = [c for c in model.all_classes()
               if model.is_subclass(c, "caselessdict.CaselessDict")]
    it = MapInterp(model)
    ck = Closure(model.func("caselessdict.canonsort_keys"))
    ci_ = Closure(model.func("caselessdict.canonsort_items"))

    def oracle(keys, order):
        order = list(order or [])
        return [k for k in order if k in keys] + sorted(k for k in keys if k not in order)
    key_sets = [[], ["B", "A"], ["X-B", "UID", "DTSTART", "X-A", "SUMMARY"], ["Z", "FREQ", "COUNT", "BYDAY", "A"],
                ["PRODID", "VERSION", "CALSCALE", "METHOD", "NAME"], ["C", "B", "A", "B2"]]
    orders = [None, (), ("UID", "DTSTART"), ("FREQ", "UNTIL", "COUNT", "BYDAY"), ("NOPE",),
              ("VERSION", "PRODID", "CALSCALE"), ("B", "A")]
    try:
        for keys, order in itertools.product(key_sets, orders):
            n += 1
            args = [list(keys)] + ([] if order is None else [tuple(order)])
            got = it.call(ck, args, {})
            if list(got) != oracle(keys, order):
                fails.setdefault(("canonical order", "canonsort_keys does not put the priority names first in "
                                  "their declared order and all other names after them alphabetically"),
                                 dict(keys=keys, order=order, got=list(got), expected=oracle(keys, order)))
            d = {k: i for i, k in enumerate(keys)}
            got = it.call(ci_, [dict(d)] + ([] if order is None else [tuple(order)]), {})
            exp = [(k, d[k]) for k in oracle(keys, order)]
            if [tuple(x) for x in got] != exp:
                fails.setdefault(("canonical order", "canonsort_items does not return the items in "
                                  "canonical key order"),
                                 dict(keys=keys, order=order, got=[tuple(x) for x in got], expected=exp))
        # every class of the family sorts with its own canonical_order
        for c in classes:
            try:
                o = it.instantiate(c, [], {})
            except (AbsRaise, Unsupported):
                continue
            order = it.getattr(o, "canonical_order")
            pool = list(order or [])[:3][::-1] + ["X-Z", "X-A"] + list(order or [])[-2:]
            seen = []
            for k in pool:
                if k not in seen:
                    seen.append(k)
            for k in seen:
                o.items[k] = 1
            seen = list(o.items.keys())
            n += 1
            got = it.call(it.getattr(o, "sorted_keys"), [], {})
            if list(got) != oracle(seen, order):
                fails.setdefault(("canonical order", f"{c.name}.sorted_keys does not follow the class's "
                                  f"canonical_order"), dict(cls=c.qualname, keys=seen, got=list(got),
                                                            expected=oracle(seen, order)))
            got = it.call(it.getattr(o, "sorted_items"), [], {})
            if [x[0] for x in got] != oracle(seen, order):
                fails.setdefault(("canonical order", f"{c.name}.sorted_items does not follow the class's "
                                  f"canonical_order"), dict(cls=c.qualname, keys=seen,
                                                            got=[x[0] for x in got]))
    except Unsupported as e:
        raise AnalysisError(f"canonical ordering leaves the abstract interface: {e}")
    except AbsRaise as e:
        fails.setdefault(("canonical order", f"canonical ordering raises {e.cls_name}"), {})
    return n, fails


LAWS = ["results", "pop", "equality", "upper-case keys", "insertion order", "content", "construction",
        "canonical order"]
_CACHE = {}


def report(ctx, rule, loc):
    key = (model_token(ctx.model), ctx.thorough)
    if key not in _CACHE:
        n1, f1 = explore(ctx)
        n2, f2 = explore_construct(ctx)
        n3, f3 = explore_canon(ctx)
        # the two user-facing subclasses, one step deep
        n4, f4 = explore(ctx, "parser.Parameters", 1)
        n5, f5 = explore(ctx, "cal.Component", 1)
        f4 = {(l, "Parameters: " + d): v for (l, d), v in f4.items() if (l, d) not in f1}
        f5 = {(l, "Component: " + d): v for (l, d), v in f5.items() if (l, d) not in f1}
        allf = {}
        for f in (f1, f2, f3, f4, f5):
            allf.update(f)
        _CACHE[key] = (n1 + n2 + n3 + n4 + n5, allf)
    n, fails = _CACHE[key]
    if n < 500:
        raise AnalysisError(f"{rule}: only {n} operation sequences explored")
    failed = set()
    for (law, desc), detail in sorted(fails.items()):
        failed.add(law)
        ctx.fail(rule, f"{law}: {desc}"[:170],
                 f"{desc} ({', '.join(f'{k}={v!r}' for k, v in detail.items())[:500]})", loc,
                 witness={k: v if isinstance(v, (str, int, bool, list)) else repr(v) for k, v in detail.items()})
    for law in LAWS:
        if law not in failed:
            ctx.ok(rule, law, loc, detail=f"{n} operation sequences / constructions / orderings")
    ctx.extra["mapping_sequences"] = n
    return n, fails
