"""E4 - sequential string transducers for str.replace chains (and single-pass
regex rewrites), with exact equivalence / range checks by bounded-delay
product construction.  Chains are extracted from the repository's AST; the
repository's functions are never called.
"""
from __future__ import annotations

import ast
import re._parser as sre_parse
import re._constants as SC

from .core import AnalysisError
from .flow import SymEnv, is_param
from .model import FuncInfo, walk_no_nested

DELAY_CAP = 256


# ---------------------------------------------------------------------------
class Replace:
    """str.replace(p, r): leftmost, non-overlapping (Appendix D of DESIGN.md)."""

    def __init__(self, p, r):
        if not p:
            raise AnalysisError("replace with empty pattern unsupported")
        self.p, self.r = p, r
        self.init = 0
        self._cache = {}

    def step(self, k, c):
        key = (k, c)
        if key in self._cache:
            return self._cache[key]
        p = self.p
        if p[k] == c:
            if k + 1 == len(p):
                res = (0, self.r)
            else:
                res = (k + 1, "")
        else:
            w = p[:k] + c
            j = min(len(w), len(p) - 1)
            while j > 0 and p[:j] != w[len(w) - j:]:
                j -= 1
            res = (j, w[:len(w) - j])
        self._cache[key] = res
        return res

    def final(self, k):
        return self.p[:k]

    def chars(self):
        return set(self.p) | set(self.r)

    def __repr__(self):
        return f"replace({self.p!r},{self.r!r})"


class SinglePass:
    """PATTERN.sub(lambda m: MAP[m.group(0)], text) for an alternation of
    literals: one left-to-right pass, leftmost match, prefix-free keys."""

    def __init__(self, mapping):
        keys = list(mapping)
        for a in keys:
            for b in keys:
                if a != b and b.startswith(a):
                    raise AnalysisError(
                        f"single-pass rewrite keys are not prefix-free: {a!r}, {b!r}")
        if any(not k for k in keys):
            raise AnalysisError("single-pass rewrite with empty key")
        self.map = dict(mapping)
        self.prefixes = {k[:i] for k in keys for i in range(len(k))}
        self.init = ""

    def step(self, pending, c):
        w = pending + c
        if w in self.map:
            return "", self.map[w]
        if w in self.prefixes:
            return w, ""
        # no key starts with w: its first character is copied and the rest
        # is re-scanned from the empty state (leftmost-match semantics)
        out = w[0]
        st = ""
        for ch in w[1:]:
            st, o = self.step(st, ch)
            out += o
        return st, out

    def final(self, pending):
        if not pending:
            return ""
        out = pending[0]
        st = ""
        for ch in pending[1:]:
            st, o = self.step(st, ch)
            out += o
        return out + self.final(st)

    def chars(self):
        s = set()
        for k, v in self.map.items():
            s |= set(k) | set(v)
        return s

    def __repr__(self):
        return f"singlepass({self.map!r})"


class Chain:
    def __init__(self, stages, name=""):
        self.stages = list(stages)
        self.name = name
        self.init = tuple(s.init for s in self.stages)

    def _feed(self, states, i, text):
        """Feed `text` into stage i (and onwards); returns output of last stage."""
        if i == len(self.stages):
            return text
        out = []
        st = states[i]
        for ch in text:
            st, o = self.stages[i].step(st, ch)
            if o:
                out.append(o)
        states[i] = st
        return self._feed(states, i + 1, "".join(out))

    def step(self, state, c):
        states = list(state)
        out = self._feed(states, 0, c)
        return tuple(states), out

    def final(self, state):
        states = list(state)
        out = []
        for i, s in enumerate(self.stages):
            tail = s.final(states[i])
            states[i] = s.init
            out.append(self._feed(states, i + 1, tail))
        return "".join(out)

    def run(self, text):
        st = self.init
        out = []
        for ch in text:
            st, o = self.step(st, ch)
            out.append(o)
        out.append(self.final(st))
        return "".join(out)

    def chars(self):
        s = set()
        for st in self.stages:
            s |= st.chars()
        return s

    def __add__(self, other):
        return Chain(self.stages + other.stages, f"{other.name}∘{self.name}")

    def describe(self):
        return " ; ".join(repr(s) for s in self.stages)


def python_reference(chain: Chain, text):
    """The same rewriting done with the builtin str.replace (cross-check of
    the transducer semantics; not repository code)."""
    for s in chain.stages:
        if isinstance(s, Replace):
            text = text.replace(s.p, s.r)
        else:
            import re
            pat = re.compile("|".join(re.escape(k) for k in s.map))
            text = pat.sub(lambda m: s.map[m.group(0)], text)
    return text


# ---------------------------------------------------------------------------
class AvoidDFA:
    """Aho-Corasick automaton over factor set F; a string is in the domain iff
    it contains no factor of F."""

    def __init__(self, factors):
        self.factors = sorted(set(factors))
        self.goto = [{}]
        self.fail = [0]
        self.bad = [False]
        for f in self.factors:
            s = 0
            for ch in f:
                if ch not in self.goto[s]:
                    self.goto.append({})
                    self.fail.append(0)
                    self.bad.append(False)
                    self.goto[s][ch] = len(self.goto) - 1
                s = self.goto[s][ch]
            self.bad[s] = True
        from collections import deque
        q = deque()
        for ch, s in self.goto[0].items():
            q.append(s)
        while q:
            r = q.popleft()
            for ch, s in self.goto[r].items():
                q.append(s)
                f = self.fail[r]
                while f and ch not in self.goto[f]:
                    f = self.fail[f]
                self.fail[s] = self.goto[f].get(ch, 0) if self.goto[f].get(ch, 0) != s else 0
                self.bad[s] = self.bad[s] or self.bad[self.fail[s]]
        self.init = 0

    def step(self, s, ch):
        while s and ch not in self.goto[s]:
            s = self.fail[s]
        s = self.goto[s].get(ch, 0)
        return None if self.bad[s] else s

    def chars(self):
        return set("".join(self.factors))


def pick_other(used, n=1):
    out = []
    for ch in "xyzwvutsrqpXYZ":
        if ch not in used:
            out.append(ch)
            if len(out) == n:
                return out
    raise AnalysisError("no free OTHER symbol")


class EscapedDomain:
    """Regular domain: texts in which every `lead` character is followed by
    one of `allowed` (e.g. RFC 5545 TEXT: backslash only in \\\\ \\; \\, \\n \\N),
    intersected with factor avoidance."""

    def __init__(self, lead, allowed, avoid=(), forbidden=""):
        self.lead, self.allowed = lead, set(allowed)
        self.forbidden = set(forbidden)
        self.av = AvoidDFA(avoid)
        self.init = (self.av.init, 0)

    def step(self, st, ch):
        a, q = st
        a2 = self.av.step(a, ch)
        if a2 is None or ch in self.forbidden:
            return None
        if q == 1:
            return (a2, 0) if ch in self.allowed else None
        return (a2, 1) if ch == self.lead else (a2, 0)

    def accepting(self, st):
        return st[1] == 0

    def chars(self):
        return self.av.chars() | {self.lead} | self.allowed | self.forbidden


def equivalent(A: Chain, B: Chain, avoid=(), extra_chars="", n_other=1,
               max_states=400000, domain=None):
    """A ≡ B on all strings that contain no factor of `avoid` (or on the
    given regular domain).  Returns (True, None, nstates) or
    (False, witness, nstates)."""
    D = domain if domain is not None else AvoidDFA(avoid)
    acc = getattr(D, "accepting", lambda st: True)
    used = A.chars() | B.chars() | D.chars() | set(extra_chars)
    alpha = sorted(used) + pick_other(used, n_other)
    start = (A.init, B.init, D.init, "", "")
    seen = {start: None}
    todo = [start]
    i = 0
    while i < len(todo):
        cur = todo[i]
        i += 1
        a, b, d, u, v = cur
        if acc(d) and u + A.final(a) != v + B.final(b):
            w = _path(seen, cur)
            return False, w, len(seen)
        for c in alpha:
            d2 = D.step(d, c)
            if d2 is None:
                continue
            a2, oa = A.step(a, c)
            b2, ob = B.step(b, c)
            u2, v2 = u + oa, v + ob
            k = 0
            m = min(len(u2), len(v2))
            while k < m and u2[k] == v2[k]:
                k += 1
            u2, v2 = u2[k:], v2[k:]
            nxt = (a2, b2, d2, u2, v2)
            if u2 and v2:
                # diverged for good: any completion inside the domain is a witness
                seen[nxt] = (cur, c)
                w = _path(seen, nxt)
                if acc(d2):
                    return False, w, len(seen)
                comp = _complete(D, d2, alpha)
                if comp is not None:
                    return False, w + comp, len(seen)
                continue
            if max(len(u2), len(v2)) > DELAY_CAP:
                raise AnalysisError("transducer equivalence: output delay cap exceeded")
            if nxt not in seen:
                seen[nxt] = (cur, c)
                todo.append(nxt)
                if len(seen) > max_states:
                    raise AnalysisError("transducer equivalence: state limit exceeded")
    return True, None, len(seen)


def _complete(D, d, alpha, limit=6):
    """Shortest completion that brings the domain automaton to acceptance."""
    acc = getattr(D, "accepting", lambda st: True)
    frontier = [(d, "")]
    for _ in range(limit):
        nxt = []
        for st, w in frontier:
            for c in alpha:
                s2 = D.step(st, c)
                if s2 is None:
                    continue
                if acc(s2):
                    return w + c
                nxt.append((s2, w + c))
        frontier = nxt
    return None


def _path(seen, st):
    out = []
    while seen[st] is not None:
        st, c = seen[st]
        out.append(c)
    return "".join(reversed(out))


def range_avoids(A: Chain, bad_dfa_step, bad_init, avoid=(), n_other=1,
                 max_states=200000, extra_chars=""):
    """No output of A (on the domain) drives the given output-DFA into a bad
    state.  bad_dfa_step(state, ch) -> state or 'BAD'."""
    D = AvoidDFA(avoid)
    used = A.chars() | D.chars() | set(extra_chars)
    alpha = sorted(used) + pick_other(used, n_other)
    start = (A.init, D.init, bad_init)
    seen = {start: None}
    todo = [start]
    i = 0
    while i < len(todo):
        cur = todo[i]
        i += 1
        a, d, q = cur
        # flush
        q2 = q
        for ch in A.final(a):
            q2 = bad_dfa_step(q2, ch)
            if q2 == "BAD":
                return False, _path(seen, cur), len(seen)
        for c in alpha:
            d2 = D.step(d, c)
            if d2 is None:
                continue
            a2, out = A.step(a, c)
            q2 = q
            bad = False
            for ch in out:
                q2 = bad_dfa_step(q2, ch)
                if q2 == "BAD":
                    bad = True
                    break
            nxt = (a2, d2, q2)
            if bad:
                seen[nxt] = (cur, c)
                return False, _path(seen, nxt), len(seen)
            if nxt not in seen:
                seen[nxt] = (cur, c)
                todo.append(nxt)
                if len(seen) > max_states:
                    raise AnalysisError("range check: state limit exceeded")
    return True, None, len(seen)


def minimal_factor(A, B, witness):
    """Shortest substring of the witness on which A and B already differ."""
    n = len(witness)
    for ln in range(1, n + 1):
        for i in range(0, n - ln + 1):
            w = witness[i:i + ln]
            if A.run(w) != B.run(w):
                return w
    return witness


# ---------------------------------------------------------------------------
# extraction from the AST
def _const_str(model, module, e):
    v = model.const(e, module)
    if isinstance(v, bytes):
        return v.decode("latin-1"), "bytes"
    if isinstance(v, str):
        return v, "str"
    raise AnalysisError(f"replace argument is not a string constant: {ast.unparse(e)}")


def chain_of_expr(model, module, expr, param):
    """expr = <param>.replace(a,b).replace(c,d)... -> (stages, kind) or None."""
    stages = []
    kinds = set()
    e = expr
    while isinstance(e, ast.Call) and isinstance(e.func, ast.Attribute) \
            and e.func.attr == "replace":
        if len(e.args) != 2 or e.keywords:
            raise AnalysisError("replace with count argument unsupported")
        p, k1 = _const_str(model, module, e.args[0])
        r, k2 = _const_str(model, module, e.args[1])
        kinds |= {k1, k2}
        stages.append(Replace(p, r))
        e = e.func.value
    if not stages:
        return None
    if not (is_param(e, param) or (isinstance(e, ast.Name) and e.id == param)):
        return None
    stages.reverse()
    return stages, ("bytes" if kinds == {"bytes"} else "str")


def _single_pass_of_expr(model, f: FuncInfo, expr, param):
    """COMPILED.sub(callback, <param or prefix chain>) with a literal
    alternation and a dict-lookup callback."""
    if not (isinstance(expr, ast.Call) and isinstance(expr.func, ast.Attribute)
            and expr.func.attr == "sub" and len(expr.args) == 2):
        return None
    rxn = expr.func.value
    if not isinstance(rxn, ast.Name):
        return None
    gl = f.module.globals.get(rxn.id)
    if not (isinstance(gl, ast.Call) and isinstance(gl.func, ast.Attribute)
            and gl.func.attr == "compile"):
        return None
    pat, kind = _const_str(model, f.module, gl.args[0])
    keys = _literal_alternatives(pat if kind == "str" else pat)
    cb = expr.args[0]
    mapping = None
    if isinstance(cb, ast.Lambda):
        b = cb.body
        # MAP[m.group(0)] / MAP[m.group()]
        if isinstance(b, ast.Subscript) and isinstance(b.value, ast.Name):
            mp = f.module.globals.get(b.value.id)
            if mp is not None:
                mv = model.const(mp, f.module)
                if isinstance(mv, dict):
                    mapping = {(_dec(k)): _dec(v) for k, v in mv.items()}
    elif isinstance(cb, ast.Name):
        g = f.module.functions.get(cb.id)
        if g is not None:
            for n in ast.walk(g.node):
                if isinstance(n, ast.Subscript) and isinstance(n.value, ast.Name):
                    mp = f.module.globals.get(n.value.id)
                    if mp is not None:
                        mv = model.const(mp, f.module)
                        if isinstance(mv, dict):
                            mapping = {(_dec(k)): _dec(v) for k, v in mv.items()}
    if mapping is None:
        raise AnalysisError(f"{f.qualname}: callback of .sub() is not a dict lookup")
    if set(keys) != set(mapping):
        raise AnalysisError(
            f"{f.qualname}: regex alternatives {sorted(keys)} != mapping keys "
            f"{sorted(mapping)}")
    inner = expr.args[1]
    pre = chain_of_expr(model, f.module, inner, param)
    pre_stages = pre[0] if pre else []
    if not pre and not (is_param(inner, param)
                        or (isinstance(inner, ast.Name) and inner.id == param)):
        return None
    return pre_stages + [SinglePass(mapping)], kind


def _dec(x):
    return x.decode("latin-1") if isinstance(x, bytes) else x


def _literal_alternatives(pattern):
    """All strings matched by a regex that is a finite alternation of literals
    and character sets (e.g. r'\\\\[nN,;\\\\]|\\r\\n')."""
    tree = sre_parse.parse(pattern)

    def expand(seq):
        outs = [""]
        for op, arg in seq:
            if op is SC.LITERAL:
                outs = [o + chr(arg) for o in outs]
            elif op is SC.IN:
                chars = []
                for iop, iarg in arg:
                    if iop is SC.LITERAL:
                        chars.append(chr(iarg))
                    else:
                        raise AnalysisError("single-pass regex: only literal sets supported")
                outs = [o + c for o in outs for c in chars]
            elif op is SC.BRANCH:
                alts = []
                for alt in arg[1]:
                    alts += expand(list(alt))
                outs = [o + a for o in outs for a in alts]
            elif op is SC.SUBPATTERN:
                sub = expand(list(arg[3]))
                outs = [o + s for o in outs for s in sub]
            elif op in (SC.MAX_REPEAT, SC.MIN_REPEAT) and arg[1] != SC.MAXREPEAT and arg[1] <= 3:
                lo, hi, body = arg
                sub = expand(list(body))
                reps = []
                for k in range(lo, hi + 1):
                    cur = [""]
                    for _ in range(k):
                        cur = [c + s for c in cur for s in sub]
                    reps += cur
                outs = [o + r for o in outs for r in reps]
            else:
                raise AnalysisError(f"single-pass regex: op {op} unsupported")
        return outs
    return expand(list(tree))


def function_chains(model, f: FuncInfo):
    """Replace chains of a one-argument string function, per operand kind:
    {'str': Chain, 'bytes': Chain}.  Handles `if isinstance(x, str): return
    chain elif isinstance(x, bytes): return chain` and a single return."""
    # first by interpretation on a symbolic text (independent of how the
    # function is written); the syntactic reading below is the fallback for
    # single-pass regex rewrites, which the symbolic text does not model
    from .absint import Unsupported
    from . import symtext
    try:
        got = symtext.chains_by_interpretation(model, f)
        if all(c.stages for c in got.values()):
            return got
    except Unsupported:
        pass
    param = f.params[0]
    out = {}
    env = SymEnv(f.node)
    rets = [n for n in walk_no_nested(f.node)
            if isinstance(n, ast.Return) and n.value is not None]
    if not rets:
        raise AnalysisError(f"{f.qualname}: no return")
    for r in rets:
        ex = env.expand_at(r.value, r)
        got = chain_of_expr(model, f.module, ex, param)
        if got is None:
            got = _single_pass_of_expr(model, f, ex, param)
        if got is None:
            raise AnalysisError(
                f"{f.qualname}: return `{ast.unparse(r.value)[:60]}` is not a "
                f"replace chain / single-pass rewrite of the argument")
        stages, kind = got
        if kind in out:
            raise AnalysisError(f"{f.qualname}: two {kind} chains")
        out[kind] = Chain(stages, f.name)
    return out
