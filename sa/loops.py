"""E6 - linear arithmetic normaliser and exhaustive exploration of the integer
state of one small counting loop (the checker's own interpreter runs the loop
body's AST on small concrete integers; the repository is not executed)."""
from __future__ import annotations

import ast
from fractions import Fraction

from .core import AnalysisError


# ---------------------------------------------------------------------------
def linear(expr, syms=None):
    """Normalise an integer-linear expression to {symbol: coeff, 1: const}.
    Symbols are names and opaque sub-expressions (keyed by ast.dump)."""
    def lin(e):
        if isinstance(e, ast.Constant) and isinstance(e.value, int) \
                and not isinstance(e.value, bool):
            return {1: e.value}
        if isinstance(e, ast.Name):
            return {e.id: 1}
        if isinstance(e, ast.UnaryOp) and isinstance(e.op, ast.USub):
            return {k: -v for k, v in lin(e.operand).items()}
        if isinstance(e, ast.BinOp):
            if isinstance(e.op, (ast.Add, ast.Sub)):
                a, b = lin(e.left), lin(e.right)
                out = dict(a)
                sg = 1 if isinstance(e.op, ast.Add) else -1
                for k, v in b.items():
                    out[k] = out.get(k, 0) + sg * v
                return {k: v for k, v in out.items() if v != 0}
            if isinstance(e.op, ast.Mult):
                a, b = lin(e.left), lin(e.right)
                if set(a) <= {1}:
                    c = a.get(1, 0)
                    return {k: c * v for k, v in b.items() if c * v}
                if set(b) <= {1}:
                    c = b.get(1, 0)
                    return {k: c * v for k, v in a.items() if c * v}
        return {"$" + ast.dump(e): 1}
    return lin(expr)


def lin_eq(a, b):
    ka = {k: v for k, v in a.items() if v}
    kb = {k: v for k, v in b.items() if v}
    return ka == kb


def lin_sub(a, b):
    out = dict(a)
    for k, v in b.items():
        out[k] = out.get(k, 0) - v
    return {k: v for k, v in out.items() if v}


def lin_eval(a, env):
    tot = 0
    for k, v in a.items():
        if k == 1:
            tot += v
        elif k in env:
            tot += v * env[k]
        else:
            raise AnalysisError(f"linear form has free symbol {k}")
    return tot


def lin_str(a):
    parts = []
    for k, v in a.items():
        parts.append(f"{v}" if k == 1 else (f"{k}" if v == 1 else f"{v}*{k}"))
    return " + ".join(parts) or "0"


# ---------------------------------------------------------------------------
def utf8_width(cp):
    return 1 if cp < 0x80 else 2 if cp < 0x800 else 3 if cp < 0x10000 else 4


class _Continue(Exception):
    def __init__(self, meter):
        self.meter = meter


class LoopExplorer:
    """Explores all reachable states of

        for <elem> in <seq>:
            <body over integer counters>

    where the only per-iteration input is a small integer `c` bound to the
    variable assigned from `len(<elem>.encode(...))`, and the only effects are
    assignments to integer locals and `<buf>.append(x)` with x either the
    element (meter += c) or the separator parameter (line end).
    """

    def __init__(self, loop: ast.For, consts: dict, buf: str, sep_name: str,
                 sep_tail: int, limit: int, widths=(1, 2, 3, 4),
                 init: dict | None = None, max_states=20000):
        self.loop = loop
        self.consts = consts          # name -> int (e.g. limit)
        self.buf = buf
        self.sep_name = sep_name
        self.sep_tail = sep_tail      # octets of the separator after its last LF
        self.limit = limit
        self.widths = widths
        self.init = dict(init or {})
        self.max_states = max_states
        if not isinstance(loop.target, ast.Name):
            raise AnalysisError("fold loop: target is not a simple name")
        self.elem = loop.target.id
        self.violations = []          # (kind, state, c, value)
        self.max_meter = 0
        self.states = 0
        self.transitions = 0
        self.appends_per_iter = set()
        self.cp = 0x41
        # representative code points: every UTF-8 width class, both sides of
        # each class boundary and of every integer constant the body compares
        cps = {0x41, 0x7F, 0x80, 0x7FF, 0x800, 0xFFFF, 0x10000, 0x10FFFF}
        for n in ast.walk(loop):
            if isinstance(n, ast.Constant) and isinstance(n.value, int) \
                    and not isinstance(n.value, bool) and 0x20 <= n.value <= 0x10FFFF:
                cps |= {n.value - 1, n.value, min(n.value + 1, 0x10FFFF)}
        self.codepoints = sorted(cps)

    # -- expression evaluation over concrete ints ---------------------------
    def ev(self, e, st, c):
        if isinstance(e, ast.Constant):
            if isinstance(e.value, (int, bool)):
                return int(e.value)
            raise AnalysisError(f"fold loop: non-integer constant {e.value!r}")
        if isinstance(e, ast.Name):
            if e.id in st:
                return st[e.id]
            if e.id in self.consts:
                return self.consts[e.id]
            raise AnalysisError(f"fold loop: unknown name {e.id}")
        if isinstance(e, ast.BinOp):
            a, b = self.ev(e.left, st, c), self.ev(e.right, st, c)
            if isinstance(e.op, ast.Add):
                return a + b
            if isinstance(e.op, ast.Sub):
                return a - b
            if isinstance(e.op, ast.Mult):
                return a * b
            raise AnalysisError("fold loop: unsupported operator")
        if isinstance(e, ast.UnaryOp) and isinstance(e.op, ast.Not):
            return int(not self.ev(e.operand, st, c))
        if isinstance(e, ast.BoolOp):
            vals = [self.ev(v, st, c) for v in e.values]
            return int(all(vals)) if isinstance(e.op, ast.And) else int(any(vals))
        if isinstance(e, ast.Compare) and len(e.ops) == 1:
            a, b = self.ev(e.left, st, c), self.ev(e.comparators[0], st, c)
            op = e.ops[0]
            return int({ast.Lt: a < b, ast.LtE: a <= b, ast.Gt: a > b,
                        ast.GtE: a >= b, ast.Eq: a == b,
                        ast.NotEq: a != b}[type(op)])
        if self.is_width(e):
            return c
        if isinstance(e, ast.IfExp):
            return self.ev(e.body if self.ev(e.test, st, c) else e.orelse, st, c)
        if (isinstance(e, ast.Call) and isinstance(e.func, ast.Name)
                and e.func.id == "ord" and len(e.args) == 1
                and isinstance(e.args[0], ast.Name) and e.args[0].id == self.elem):
            return self.cp
        raise AnalysisError(f"fold loop: unsupported expression {ast.unparse(e)[:50]}")

    def is_width(self, e):
        """len(<elem>.encode(<anything>)) - the UTF-8 width of the element."""
        return (isinstance(e, ast.Call) and isinstance(e.func, ast.Name)
                and e.func.id == "len" and len(e.args) == 1
                and isinstance(e.args[0], ast.Call)
                and isinstance(e.args[0].func, ast.Attribute)
                and e.args[0].func.attr == "encode"
                and isinstance(e.args[0].func.value, ast.Name)
                and e.args[0].func.value.id == self.elem)

    def run_body(self, stmts, st, c, meter, log):
        for s in stmts:
            if isinstance(s, ast.Assign) and len(s.targets) == 1 \
                    and isinstance(s.targets[0], ast.Name):
                st[s.targets[0].id] = self.ev(s.value, st, c)
            elif isinstance(s, ast.AugAssign) and isinstance(s.target, ast.Name):
                cur = st.get(s.target.id, self.consts.get(s.target.id))
                if cur is None:
                    raise AnalysisError(f"fold loop: {s.target.id} used before set")
                v = self.ev(s.value, st, c)
                if isinstance(s.op, ast.Add):
                    st[s.target.id] = cur + v
                elif isinstance(s.op, ast.Sub):
                    st[s.target.id] = cur - v
                else:
                    raise AnalysisError("fold loop: unsupported augmented op")
            elif isinstance(s, ast.If):
                if self.ev(s.test, st, c):
                    meter = self.run_body(s.body, st, c, meter, log)
                else:
                    meter = self.run_body(s.orelse, st, c, meter, log)
            elif isinstance(s, ast.Expr) and isinstance(s.value, ast.Call) \
                    and isinstance(s.value.func, ast.Attribute) \
                    and s.value.func.attr == "append" \
                    and isinstance(s.value.func.value, ast.Name) \
                    and s.value.func.value.id == self.buf \
                    and len(s.value.args) == 1:
                a = s.value.args[0]
                if isinstance(a, ast.Name) and a.id == self.elem:
                    meter += c
                    log.append("elem")
                elif isinstance(a, ast.Name) and a.id == self.sep_name:
                    # a physical line ends here
                    log.append(("sep", meter))
                    meter = self.sep_tail
                else:
                    raise AnalysisError(
                        f"fold loop: appends `{ast.unparse(a)}` which is neither "
                        f"the current character nor the separator")
            elif isinstance(s, ast.Pass):
                pass
            elif isinstance(s, ast.Continue):
                raise _Continue(meter)
            else:
                raise AnalysisError(
                    f"fold loop: unsupported statement {type(s).__name__} "
                    f"`{ast.unparse(s)[:50]}`")
        return meter

    def explore(self, meter0=0, first_nonascii=False):
        start = (tuple(sorted(self.init.items())), meter0, bool(first_nonascii))
        seen = {start}
        todo = [start]
        while todo:
            vars_t, meter, first = todo.pop()
            for cp in self.codepoints:
                c = utf8_width(cp)
                if c not in self.widths:
                    continue
                if first and cp < 0x80:
                    continue
                self.cp = cp
                st = dict(vars_t)
                log = []
                try:
                    m2 = self.run_body(self.loop.body, st, c, meter, log)
                except _Continue as e:
                    m2 = e.meter
                self.transitions += 1
                n_elem = sum(1 for x in log if x == "elem")
                self.appends_per_iter.add(n_elem)
                for x in log:
                    if isinstance(x, tuple) and x[1] > self.limit:
                        self.violations.append(("line-end", dict(vars_t), c, x[1]))
                    if isinstance(x, tuple):
                        self.max_meter = max(self.max_meter, x[1])
                # separator must come before the element in the same iteration
                if any(isinstance(x, tuple) for x in log):
                    idx_sep = max(i for i, x in enumerate(log) if isinstance(x, tuple))
                    idx_el = [i for i, x in enumerate(log) if x == "elem"]
                    if idx_el and idx_el[0] < idx_sep:
                        self.violations.append(("order", dict(vars_t), c, 0))
                if m2 > self.limit:
                    self.violations.append(("after-iter", dict(vars_t), c, m2))
                self.max_meter = max(self.max_meter, m2)
                # only the integer locals that the loop itself carries over
                carried = tuple(sorted((k, v) for k, v in st.items()
                                       if k in self.init))
                nxt = (carried, m2, False)
                if m2 > self.limit + 8:
                    continue       # already a violation; do not diverge
                if nxt not in seen:
                    seen.add(nxt)
                    todo.append(nxt)
                    if len(seen) > self.max_states:
                        raise AnalysisError("fold loop: state space did not close")
        self.states = len(seen)
        return self
