"""Exploration (E7) of the tree-level functions of Component on a family of
abstract component trees: property_items / content_lines (emission order,
BEGIN/END balance, value and parameter pass-through), walk (pre-order,
filters) and __eq__ (equivalence laws, foreign operands).

Trees are built directly in the abstract store (no repo code involved in
building them), the repo functions are interpreted on them, and the result is
compared with what the property statements prescribe.  Unlike the syntactic
rules this is insensitive to how the functions are written.
"""
from __future__ import annotations

import itertools
from collections import OrderedDict

from .core import AnalysisError
from .core import model_token
from .absint import (Interp, Obj, ClassVal, AbsRaise, Unsupported, Native, NativeObj, Closure, Bound,
                     Unknown)
from . import common

# (class qualname, name override for generic components)
KINDS = [("cal.Calendar", None), ("cal.Event", None), ("cal.Component", "X-CUSTOM"),
         ("cal.Todo", None), ("cal.Timezone", None),
         # a generic component that *is* a VEVENT by name (what the parser builds when the
         # factory has no class for a name, or a caller builds by hand)
         ("cal.Component", "VEVENT")]

# ordered-tree shapes as nested tuples, up to 5 nodes / depth 3
SHAPES = [
    (), ((),), ((), ()), (((),),), ((), (), ()), (((),), ()), ((), ((),)), (((), ()),),
    ((((),),),), (((),), ((),)), ((((),), ()),),
]

# property layouts: list of (NAME as inserted, value spec); value spec is a
# tag or a list of tags (multi-valued)
LAYOUTS = [
    [],
    [("SUMMARY", "s1")],
    [("summary", "s1"), ("DTSTART", "d1")],
    [("X-B", "b"), ("ATTENDEE", ["a1", "a2", "a3"]), ("UID", "u"), ("X-A", "a")],
    [("DTSTART", "d1"), ("UID", "u"), ("COMMENT", ["c2", "c1"]), ("VERSION", "2.0"), ("PRODID", "p")],
]


class TreeInterp(Interp):
    def __init__(self, model):
        super().__init__(model)
        self.contracts["parser.Contentline.from_parts"] = TreeInterp._from_parts
        self.contracts["parser.Contentlines.to_ical"] = TreeInterp._lines_to_ical

    def _from_parts(self, args, kwargs):
        a = list(args)
        if a and isinstance(a[0], ClassVal):
            a = a[1:]
        srt = a[3] if len(a) > 3 else kwargs.get("sorted", True)
        return ("line", a[0], a[1], a[2], srt)

    def _lines_to_ical(self, args, kwargs):
        return ("bytes", list(self._as_list(args[0])))

    def _native_obj_attr(self, o, name):
        return super()._native_obj_attr(o, name)

    def setattr(self, o, name, value):
        if isinstance(o, tuple) and len(o) == 5 and o[0] == "line":
            # an annotation put on a content line object (a hint for the folder, ...): the tree
            # model looks at names, parameters and values only; what such a hint does to the
            # bytes is the business of the unstubbed models (C06/COMPONENT)
            self.__dict__.setdefault("line_attrs", []).append((o, name, value))
            return
        return super().setattr(o, name, value)

    def _memo_key(self, x):
        """Hash/equality of the abstract serialisation (bytes built from content lines): two
        serialisations are the same bytes iff they list equal lines in the same order."""
        if isinstance(x, tuple) and len(x) == 2 and x[0] == "bytes" and isinstance(x[1], list):
            return ("bytes", tuple(self._memo_key(l) for l in x[1]))
        if isinstance(x, tuple) and len(x) == 5 and x[0] == "line":
            _, name, params, value, srt = x
            return ("line", self._str(name) if not isinstance(name, str) else name,
                    self._content_key(params), self._content_key(value), bool(srt))
        return super()._memo_key(x)

    def _content_key(self, v):
        if isinstance(v, Obj) and v.items is not None:
            return ("map", tuple(sorted((k, self._content_key(w)) for k, w in v.items.items())))
        if isinstance(v, Obj) and v.strval is not None:
            return ("text", v.strval)
        if isinstance(v, Obj) and v.listval is not None:
            return ("list", tuple(self._content_key(w) for w in v.listval))
        if isinstance(v, Obj):
            inner = {k: w for k, w in v.attrs.items() if k != "params"}
            return ("obj", v.cls.name if v.cls is not None else None,
                    tuple(sorted((k, self._content_key(w)) for k, w in inner.items())))
        if isinstance(v, (list, tuple)):
            return tuple(self._content_key(w) for w in v)
        if isinstance(v, (str, bytes, int, float, bool)) or v is None:
            return v
        if hasattr(v, "key"):
            return ("val", repr(v.key()))
        return ("id", id(v))


def build(it, shape, kinds, layouts, stub_values=False):
    """-> (root Obj, preorder list of nodes)."""
    model = it.model
    nodes = []
    counter = itertools.count()

    def mk(sh):
        i = next(counter)
        q, nm = kinds[i % len(kinds)]
        comp = it.instantiate(model.cls(q), [], {})
        if nm is not None:
            comp.attrs["name"] = nm
        nodes.append(comp)
        for key, spec in layouts[i % len(layouts)]:
            def val(tag):
                if not stub_values:
                    return tag
                o = Obj(None)
                o.attrs["tag"] = tag
                p = it.instantiate(model.cls("parser.Parameters"), [], {})
                p.items["X-P"] = tag
                o.attrs["params"] = p
                return o
            comp.items[key.upper()] = [val(t) for t in spec] if isinstance(spec, list) else val(spec)
        for c in sh:
            comp.attrs["subcomponents"].append(mk(c))
        return comp
    root = mk(shape)
    return root, nodes


def comp_name(it, c):
    return it.getattr(c, "name")


def expected_items(it, c, recursive, srt, top=True):
    name = comp_name(it, c)
    out = [("BEGIN", name)]
    keys = list(c.items.keys())
    if srt:
        order = it.getattr(c, "canonical_order")
        order = [o for o in (order or ())]
        keys = [k for k in order if k in keys] + sorted(k for k in keys if k not in order)
    for k in keys:
        v = c.items[k]
        for x in (v if isinstance(v, list) else [v]):
            out.append((k, x))
    if recursive:
        for s in c.attrs["subcomponents"]:
            out += expected_items(it, s, True, srt, False)
    out.append(("END", name))
    return out


def _norm_marker(it, v):
    if isinstance(v, bytes):
        return v.decode()
    if isinstance(v, Obj) and v.strval is not None:
        return v.strval
    return v


def check_items(it, got, exp):
    if not isinstance(got, list) or len(got) != len(exp):
        return False
    for g, e in zip(got, exp):
        if not isinstance(g, tuple) or len(g) != 2:
            return False
        gn = g[0].strval if isinstance(g[0], Obj) and g[0].strval is not None else g[0]
        if gn != e[0]:
            return False
        if e[0] in ("BEGIN", "END"):
            if _norm_marker(it, g[1]) != e[1]:
                return False
        elif g[1] is not e[1] and g[1] != e[1]:
            return False
    return True


ZONE_TREE = ((((), (), ()), ((),), ()),
             [("cal.Calendar", None), ("cal.Timezone", None), ("cal.TimezoneStandard", None),
              ("cal.TimezoneDaylight", None), ("cal.TimezoneStandard", None), ("cal.Event", None),
              ("cal.Alarm", None), ("cal.Todo", None)])

ACCESSORS = {"events": "VEVENT", "todos": "VTODO", "timezones": "VTIMEZONE",
             "standard": "STANDARD", "daylight": "DAYLIGHT"}


# the same kind repeated along a path and among siblings
SAME_SHAPE = ((((),), ()), ((),), ())


def trees(thorough):
    yield ZONE_TREE[0], ZONE_TREE[1], LAYOUTS
    yield SAME_SHAPE, [("cal.Event", None)], LAYOUTS
    yield SAME_SHAPE, [("cal.Component", "X-CUSTOM")], LAYOUTS[1:] + LAYOUTS[:1]
    yield SAME_SHAPE, [("cal.Calendar", None), ("cal.Event", None)], LAYOUTS
    # components that are of a kind by name only (generic class), next to the typed ones
    yield ((), (), (), ((),)), [("cal.Calendar", None), ("cal.Event", None), ("cal.Component", "VEVENT"),
                               ("cal.Todo", None), ("cal.Component", "VTODO"), ("cal.Component", "VEVENT")], LAYOUTS
    kinds_rot = [KINDS, KINDS[1:] + KINDS[:1], KINDS[2:] + KINDS[:2]]
    lay_rot = [LAYOUTS[1:] + LAYOUTS[:1], LAYOUTS[3:] + LAYOUTS[:3], LAYOUTS]
    for sh in SHAPES:
        for i, (k, l) in enumerate(zip(kinds_rot, lay_rot)):
            if i > 0 and not thorough and len(repr(sh)) > 12:
                continue
            yield sh, k, l


def explore_emit(ctx):
    """property_items and content_lines/to_ical on every tree, all flag
    combinations.  -> (n cases, failures [(what, description, detail)])."""
    model = ctx.model
    fails = []
    n = 0
    for sh, kinds, lays in trees(ctx.thorough):
        for stub in (False, True):
            it = TreeInterp(model)
            try:
                root, nodes = build(it, sh, kinds, lays, stub)
                for recursive in (True, False):
                    for srt in (True, False):
                        n += 1
                        got = it.call(it.getattr(root, "property_items"), [],
                                      {"recursive": recursive, "sorted": srt})
                        exp = expected_items(it, root, recursive, srt)
                        if not check_items(it, got, exp):
                            fails.append(("items", _diff_items(it, got, exp, recursive, srt),
                                          dict(shape=sh, recursive=recursive, sorted=srt,
                                               got=_show(it, got), expected=_show(it, exp))))
                # default arguments: recursive and sorted
                n += 1
                got = it.call(it.getattr(root, "property_items"), [], {})
                if not check_items(it, got, expected_items(it, root, True, True)):
                    fails.append(("items", "default arguments are not recursive=True, sorted=True",
                                  dict(shape=sh)))
                for srt in (True, False, None):
                    n += 1
                    kw = {} if srt is None else {"sorted": srt}
                    eff = True if srt is None else srt
                    got = it.call(it.getattr(root, "to_ical"), [], dict(kw))
                    exp = expected_items(it, root, True, eff)
                    d = _check_lines(it, got, exp, eff)
                    if d:
                        fails.append(("lines", d, dict(shape=sh, sorted=srt)))
            except Unsupported as e:
                raise AnalysisError(f"emission leaves the abstract interface on tree {sh}: {e}")
            except AbsRaise as e:
                fails.append(("raise", f"raises {e.cls_name}", dict(shape=sh, error=str(e))))
    return n, fails


def _check_lines(it, got, exp, srt):
    if not (isinstance(got, tuple) and got and got[0] == "bytes"):
        return "to_ical does not return Contentlines.to_ical() of the content lines"
    lines = got[1]
    if not lines or lines[-1] != "":
        return "the content-line list does not end with the empty terminator"
    lines = lines[:-1]
    if len(lines) != len(exp):
        return f"{len(lines)} content lines for {len(exp)} property items"
    for ln, (name, value) in zip(lines, exp):
        if not (isinstance(ln, tuple) and ln[0] == "line"):
            return "a content line is not built by Contentline.from_parts"
        _, lname, lparams, lvalue, lsorted = ln
        lname = lname.strval if isinstance(lname, Obj) and lname.strval is not None else lname
        if lname != name:
            return f"line for {name} is emitted under the name {lname!r}"
        if name in ("BEGIN", "END"):
            if _norm_marker(it, lvalue) != value:
                return f"{name} line carries {lvalue!r}, not the component name {value!r}"
            continue
        if lvalue is not value and lvalue != value:
            return f"line for {name} carries a different value"
        if isinstance(value, Obj) and "params" in value.attrs:
            if lparams is not value.attrs["params"]:
                return f"line for {name} does not carry the value's own parameters"
        else:
            if not (isinstance(lparams, Obj) and lparams.items is not None and not lparams.items):
                return f"line for a parameterless {name} value carries parameters {lparams!r}"
        if bool(lsorted) != bool(srt):
            return "the sorted flag is not passed on to Contentline.from_parts"
    return None


def _show(it, items):
    out = []
    if not isinstance(items, list):
        return repr(items)
    for x in items:
        if isinstance(x, tuple) and len(x) == 2:
            v = x[1]
            if isinstance(v, Obj) and "tag" in v.attrs:
                v = v.attrs["tag"]
            out.append((_norm_marker(it, x[0]), _norm_marker(it, v)))
        else:
            out.append(repr(x))
    return out


def _diff_items(it, got, exp, recursive, srt):
    g, e = _show(it, got), _show(it, exp)
    if not isinstance(got, list):
        return "property_items does not return a list"
    gb = [x for x in g if isinstance(x, tuple) and x[0] in ("BEGIN", "END")]
    eb = [x for x in e if x[0] in ("BEGIN", "END")]
    if gb != eb:
        return "BEGIN/END markers are not balanced and properly nested around each component"
    gm = sorted(map(repr, g))
    em = sorted(map(repr, e))
    if gm != em:
        return "the emitted (name, value) pairs are not exactly the stored ones"
    return ("property order differs with sorting " + ("on" if srt else "off")
            + " (expected canonical key order, values and subcomponents in insertion order)"
            if srt else "property order differs with sorting off (expected insertion order)")


# ---------------------------------------------------------------------------
def expected_walk(it, c, name, pred):
    out = []
    if (name is None or comp_name(it, c) == name.upper()) and pred(c):
        out.append(c)
    for s in c.attrs["subcomponents"]:
        out += expected_walk(it, s, name, pred)
    return out


def explore_walk(ctx):
    model = ctx.model
    fails = []
    n = 0
    accessors_seen = set()
    for sh, kinds, lays in trees(ctx.thorough):
        it = TreeInterp(model)
        try:
            root, nodes = build(it, sh, kinds, lays)
            marked = {id(x) for i, x in enumerate(nodes) if i % 2 == 0}
            preds = [("all", None, lambda c: True),
                     ("even", Native("select", lambda i, a, k: id(a[0]) in marked),
                      lambda c: id(c) in marked),
                     ("none", Native("select", lambda i, a, k: False), lambda c: False)]
            for nm in (None, "VEVENT", "vevent", "VeVent", "x-custom", "VTODO", "vtimezone", "NOPE"):
                for label, nat, py in preds:
                    n += 1
                    args = [] if nm is None else [nm]
                    kw = {} if nat is None else {"select": nat}
                    got = it.call(it.getattr(root, "walk"), list(args), dict(kw))
                    exp = expected_walk(it, root, nm, py)
                    if not isinstance(got, list) or len(got) != len(exp) or \
                            any(g is not e for g, e in zip(got, exp)):
                        gi = [nodes.index(g) if g in nodes else "?" for g in got] if isinstance(got, list) else got
                        fails.append(("walk", _diff_walk(nodes, got, exp, nm),
                                      dict(shape=sh, name=nm, select=label, got=gi,
                                           expected=[nodes.index(e) for e in exp])))
            # keyword form walk(name=...)
            n += 1
            got = it.call(it.getattr(root, "walk"), [], {"name": "vevent"})
            exp = expected_walk(it, root, "vevent", lambda c: True)
            if not isinstance(got, list) or [id(g) for g in got] != [id(e) for e in exp]:
                fails.append(("walk", "walk(name=…) keyword form differs", dict(shape=sh)))
            # accessors (events, todos, timezones, standard, daylight)
            for node in nodes:
                for attr, kind in ACCESSORS.items():
                    # the accessor, however the class defines it (decorated method, property(...)
                    # call, a property factory): looked up through the interpreter
                    try:
                        from .absint import PropertyVal
                        if not isinstance(it._class_attr(node.cls, attr, node), PropertyVal):
                            continue
                    except AbsRaise:
                        continue
                    n += 1
                    accessors_seen.add(f"{node.cls.name}.{attr}")
                    got = it.getattr(node, attr)
                    exp = expected_walk(it, node, kind, lambda c: True)
                    if not isinstance(got, list) or [id(g) for g in got] != [id(e) for e in exp]:
                        fails.append(("accessor", f"{node.cls.name}.{attr} is not exactly the {kind} "
                                      f"components below it in pre-order", dict(shape=sh)))
        except Unsupported as e:
            raise AnalysisError(f"walk leaves the abstract interface on tree {sh}: {e}")
        except AbsRaise as e:
            fails.append(("raise", f"walk raises {e.cls_name}", dict(shape=sh, error=str(e))))
    ctx.extra["accessors_explored"] = sorted(accessors_seen)
    if len(accessors_seen) < 5:
        raise AnalysisError(f"accessors explored: {sorted(accessors_seen)}; Calendar.events/todos/"
                            f"timezones and Timezone.standard/daylight expected")
    return n, fails


def _diff_walk(nodes, got, exp, nm):
    if not isinstance(got, list):
        return "walk does not return a list"
    gs, es = [id(g) for g in got], [id(e) for e in exp]
    if sorted(gs) == sorted(es):
        return "walk does not return the components in pre-order"
    if len(set(gs)) != len(gs):
        return "walk returns a component more than once"
    if set(gs) < set(es):
        if nm is not None and nm != nm.upper():
            return "walk does not match the requested name case-insensitively"
        return "walk misses nested components"
    return "walk returns components that do not match the requested name/predicate"


# ---------------------------------------------------------------------------
def _builtin_ne(it, a, b):
    """`a != b` when no class of a's family defines __ne__: a plain object
    inverts __eq__; a dict / OrderedDict subclass gets the *builtin's* own
    comparison (OrderedDict: items in order; never the overridden __eq__)."""
    if isinstance(a, Obj) and a.items is not None:
        if isinstance(b, Obj) and b.items is not None:
            return list(a.items.items()) != list(b.items.items())
        if isinstance(b, dict):
            return dict(a.items) != b
        return True
    r = _eq(it, a, b)
    return (not r) if isinstance(r, bool) else r


def _ne(it, a, b):
    if isinstance(a, Obj) and a.cls is not None and it.model.lookup_method(a.cls, "__ne__") is not None:
        r = it.call(it.getattr(a, "__ne__"), [b], {})
        return it.truth(r) if not (isinstance(r, NativeObj) and r.name == "NotImplemented") else "NotImplemented"
    return _builtin_ne(it, a, b)


def _eq(it, a, b):
    f = it.getattr(a, "__eq__")
    r = it.call(f, [b], {})
    if isinstance(r, Unknown):
        raise Unsupported("__eq__ returned an unknown value")
    res = it.truth(r) if not (isinstance(r, NativeObj) and r.name == "NotImplemented") else "NotImplemented"
    if isinstance(res, bool) and _NE_CHECK[0] is not None:
        _NE_CHECK[0](it, a, b, res)
    return res


_NE_CHECK = [None]


def _mutate(it, root, how):
    """In-place variant of a freshly built tree; returns False when the
    variant does not apply to this tree."""
    nodes = []

    def walk(c):
        nodes.append(c)
        for s in c.attrs["subcomponents"]:
            walk(s)
    walk(root)
    if how == "reverse-subcomponents":
        hit = False
        for c in nodes:
            if len(c.attrs["subcomponents"]) > 1:
                c.attrs["subcomponents"].reverse()
                hit = True
        return hit
    if how == "reverse-insertion":
        hit = False
        for c in nodes:
            if len(c.items) > 1:
                c.items = OrderedDict(reversed(list(c.items.items())))
                hit = True
        return hit
    if how == "value":
        for c in reversed(nodes):
            for k, v in c.items.items():
                if isinstance(v, list):
                    c.items[k] = v[:-1] + ["changed"]
                else:
                    c.items[k] = "changed"
                return True
        return False
    if how == "list-order":
        for c in reversed(nodes):
            for k, v in c.items.items():
                if isinstance(v, list) and len(v) > 1 and v[0] != v[-1]:
                    c.items[k] = list(reversed(v))
                    return True
        return False
    if how == "extra-property":
        nodes[-1].items["X-EXTRA"] = "x"
        return True
    if how == "drop-subcomponent":
        for c in reversed(nodes):
            if c.attrs["subcomponents"]:
                c.attrs["subcomponents"].pop()
                return True
        return False
    if how == "extra-subcomponent":
        extra = it.instantiate(it.model.cls("cal.Alarm"), [], {})
        extra.items["ACTION"] = "DISPLAY"
        nodes[-1].attrs["subcomponents"].append(extra)
        return True
    raise AssertionError(how)


EQUAL_VARIANTS = ["reverse-subcomponents", "reverse-insertion"]
UNEQUAL_VARIANTS = ["value", "list-order", "extra-property", "drop-subcomponent", "extra-subcomponent"]


def explore_eq(ctx):
    """-> (n, fails) ; fails: (law, description, detail)."""
    model = ctx.model
    fails = []
    n = 0

    def note(law, desc, **d):
        fails.append((law, desc, d))

    def ne_check(it, a, b, eq_result):
        _NE_CHECK[0] = None         # no recursion through nested comparisons
        try:
            r = _ne(it, a, b)
            if isinstance(r, bool) and r == eq_result:
                note("ne", f"`!=` is not the negation of `==`: both answer {r} for the same pair of "
                     f"components", left=repr(a), right=repr(b)[:80])
        except AbsRaise as e:
            note("ne", f"`!=` raises {e.cls_name}", left=repr(a))
        finally:
            _NE_CHECK[0] = ne_check
    _NE_CHECK[0] = ne_check

    for sh, kinds, lays in trees(ctx.thorough):
        it = TreeInterp(model)
        try:
            a, _ = build(it, sh, kinds, lays)
            b, _ = build(it, sh, kinds, lays)
            n += 3
            if _eq(it, a, a) is not True:
                note("reflexive", "a component does not compare equal to itself", shape=sh)
            if _eq(it, a, b) is not True or _eq(it, b, a) is not True:
                note("copy", "two identically built trees do not compare equal", shape=sh)
            for how in EQUAL_VARIANTS:
                c, _ = build(it, sh, kinds, lays)
                if not _mutate(it, c, how):
                    continue
                n += 2
                r1, r2 = _eq(it, a, c), _eq(it, c, a)
                if r1 is not True or r2 is not True:
                    note("order-insensitive " + how, f"trees differing only by {how} compare unequal "
                         f"(a==c: {r1}, c==a: {r2})", shape=sh, variant=how)
            for how in UNEQUAL_VARIANTS:
                c, _ = build(it, sh, kinds, lays)
                if not _mutate(it, c, how):
                    continue
                n += 2
                r1, r2 = _eq(it, a, c), _eq(it, c, a)
                if r1 is not r2:
                    note("symmetric", f"equality is not symmetric for trees differing by {how} "
                         f"(a==c: {r1}, c==a: {r2})", shape=sh, variant=how)
                if r1 is True or r2 is True:
                    note("distinguishes " + how, f"trees differing by {how} compare equal",
                         shape=sh, variant=how)
            # foreign operands
            p = it.instantiate(model.cls("parser.Parameters"), [], {})
            for label, other in (("None", None), ("int", 5), ("str", "VEVENT"), ("list", []),
                                 ("dict", {}), ("object()", Obj(None)), ("Parameters", p),
                                 ("bytes", b"x"), ("tuple", ())):
                n += 1
                try:
                    r = _eq(it, a, other)
                except AbsRaise as e:
                    note("total", f"comparison with {label} raises {e.cls_name}", shape=sh,
                         operand=label)
                    continue
                if r is True:
                    note("total", f"comparison with {label} answers True", shape=sh, operand=label)
        except Unsupported as e:
            raise AnalysisError(f"__eq__ leaves the abstract interface on tree {sh}: {e}")
        except AbsRaise as e:
            note("raise", f"__eq__ raises {e.cls_name} on components", shape=sh, error=str(e))
    # component kind and multiset of subcomponents (dedicated trees)
    it = TreeInterp(model)
    try:
        def leaf(q, props):
            c = it.instantiate(model.cls(q), [], {})
            for k, v in props:
                c.items[k] = v
            return c

        def parent(children):
            c = it.instantiate(model.cls("cal.Calendar"), [], {})
            c.attrs["subcomponents"].extend(children)
            return c
        n += 2
        e, t = leaf("cal.Event", [("UID", "1")]), leaf("cal.Todo", [("UID", "1")])
        if _eq(it, e, t) is True or _eq(it, t, e) is True:
            note("distinguishes kind", "components of different kind with the same properties "
                 "compare equal", witness="Event(UID=1) == Todo(UID=1)")
        y = lambda: leaf("cal.Event", [("UID", "y")])
        z = lambda: leaf("cal.Event", [("UID", "z")])
        for l, r in (([y(), y(), z()], [y(), z(), z()]), ([y(), z(), z()], [y(), y(), z()]),
                     ([y(), y()], [y(), z()]), ([y(), z()], [z(), z()])):
            n += 2
            p1, p2 = parent(l), parent(r)
            r1, r2 = _eq(it, p1, p2), _eq(it, p2, p1)
            lab = lambda xs: [x.items["UID"] for x in xs]
            if r1 is True or r2 is True:
                note("distinguishes multiset", "trees whose subcomponent multisets differ compare "
                     f"equal (a==b: {r1}, b==a: {r2})", witness=f"{lab(l)} vs {lab(r)}")
                break
        # symmetry also across *representations* of a value: the same date held as a single
        # value object, as a one-element list object, as a Python list of value objects
        from .absint import DT
        d1 = DT("utc", 5, {"d": 1})
        vddd, vlist, vtext = (model.cls(q) for q in ("prop.vDDDTypes", "prop.vDDDLists", "prop.vText"))
        reps = {
            "vDDDTypes(d)": lambda: it.instantiate(vddd, [d1], {}),
            "vDDDLists([d])": lambda: it.instantiate(vlist, [[d1]], {}),
            "[vDDDTypes(d)]": lambda: [it.instantiate(vddd, [d1], {})],
            "vText('x')": lambda: it.instantiate(vtext, ["x"], {}),
            "'x'": lambda: "x",
        }
        names = list(reps)
        for i_, a_ in enumerate(names):
            for b_ in names[i_ + 1:]:
                n += 1
                ea, eb = leaf("cal.Event", []), leaf("cal.Event", [])
                ea.items["RDATE"], eb.items["RDATE"] = reps[a_](), reps[b_]()
                try:
                    r1, r2 = _eq(it, ea, eb), _eq(it, eb, ea)
                except AbsRaise as e:
                    note("total", f"comparing components holding {a_} and {b_} raises {e.cls_name}",
                         left=a_, right=b_)
                    continue
                if r1 != r2:
                    note("symmetric", f"equality is not symmetric when one tree holds the value as {a_} and "
                         f"the other as {b_} (a==b: {r1}, b==a: {r2})", left=a_, right=b_)
    except Unsupported as e:
        raise AnalysisError(f"__eq__ leaves the abstract interface: {e}")
    finally:
        _NE_CHECK[0] = None
    return n, fails


# ---------------------------------------------------------------------------
_CACHE = {}


LAWS = {
    "explore_emit": ["BEGIN/END balanced and properly nested", "every stored (name, value) pair emitted exactly once",
                     "canonical key order with sorting on", "insertion order with sorting off",
                     "subcomponents in insertion order between properties and END",
                     "recursive=False emits this component only", "defaults are recursive and sorted",
                     "one content line per item, under the item's name",
                     "each line carries the value's own parameters", "sorted flag reaches Contentline.from_parts",
                     "terminating empty line"],
    "explore_walk": ["pre-order", "each matching component exactly once", "name matched case-insensitively",
                     "predicate applied to every component", "kind accessors"],
    "explore_eq": ["reflexive", "identically built trees equal", "insensitive to subcomponent order",
                   "insensitive to property insertion order", "symmetric", "distinguishes a changed value",
                   "distinguishes list order of a multi-valued property", "distinguishes an extra property",
                   "distinguishes a dropped subcomponent", "distinguishes an extra subcomponent",
                   "distinguishes the multiset of subcomponents", "distinguishes the component kind",
                   "False (no exception) for foreign operands", "!= is the negation of =="],
}


ALIAS = {
    "copy": "identically built trees equal",
    "order-insensitive reverse-subcomponents": "insensitive to subcomponent order",
    "order-insensitive reverse-insertion": "insensitive to property insertion order",
    "distinguishes value": "distinguishes a changed value",
    "distinguishes list-order": "distinguishes list order of a multi-valued property",
    "distinguishes extra-property": "distinguishes an extra property",
    "distinguishes drop-subcomponent": "distinguishes a dropped subcomponent",
    "distinguishes extra-subcomponent": "distinguishes an extra subcomponent",
    "distinguishes multiset": "distinguishes the multiset of subcomponents",
    "distinguishes kind": "distinguishes the component kind",
    "total": "False (no exception) for foreign operands",
    "ne": "!= is the negation of ==",
}


def explore_copy(ctx):
    """copy.deepcopy of a tree (the generic copy, or the class's own __deepcopy__): the copy
    is a different object with the same component names in pre-order, it compares equal to
    the original and serialises to the same lines; the original is unchanged."""
    model = ctx.model
    fails = []
    n = 0
    for sh, kinds, lays in trees(ctx.thorough):
        it = TreeInterp(model)
        try:
            root, nodes = build(it, sh, kinds, lays)
            before = [comp_name(it, c) for c in nodes]
            ser0 = it._memo_key(it.call(it.getattr(root, "to_ical"), [], {}))
            n += 1
            try:
                cp = it._copy(root, True, {})
            except AbsRaise as e:
                fails.append(("copy", f"copy.deepcopy of a component raises {e.cls_name}", dict(shape=sh)))
                continue
            if not (isinstance(cp, Obj) and cp.cls is root.cls) or cp is root:
                fails.append(("copy", "copy.deepcopy does not return a new component of the same class",
                              dict(shape=sh)))
                continue
            cnodes = []

            def pre(c):
                cnodes.append(c)
                for s_ in c.attrs.get("subcomponents", []):
                    pre(s_)
            pre(cp)
            names = [comp_name(it, c) for c in cnodes]
            if names != before:
                fails.append(("copy", f"the copy has the component names {names}, the original {before}",
                              dict(shape=sh)))
                continue
            if any(a is b for a, b in zip(cnodes, nodes)):
                fails.append(("copy", "a deep copy shares a component object with the original", dict(shape=sh)))
            if _eq(it, root, cp) is not True or _eq(it, cp, root) is not True:
                fails.append(("copy", "a deep copy does not compare equal to the original", dict(shape=sh)))
            ser1 = it._memo_key(it.call(it.getattr(cp, "to_ical"), [], {}))
            if ser1 != ser0:
                fails.append(("copy", "a deep copy serialises differently from the original", dict(shape=sh)))
            if it._memo_key(it.call(it.getattr(root, "to_ical"), [], {})) != ser0 or \
                    [comp_name(it, c) for c in nodes] != before:
                fails.append(("copy", "copying changes the original", dict(shape=sh)))
        except Unsupported as e:
            raise AnalysisError(f"deep copy leaves the abstract interface on tree {sh}: {e}")
    return n, fails


LAWS["explore_copy"] = ["deep copies are equal, separate and serialise identically"]
ALIAS["copy"] = LAWS["explore_copy"][0]


def report(ctx, rule, fn, what, loc, floor):
    """Run an exploration once per model; fail once per distinct description."""
    key = (model_token(ctx.model), fn.__name__, ctx.thorough)
    if key not in _CACHE:
        _CACHE[key] = fn(ctx)
    n, fails = _CACHE[key]
    if n < floor:
        raise AnalysisError(f"{rule}: only {n} cases explored (floor {floor})")
    seen = {}
    for law, desc, detail in fails:
        seen.setdefault((law, desc), detail)
    failed_laws = set()
    for (law, desc), detail in sorted(seen.items(), key=lambda kv: kv[0]):
        key = ALIAS.get(law, law)
        if law in ("items", "lines", "walk", "raise", "accessor"):
            key = desc
        failed_laws.add(key)
        ctx.fail(rule, key,
                 f"{desc} ({', '.join(f'{k}={v!r}' for k, v in detail.items())[:500]})", loc,
                 witness=detail)
    generic = any(law in ("items", "lines", "walk", "raise", "accessor") for law, _ in seen)
    if not generic:
        nt = len(list(trees(ctx.thorough)))
        for law in LAWS[fn.__name__]:
            if law not in failed_laws:
                ctx.ok(rule, law, loc, detail=f"{what}: {n} cases on {nt} abstract trees")
    ctx.extra[fn.__name__ + "_cases"] = n
    return n, fails


# ---------------------------------------------------------------------------
# C18: used / missing time zone ids and add_missing_timezones
KNOWN_ZONES = {"Europe/Berlin", "America/New_York", "Z1"}
# ids the provider resolves to another zone (Windows names, posix/ prefixes): tzp.timezone()
# answers with the *same* tzinfo object as for the target, knows_timezone_id() says no
ALIASES = {"W. Europe Standard Time": "Europe/Berlin", "posix/Europe/Berlin": "Europe/Berlin",
           "Eastern Standard Time": "America/New_York"}


def _resolves(tzid):
    t = tzid.strip("/")
    return t in KNOWN_ZONES or t in ALIASES


class TzidInterp(TreeInterp):
    def __init__(self, model):
        super().__init__(model)
        self.contracts["cal.Timezone.from_tzinfo"] = TzidInterp._from_tzinfo
        self.generated = []

    def _from_tzinfo(self, args, kwargs):
        """Contract of Timezone.from_tzinfo(tzinfo, tzid, first, last): a
        VTIMEZONE whose TZID is the given tzid (decided separately by
        C18/CLOSE on from_tzinfo itself)."""
        a = [x for x in args if not isinstance(x, ClassVal)]
        tzid = a[1] if len(a) > 1 else kwargs.get("tzid")
        tz = self.instantiate(self.model.cls("cal.Timezone"), [], {})
        tz.items["TZID"] = tzid
        self.generated.append(tzid)
        return tz

    def _native_obj_attr(self, o, name):
        if o.name == "tzp" and name == "timezone":
            from .absint import TZ
            # contract of TZP.timezone: the id is looked up in its clean form
            # (leading/trailing '/' stripped) and as given
            def timezone(i, a, k):
                t = self._str(a[0]).strip("/")
                t = ALIASES.get(t, t)
                if t not in KNOWN_ZONES:
                    return None
                zones = self.__dict__.setdefault("_zone_objects", {})
                if t not in zones:
                    zones[t] = TZ("zone", t, "zoneinfo")
                return zones[t]          # one tzinfo object per zone, as a provider's cache gives
            return Native("tzp.timezone", timezone)
        if o.name == "tzp" and name == "knows_timezone_id":
            return Native("tzp.knows", lambda i, a, k: self._str(a[0]).strip("/") in KNOWN_ZONES)
        if o.name == "tzp" and name == "clean_timezone_id":
            return Native("tzp.clean", lambda i, a, k: self._str(a[0]).strip("/"))
        return super()._native_obj_attr(o, name)


def _tz_value(it, tzid, with_params=True):
    o = Obj(None)
    if with_params:
        p = it.instantiate(it.model.cls("parser.Parameters"), [], {})
        if tzid is not None:
            p.items["TZID"] = tzid
        o.attrs["params"] = p
    return o


# calendars: list of (path of kinds, properties [(NAME, [tzid-or-None, ...] | tzid)])
# plus VTIMEZONE components present: list of TZID values (None: no TZID property)
TZ_CASES = [
    dict(name="empty", comps=[], zones=[]),
    dict(name="one zoned start", comps=[("cal.Event", [("DTSTART", "Europe/Berlin")])], zones=[]),
    dict(name="calendar-level property", cal=[("X-WR", "Z1")], comps=[], zones=[]),
    dict(name="multi-valued entries", comps=[("cal.Event", [("RDATE", ["Z1", None, "America/New_York"]),
                                                           ("EXDATE", ["Europe/Berlin", "Europe/Berlin"])])],
         zones=["Z1"]),
    dict(name="nested alarm", comps=[("cal.Event", [("DTSTART", None)],
                                      [("cal.Alarm", [("TRIGGER", "America/New_York")])])], zones=[]),
    dict(name="unknown id", comps=[("cal.Todo", [("DUE", "Mars/Olympus"), ("DTSTART", "Z1")])], zones=[]),
    dict(name="zone present", comps=[("cal.Event", [("DTSTART", "Europe/Berlin"), ("DTEND", "Z1")])],
         zones=["Europe/Berlin"]),
    dict(name="zone without TZID", comps=[("cal.Event", [("DTSTART", "Z1")])], zones=[None, "Other"]),
    dict(name="value without params", comps=[("cal.Event", [("SUMMARY", "plain"), ("DTSTART", "Z1")])],
         zones=[]),
    dict(name="several events", comps=[("cal.Event", [("DTSTART", "Z1")]), ("cal.Event", [("DTSTART", "Z1")]),
                                       ("cal.Journal", [("DTSTART", "America/New_York")])], zones=["Z1", "Z1"]),
    dict(name="last of many values", comps=[("cal.Event", [("RDATE", [None, None, None, "Europe/Berlin"])])],
         zones=[]),
    dict(name="unclean id", comps=[("cal.Event", [("DTSTART", "/Europe/Berlin"), ("DTEND", "Z1")])],
         zones=[]),
    dict(name="unclean id, clean zone present", comps=[("cal.Event", [("DTSTART", "/Z1")])], zones=["Z1"]),
    dict(name="alias after its target", comps=[("cal.Event", [("DTSTART", "Europe/Berlin"),
                                                                ("DTEND", "W. Europe Standard Time")]),
                                               ("cal.Todo", [("DUE", "posix/Europe/Berlin")])], zones=[]),
    dict(name="alias only", comps=[("cal.Event", [("DTSTART", "Eastern Standard Time")])], zones=[]),
    dict(name="third-level nesting", comps=[("cal.Component", [], [("cal.Event", [], [
        ("cal.Alarm", [("TRIGGER", "Z1")])])])], zones=[]),
]


def _build_tz_case(it, case):
    model = it.model
    cal = it.instantiate(model.cls("cal.Calendar"), [], {})
    used = set()

    def props(comp, plist):
        for nm, spec in plist:
            if spec == "plain":
                comp.items[nm] = "text without params"
                continue
            if isinstance(spec, list):
                comp.items[nm] = [_tz_value(it, t) for t in spec]
                used.update(t for t in spec if t is not None)
            else:
                comp.items[nm] = _tz_value(it, spec)
                if spec is not None:
                    used.add(spec)

    def mk(spec):
        q, plist = spec[0], spec[1]
        c = it.instantiate(model.cls(q), [], {})
        if q == "cal.Component":
            c.attrs["name"] = "X-WRAP"
        props(c, plist)
        for sub in (spec[2] if len(spec) > 2 else []):
            c.attrs["subcomponents"].append(mk(sub))
        return c
    props(cal, case.get("cal", []))
    for z in case["zones"]:
        tz = it.instantiate(model.cls("cal.Timezone"), [], {})
        if z is not None:
            tz.items["TZID"] = z
        cal.attrs["subcomponents"].append(tz)
    for spec in case["comps"]:
        cal.attrs["subcomponents"].append(mk(spec))
    present = {z for z in case["zones"] if z is not None}
    return cal, used, present


def _as_set(it, v):
    if isinstance(v, (set, frozenset, list, tuple)):
        return {it._str(x) if not isinstance(x, str) and x is not None else x for x in v}
    raise Unsupported(f"not a collection of ids: {v!r}")


def explore_tzids(ctx):
    model = ctx.model
    fails = []
    n = 0

    def note(law, desc, **d):
        fails.append((law, desc, d))

    for case in TZ_CASES:
        it = TzidInterp(model)
        try:
            cal, used, present = _build_tz_case(it, case)
            n += 1
            try:
                got = _as_set(it, it.call(it.getattr(cal, "get_used_tzids"), [], {}))
                if got != used:
                    note("used", f"get_used_tzids reports {sorted(map(str, got))}, the TZID parameters in "
                         f"the tree are {sorted(used)}", case=case["name"])
            except AbsRaise as e:
                note("used-total", f"get_used_tzids raises {e.cls_name}", case=case["name"])
            n += 1
            try:
                got = _as_set(it, it.call(it.getattr(cal, "get_missing_tzids"), [], {}))
                if got != used - present:
                    note("missing", f"get_missing_tzids reports {sorted(map(str, got))}, expected "
                         f"{sorted(used - present)}", case=case["name"])
            except AbsRaise as e:
                note("missing-total", f"get_missing_tzids raises {e.cls_name}", case=case["name"])
            n += 1
            try:
                before = len(cal.attrs["subcomponents"])
                it.call(it.getattr(cal, "add_missing_timezones"), [], {})
                zones = [c for c in cal.attrs["subcomponents"] if c.cls.name == "Timezone"]
                ids = [it._str(z.items["TZID"]) for z in zones if "TZID" in z.items]
                known = {u for u in used if _resolves(u)}
                want_added = sorted((used - present) & known)
                added = [it._str(c.items.get("TZID")) for c in cal.attrs["subcomponents"][before:]]
                if sorted(added) != want_added:
                    note("close", f"add_missing_timezones added {added}, expected exactly {want_added}",
                         case=case["name"])
                elif added != want_added:
                    note("close-order", f"add_missing_timezones adds in the order {added}; a "
                         f"reproducible (sorted) order is {want_added}", case=case["name"])
                still = _as_set(it, it.call(it.getattr(cal, "get_missing_tzids"), [], {}))
                if still != (used - present) - known:
                    note("close", f"after add_missing_timezones the missing set is {sorted(map(str, still))}, "
                         f"expected the unknown ids {sorted((used - present) - known)}",
                         case=case["name"])
                n2 = len(cal.attrs["subcomponents"])
                it.call(it.getattr(cal, "add_missing_timezones"), [], {})
                if len(cal.attrs["subcomponents"]) != n2:
                    note("idempotent", "a second add_missing_timezones adds components again",
                         case=case["name"])
            except AbsRaise as e:
                note("close-total", f"add_missing_timezones raises {e.cls_name}", case=case["name"])
        except Unsupported as e:
            raise AnalysisError(f"time zone discovery leaves the abstract interface on case "
                                f"{case['name']!r}: {e}")
    return n, fails


LAWS["explore_tzids"] = ["used ids = TZID parameters of every value of every nested component",
                         "missing = used minus VTIMEZONEs present", "queries never fail",
                         "add_missing_timezones adds exactly the known missing ids",
                         "unknown ids stay missing", "second call adds nothing"]
ALIAS.update({"used": LAWS["explore_tzids"][0], "missing": LAWS["explore_tzids"][1],
              "used-total": "get_used_tzids never fails", "missing-total": "get_missing_tzids never fails",
              "close": LAWS["explore_tzids"][3], "close-order": "added in sorted order",
              "close-total": "add_missing_timezones fails only for nothing",
              "idempotent": LAWS["explore_tzids"][5]})


# ---------------------------------------------------------------------------
# C01 / C12: building a time zone from a parsed VTIMEZONE must not change the component
def _snapshot(it, c):
    return (c.cls.name, tuple((k, id(v) if isinstance(v, Obj) else repr(v)) for k, v in c.items.items()),
            tuple(_snapshot(it, s) for s in c.attrs.get("subcomponents", [])))


def explore_create_timezone(ctx):
    """ZONEINFO.create_timezone / PYTZ.create_timezone on a VTIMEZONE whose first
    conversion attempt is refused (the retry path strips X- properties): the
    component handed in - the one the parser returns - must be left unchanged."""
    model = ctx.model
    fails = []
    n = 0
    for cq in ("timezone.zoneinfo.ZONEINFO", "timezone.pytz.PYTZ"):
        ci = model.cls(cq)
        f = model.lookup_method(ci, "create_timezone")
        if f is None:
            raise AnalysisError(f"anchor vanished: {cq}.create_timezone")
        for refuse_first in (True, False):
            it = TreeInterp(model)
            calls = []

            def inner(self_, args, kwargs, calls=calls, refuse_first=refuse_first):
                calls.append(args[-1])
                if refuse_first and len(calls) == 1:
                    raise AbsRaise("ValueError", "dateutil refuses the component")
                return ("tzinfo", len(calls))
            helper = model.lookup_method(ci, "_create_timezone")
            if helper is None:
                continue        # this provider converts in one step; nothing to stub
            it.contracts[helper.qualname] = inner
            tz = it.instantiate(model.cls("cal.Timezone"), [], {})
            tz.items["TZID"] = "Custom/Zone"
            tz.items["X-LIC-LOCATION"] = "Custom/Zone"
            for q in ("cal.TimezoneStandard", "cal.TimezoneDaylight"):
                sub = it.instantiate(model.cls(q), [], {})
                sub.items["TZNAME"] = "X"
                sub.items["X-OBSERVANCE-SOURCE"] = "somewhere"
                tz.attrs["subcomponents"].append(sub)
            before = _snapshot(it, tz)
            n += 1
            try:
                prov = Obj(ci)
                it.call(Bound(Closure(f), prov), [tz], {})
            except AbsRaise as e:
                fails.append(("pure", f"{ci.name}.create_timezone raises {e.cls_name} on the retry path",
                              dict(provider=ci.name)))
                continue
            except Unsupported as e:
                raise AnalysisError(f"{cq}.create_timezone leaves the abstract interface: {e}")
            if _snapshot(it, tz) != before:
                fails.append(("pure", f"{ci.name}.create_timezone modifies the VTIMEZONE component it is "
                              f"given (the one Component.from_ical returns): properties of it or of its "
                              f"observances are removed", dict(provider=ci.name, retry=refuse_first)))
    return n, fails


LAWS["explore_create_timezone"] = ["pure"]
ALIAS["pure"] = "pure"
