"""Exploration of the parse loop Component.from_ical with the abstract
interpreter (E7) on abstract line sequences.

Lines are tokens (name, params, value text); line splitting, the value
decoders and the VTIMEZONE cache are replaced by recording stubs, so what is
explored is exactly the loop's own control and data flow: the component
stack, attachment of parameters, naming of unknown components, TZID
forwarding, lenient handling and the single/multiple result.  Every sequence
of an alphabet of line kinds up to a bound is run and compared with a
reference model written from the property statements (C01, C04, C09, C11).
This is robust against refactorings of the loop, which the syntactic rules
are not.
"""
from __future__ import annotations

import itertools
from collections import OrderedDict

from .core import AnalysisError
from .core import model_token
from .absint import (TZ, Interp, Obj, ClassVal, AbsRaise, Unsupported, Native, NativeObj, Closure)
from .oracles import rfc

TZ_NAMES = set(rfc.TZID_ADMITTING) | {"FREEBUSY"}


REAL_CODECS = {"ATTENDEE", "ORGANIZER"}


class StubFactory:
    """Stands for the codec class chosen by types_factory.for_property(name)."""

    def __init__(self, name, log):
        self.name = name
        self.log = log


class ParseInterp(Interp):
    def __init__(self, model):
        super().__init__(model)
        self.log = []
        self.contracts["parser.Contentlines.from_ical"] = ParseInterp._lines
        self.contracts["parser.Contentline.parts"] = ParseInterp._parts

    def _lines(self, args, kwargs):
        return list(args[-1])

    def cached_ids(self):
        out = set()
        for c in self.log:
            if c[0] == "cache" and isinstance(c[1], Obj) and c[1].items is not None and "TZID" in c[1].items:
                v = c[1].items["TZID"]
                d = v.attrs.get("decoded") if isinstance(v, Obj) else None
                out.add(d[2] if isinstance(d, tuple) and d[0] == "decoded" else self._str(v))
        return out

    def norm_tz(self, tz):
        """What the decoder gets, as the zone it denotes *now*: a tzinfo object or an id the
        provider can resolve at this point of the parse; None otherwise."""
        if isinstance(tz, TZ):
            return tz.key_
        if isinstance(tz, Obj) and tz.strval is not None:
            tz = tz.strval
        if isinstance(tz, str):
            return tz.strip("/") if _resolves(tz, self.cached_ids()) else None
        return tz

    def _parts(self, args, kwargs):
        line = args[0]
        if line.attrs.get("_pl_bad"):
            raise AbsRaise("ValueError", "Content line could not be parsed into parts")
        name, params, vals = line.attrs["_pl_parts"]
        p = self.instantiate(self.model.cls("parser.Parameters"), [], {})
        for k, v in params.items():
            p.items[k.upper()] = v
        return (name, p, vals)

    def _native_obj_attr(self, o, name):
        if o.name == "types_factory" and name == "for_property":
            def for_property(i, a, k):
                nm = self._str(a[0])
                # the factory method as written, with every argument the loop passes
                # (an exception raised in there leaves the loop like any other)
                tf = self.__dict__.get("_tf_instance")
                if tf is None:
                    tf = self.instantiate(self.model.cls("prop.TypesFactory"), [], {})
                    self.__dict__["_tf_instance"] = tf
                real = self.call(self.getattr(tf, "for_property"), list(a), dict(k))
                self.log.append(("codec", nm, real.ci.name if isinstance(real, ClassVal) else repr(real)))
                if nm.upper() in REAL_CODECS:
                    # the real codec class (text-like: interpreted as written), so that
                    # sharing of value objects between lines is visible
                    return ClassVal(self.model.class_for_property(nm))
                return StubFactory(nm, self.log)
            return Native("for_property", for_property)
        if o.name == "tzp" and name == "cache_timezone_component":
            return Native("cache", lambda i, a, k: self.log.append(("cache", a[0])))
        if o.name == "tzp" and name == "timezone":
            # contract: an id the provider knows, or one whose VTIMEZONE was cached before
            def timezone(i, a, k):
                tzid = self._str(a[0])
                return TZ("zone", tzid.strip("/"), self.provider) if _resolves(tzid, self.cached_ids()) else None
            return Native("tzp.timezone", timezone)
        if o.name == "component_factory":
            # the factory as written: an instance built by interpreting ComponentFactory.__init__
            cf = self.__dict__.get("_cf_instance")
            if cf is None:
                cf = self.instantiate(self.model.cls("cal.ComponentFactory"), [], {})
                self.__dict__["_cf_instance"] = cf
            return self.getattr(cf, name)
        return super()._native_obj_attr(o, name)

    def getattr(self, o, name):
        if isinstance(o, StubFactory):
            if name == "from_ical":
                def from_ical(i, a, k):
                    val = a[0]
                    tz = a[1] if len(a) > 1 else k.get("timezone")
                    if isinstance(val, str) and val.startswith("BAD"):
                        raise AbsRaise("ValueError", "cannot decode")
                    return ("decoded", o.name, val, self.norm_tz(tz))
                return Native("stub.from_ical", from_ical)
            raise Unsupported(f"stub codec attribute {name}")
        return super().getattr(o, name)

    def call(self, f, args, kwargs):
        if isinstance(f, StubFactory):
            d = args[0]
            if isinstance(d, tuple) and len(d) == 4 and d[0] == "decoded" and d[2] == "":
                # an empty value is a *falsy* object (like vText(''), vInt(0))
                v = self.instantiate(self.model.cls("prop.vText"), [""], {})
            else:
                v = Obj(None)
            v.attrs["decoded"] = d
            return v
        return super().call(f, args, kwargs)

    def _isinstance(self, i, a, k):
        ts = a[1] if isinstance(a[1], tuple) else (a[1],)
        if any(isinstance(t, StubFactory) for t in ts):
            rest = tuple(t for t in ts if not isinstance(t, StubFactory))
            return bool(rest) and super()._isinstance(i, (a[0], rest), k)
        return super()._isinstance(i, a, k)

    def truth(self, v):
        if isinstance(v, StubFactory):
            return True
        return super().truth(v)


def mk_line(it, text_name, params, value, bad_line=False):
    cl = it.model.cls("parser.Contentline")
    o = Obj(cl)
    o.strval = f"{text_name}:{value}"
    o.attrs["_pl_parts"] = (text_name, params, value)
    o.attrs["_pl_bad"] = bad_line
    o.attrs["strict"] = False
    return o


# line kinds: (label, name, params, value, bad_line)
ALPHABET = [
    ("BEGIN:VCALENDAR", "BEGIN", {}, "VCALENDAR", False),
    ("begin:vevent", "begin", {}, "vevent", False),
    ("BEGIN:VTODO", "BEGIN", {}, "VTODO", False),
    ("BEGIN:X-Custom", "BEGIN", {}, "X-Custom", False),
    ("END", "END", {}, "ANY", False),
    ("end", "end", {}, "any", False),
    ("SUMMARY:a", "SUMMARY", {"LANGUAGE": "en"}, "a", False),
    ("dtstart;tzid=Z:v", "dtstart", {"tzid": "Z"}, "v", False),
    ("FREEBUSY;TZID=Z:a,b", "FREEBUSY", {"TZID": "Z"}, "a,b", False),
    ("SUMMARY:BAD", "SUMMARY", {}, "BADvalue", False),
    ("<bad line>", "", {}, "", True),
    ("COMMENT:", "COMMENT", {}, "", False),
    ("COMMENT:x", "COMMENT", {"X": "1"}, "x", False),
]
EXTRA = [
    ("X-COMMENT:c", "X-COMMENT", {}, "c", False),
    ("RDATE;TZID=Z:v", "RDATE", {"TZID": "Z"}, "v", False),
    ("freebusy:a,b", "freebusy", {}, "a,b", False),
    ("COMMENT;TZID=Z:v", "COMMENT", {"TZID": "Z"}, "v", False),
    ("END:VTIMEZONE", "END", {}, "vtimezone", False),
    ("BEGIN:VTIMEZONE", "BEGIN", {}, "VTIMEZONE", False),
    ("TZID:Zone", "TZID", {}, "Zone", False),
    ("ATTENDEE;CN=A:mailto:x", "ATTENDEE", {"CN": "A"}, "mailto:x", False),
    ("ATTENDEE;ROLE=B:mailto:x", "ATTENDEE", {"ROLE": "B"}, "mailto:x", False),
    ("ORGANIZER;CN=C:mailto:x", "ORGANIZER", {"CN": "C"}, "mailto:x", False),
    ("dtstart;tzid=Zone:v", "dtstart", {"tzid": "Zone"}, "v", False),
    ("DTSTART;TZID=Etc/GMT+5:v", "DTSTART", {"TZID": "Etc/GMT+5"}, "v", False),
    ("RDATE;TZID=Etc/GMT-5:v", "RDATE", {"TZID": "Etc/GMT-5"}, "v", False),
    ("DTEND;TZID=America/New_York:v", "DTEND", {"TZID": "America/New_York"}, "v", False),
    ("RDATE;TZID=/Zone:v", "RDATE", {"TZID": "/Zone"}, "v", False),
    ("FREEBUSY:a,BADb", "FREEBUSY", {}, "a,BADb", False),
    ("FREEBUSY:BADa,b", "FREEBUSY", {}, "BADa,b", False),
    ("X-FOO;VALUE=DATE:v", "X-FOO", {"VALUE": "DATE"}, "v", False),
    ("X-FOO;VALUE=A,B:v", "X-FOO", {"VALUE": ["A", "B"]}, "v", False),
    ("X-FOO;VALUE=DATE:v,w", "X-FOO", {"VALUE": "DATE"}, "v,w", False),
    ("DTSTART;VALUE=DATE,PERIOD:v", "DTSTART", {"VALUE": ["DATE", "PERIOD"]}, "v", False),
]


KNOWN_TZIDS = {"Z", "Europe/Berlin", "UTC", "Etc/GMT+5", "Etc/GMT-5", "America/New_York"}     # ids the (modelled) provider knows; others need a VTIMEZONE


def _resolves(tzid, cached_ids):
    t = tzid.strip("/")
    return t in KNOWN_TZIDS or t in cached_ids or tzid in cached_ids


def _pv(v):
    return tuple(v) if isinstance(v, list) else v


class RefComp:
    def __init__(self, cls_name, name, lenient):
        self.cls_name, self.name, self.lenient = cls_name, name, lenient
        self.items = OrderedDict()
        self.subs = []
        self.errors = []

    def struct(self):
        return (self.cls_name, self.name,
                tuple((k, tuple(v)) for k, v in self.items.items()),
                tuple(s.struct() for s in self.subs), tuple(self.errors))


def reference(model, lines, multiple):
    """The parse loop as the property statements describe it."""
    reg = {k: ci for k, (ci, _) in model.component_registry().items()}
    stack, comps, cached = [], [], []
    cached_ids = set()
    for label, name, params, value, bad in lines:
        if bad:
            top = stack[-1] if stack else None
            if top is None or not top.lenient:
                return ("raise", "ValueError"), cached
            top.errors.append((None,))
            continue
        uname = name.upper()
        if uname == "BEGIN":
            cname = value.upper()
            ci = reg.get(cname)
            lenient = bool(ci is not None and model.const(*_ign(model, ci)))
            stack.append(RefComp(ci.name if ci else "Component", cname, lenient))
        elif uname == "END":
            if not stack:
                return ("raise", "ValueError"), cached
            c = stack.pop()
            if stack:
                stack[-1].subs.append(c)
            else:
                comps.append(c)
            if value.upper() == "VTIMEZONE" and "TZID" in c.items:
                cached.append(c.name)
                cached_ids.add(c.items["TZID"][0][0])
        else:
            top = stack[-1] if stack else None
            if top is None:
                if uname == "X-COMMENT":
                    break
                return ("raise", "ValueError"), cached
            raw = value.split(",") if uname == "FREEBUSY" else [value]
            tz = None
            pu = {k.upper(): v for k, v in params.items()}
            if "TZID" in pu and uname in TZ_NAMES:
                tz = pu["TZID"].strip("/") if _resolves(pu["TZID"], cached_ids) else None
            if any(v.startswith("BAD") for v in raw):
                if not top.lenient:
                    return ("raise", "ValueError"), cached
                top.errors.append((uname,))
                continue
            for v in raw:
                top.items.setdefault(uname, []).append((v, tz, tuple(sorted((k, _pv(x)) for k, x in pu.items()))))
    if multiple:
        return ("ok", tuple(c.struct() for c in comps)), cached
    if len(comps) != 1:
        return ("raise", "ValueError"), cached
    return ("ok", (comps[0].struct(),)), cached


def _ign(model, ci):
    o, e = model.lookup_attr(ci, "ignore_exceptions")
    return e, o.module, o


def observed_struct(it, comp):
    items = []
    for k, v in comp.items.items():
        vals = v if isinstance(v, list) else [v]
        row = []
        for x in vals:
            d = x.attrs.get("decoded") if isinstance(x, Obj) else None
            p = x.attrs.get("params") if isinstance(x, Obj) else None
            ps = tuple(sorted((kk, _pv(vv)) for kk, vv in p.items.items())) if isinstance(p, Obj) and p.items is not None else None
            if isinstance(d, tuple) and d and d[0] == "decoded":
                row.append((d[2], d[3], ps))
            elif isinstance(x, Obj) and x.strval is not None:
                row.append((x.strval, None, ps))        # a real text-like codec value
            else:
                row.append(("?", None, ps))
        items.append((k, tuple(row)))
    name = it.getattr(comp, "name")
    errs = tuple((e[0],) for e in comp.attrs.get("errors", []))
    return (comp.cls.name, name, tuple(items),
            tuple(observed_struct(it, s) for s in comp.attrs.get("subcomponents", [])), errs)


def run_sequence(model, fi_cls, lines, multiple):
    it = ParseInterp(model)
    objs = [mk_line(it, n, p, v, b) for (_, n, p, v, b) in lines]
    term = Obj(model.cls("parser.Contentline"))
    term.strval = ""
    term.attrs["_pl_parts"] = ("", {}, "")
    objs.append(term)
    f = model.lookup_method(fi_cls, "from_ical")
    try:
        res = it.call(Closure(f), [ClassVal(fi_cls), objs], {"multiple": multiple})
    except AbsRaise as e:
        chain = it.exc_bases(e.cls_name)
        cached = [it.getattr(c[1], "name") for c in it.log if c[0] == "cache"]
        return ("raise", "ValueError" if "ValueError" in chain else e.cls_name), cached
    cached = [it.getattr(c[1], "name") for c in it.log if c[0] == "cache"]
    comps = res if isinstance(res, list) else [res]
    return ("ok", tuple(observed_struct(it, c) for c in comps)), cached


def explore(ctx, max_len, extra_sequences=True):
    """-> (n sequences, list of (labels, multiple, got, expected))."""
    model = ctx.model
    cls = model.cls("cal.Component")
    seqs = []
    for n in range(0, max_len + 1):
        for tup in itertools.product(ALPHABET, repeat=n):
            seqs.append(list(tup))
    if extra_sequences:
        A = {a[0]: a for a in ALPHABET + EXTRA}
        curated = [
            ["BEGIN:VCALENDAR", "BEGIN:VTIMEZONE", "TZID:Zone", "END:VTIMEZONE", "begin:vevent",
             "dtstart;tzid=Z:v", "SUMMARY:a", "SUMMARY:a", "END", "END"],
            ["BEGIN:VCALENDAR", "begin:vevent", "BEGIN:X-Custom", "SUMMARY:a", "END", "SUMMARY:BAD",
             "<bad line>", "RDATE;TZID=Z:v", "end", "BEGIN:VTODO", "COMMENT;TZID=Z:v", "END", "END"],
            ["BEGIN:VCALENDAR", "END", "BEGIN:VCALENDAR", "END"],
            ["BEGIN:VCALENDAR", "END", "X-COMMENT:c", "SUMMARY:a"],
            ["BEGIN:VTODO", "freebusy:a,b", "FREEBUSY;TZID=Z:a,b", "END"],
            ["BEGIN:VTODO", "SUMMARY:a", "SUMMARY:BAD", "END"],
            ["begin:vevent", "begin:vevent", "begin:vevent", "SUMMARY:a", "end", "end", "end"],
            ["BEGIN:VTIMEZONE", "END:VTIMEZONE"],
            ["BEGIN:VCALENDAR", "begin:vevent", "ATTENDEE;CN=A:mailto:x", "ATTENDEE;ROLE=B:mailto:x",
             "ORGANIZER;CN=C:mailto:x", "END", "BEGIN:VTODO", "ATTENDEE;ROLE=B:mailto:x", "END", "END"],
            ["BEGIN:VTODO", "COMMENT:", "COMMENT:x", "COMMENT:", "COMMENT:x", "END"],
            ["BEGIN:VTODO", "COMMENT:x", "COMMENT:", "END"],
            ["BEGIN:VCALENDAR", "BEGIN:VTIMEZONE", "TZID:Zone", "END:VTIMEZONE", "begin:vevent",
             "dtstart;tzid=Zone:v", "RDATE;TZID=/Zone:v", "END", "END"],
            ["BEGIN:VCALENDAR", "begin:vevent", "dtstart;tzid=Zone:v", "END", "BEGIN:VTIMEZONE", "TZID:Zone",
             "END:VTIMEZONE", "begin:vevent", "dtstart;tzid=Zone:v", "dtstart;tzid=Z:v", "END", "END"],
            ["BEGIN:VTODO", "DTSTART;TZID=Etc/GMT+5:v", "RDATE;TZID=Etc/GMT-5:v", "DTEND;TZID=America/New_York:v",
             "END"],
            ["begin:vevent", "SUMMARY:a", "FREEBUSY:a,BADb", "COMMENT:x", "END"],
            ["begin:vevent", "FREEBUSY:BADa,b", "FREEBUSY;TZID=Z:a,b", "END"],
            ["BEGIN:VTODO", "FREEBUSY:a,BADb", "END"],
            ["begin:vevent", "X-FOO;VALUE=DATE:v", "X-FOO;VALUE=A,B:v", "X-FOO;VALUE=DATE:v,w", "END"],
            ["BEGIN:VTODO", "X-FOO;VALUE=A,B:v", "DTSTART;VALUE=DATE,PERIOD:v", "END"],
        ]
        for c in curated:
            seqs.append([A[x] for x in c])
    bad = []
    n = 0
    for seq in seqs:
        for multiple in (False, True):
            n += 1
            try:
                got = run_sequence(model, cls, seq, multiple)
            except Unsupported as e:
                raise AnalysisError(f"parse loop leaves the abstract interface on "
                                    f"{[s[0] for s in seq]}: {e}")
            exp = reference(model, seq, multiple)
            if got != exp:
                bad.append(([s[0] for s in seq], multiple, got, exp, seq))
    return n, bad


def classify(labels, got, exp):
    """A coarse cause for a deviating sequence (one finding key per cause)."""
    (g, gc), (e, ec) = got, exp
    if g[0] != e[0]:
        if g[0] == "raise":
            return f"raises {g[1]} where a result is expected"
        return f"returns a result where {e[1]} is expected"
    if g[0] == "raise":
        return f"raises {g[1]} instead of {e[1]}"
    if gc != ec:
        return "VTIMEZONE caching differs"

    def walk(a, b, path="top"):
        if len(a) != len(b):
            return f"number of components differs at {path}"
        for x, y in zip(a, b):
            if x[0] != y[0]:
                return "component class differs"
            if x[1] != y[1]:
                return "component name differs"
            if x[2] != y[2]:
                kx, ky = [k for k, _ in x[2]], [k for k, _ in y[2]]
                if kx != ky:
                    return "stored property names differ"
                for (k, vx), (_, vy) in zip(x[2], y[2]):
                    if vx != vy:
                        if [v[:1] for v in vx] != [v[:1] for v in vy]:
                            return "decoded values differ (splitting / accumulation)"
                        if [v[1] for v in vx] != [v[1] for v in vy]:
                            return "TZID forwarding differs"
                        return "attached parameters differ"
            if x[4] != y[4]:
                return "recorded errors differ"
            r = walk(x[3], y[3], path + "/" + str(x[1]))
            if r:
                return r
        return None
    return walk(g[1], e[1]) or "structures differ"


# ---------------------------------------------------------------------------
def _upper_line(line):
    label, name, params, value, bad = line
    if bad:
        return line
    nv = value.upper() if name.upper() in ("BEGIN", "END") else value
    return (label, name.upper(), {k.upper(): v for k, v in params.items()}, nv, bad)


_CACHE = {}


def deviations(ctx, max_len=None):
    """All deviating (sequence, mode) pairs, each with a cause, whether the
    sequence contains an undecodable line/value, and whether the deviation
    disappears when names are upper-cased (a pure letter-case defect)."""
    if max_len is None:
        max_len = 4 if ctx.thorough else 3
    key = (model_token(ctx.model), max_len)
    if key in _CACHE:
        return _CACHE[key]
    n, bad = explore(ctx, max_len)
    cls = ctx.model.cls("cal.Component")
    out = []
    for labels, multiple, got, exp, seq in bad:
        useq = [_upper_line(l) for l in seq]
        case_only = False
        if useq != seq:
            case_only = run_sequence(ctx.model, cls, useq, multiple) == reference(ctx.model, useq, multiple)
        out.append(dict(labels=labels, multiple=multiple, got=got, exp=exp,
                        cause=classify(labels, got, exp),
                        has_bad=any(l[4] or any(v.startswith("BAD") for v in l[3].split(",")) for l in seq),
                        case_only=case_only))
    _CACHE[key] = (n, out)
    return n, out


def report(ctx, rule, select, what, n_floor=200, laws=()):
    """Fail once per cause for the deviations `select` keeps (shortest
    sequence as witness); record what was explored."""
    fi = ctx.model.func("cal.Component.from_ical")
    n, devs = deviations(ctx)
    if n < n_floor:
        raise AnalysisError(f"{rule}: only {n} line sequences explored")
    by_cause = {}
    for d in devs:
        if not select(d):
            continue
        cur = by_cause.get(d["cause"])
        if cur is None or len(d["labels"]) < len(cur["labels"]):
            by_cause[d["cause"]] = d
    for cause, d in sorted(by_cause.items()):
        ctx.fail(rule, cause,
                 f"Component.from_ical on the line sequence {d['labels']} "
                 f"(multiple={d['multiple']}): {cause}; observed {_short(d['got'])}, "
                 f"the property requires {_short(d['exp'])}", fi.loc(),
                 witness={"lines": d["labels"], "multiple": d["multiple"],
                          "observed": repr(d["got"]), "required": repr(d["exp"])})
    if not by_cause:
        for law in (laws or (what,)):
            ctx.ok(rule, law, fi.loc(),
                   detail=f"{what}: {n} (line sequence, mode) pairs over {len(ALPHABET)} line kinds "
                          f"agree with the reference model")
    ctx.extra["parse_loop_sequences"] = n
    return n


def _short(o, n=260):
    s = repr(o)
    return s if len(s) <= n else s[:n] + "…"


def tzid_probe(ctx):
    """For every registered property name: does the parse loop hand the
    TZID parameter to the decoder?  -> {NAME: 'forwarded' | 'dropped' |
    'raises <cls>'}, probed with and without a TZID parameter."""
    key = (model_token(ctx.model), "tzid")
    if key in _CACHE:
        return _CACHE[key]
    model = ctx.model
    cls = model.cls("cal.Component")
    tm, _ = model.types_map()
    names = sorted(set(tm) | set(rfc.TZID_ADMITTING) | {"FREEBUSY", "X-UNKNOWN"})
    out = {}
    for nm in names + [x.lower() for x in names]:
        res = []
        for params in ({"TZID": "Z"} if nm.isupper() or not nm.islower() else {"tzid": "Z"}, {}):
            seq = [("b", "BEGIN", {}, "VTODO", False), ("p", nm, params, "v", False),
                   ("e", "END", {}, "VTODO", False)]
            try:
                got, _ = run_sequence(model, cls, seq, False)
            except Unsupported as e:
                raise AnalysisError(f"parse loop leaves the abstract interface on {nm}: {e}")
            if got[0] == "raise":
                res.append(f"raises {got[1]}")
                continue
            items = dict(got[1][0][2])
            vals = items.get(nm.upper())
            if not vals:
                res.append("lost")
            else:
                res.append("forwarded" if vals[0][1] == "Z" else
                           ("dropped" if vals[0][1] is None else f"tz={vals[0][1]!r}"))
        out[nm.upper() if not nm.islower() else nm] = tuple(res)
    _CACHE[key] = out
    return out


RFC_VALUE_SAMPLES = {
    "DATE": ["20240101", "20240101,20240329,20240401"],
    "DATE-TIME": ["20240101T120000Z", "20240101T120000,20240102T120000"],
    "DURATION": ["PT1H", "PT1H,P1D"], "INTEGER": ["3", "1,2,3"], "FLOAT": ["1.5", "1.5,-2.25"],
    "PERIOD": ["20240101T000000Z/PT1H", "20240101T000000Z/PT1H,20240102T000000Z/20240102T010000Z"],
    "TIME": ["120000", "120000,130000Z"], "BOOLEAN": ["TRUE"], "UTC-OFFSET": ["+0100"],
    "RECUR": ["FREQ=DAILY;COUNT=2"], "URI": ["http://example.com/a,b"], "CAL-ADDRESS": ["mailto:a@example.com"],
    "TEXT": ["a\\, b", "a,b"],
}


def value_probe(ctx):
    """Does the parse loop let the VALUE parameter choose the codec of a property without an
    RFC type?  If so, every RFC-valid value form of that type (single values and the comma
    lists RFC 5545 3.1.2 allows) must be accepted by the codec that is chosen - otherwise a
    well-formed line is dropped or fails the parse.
    -> (n probes, [(value type, codec class, sample, exception)])"""
    model = ctx.model
    cls = model.cls("cal.Component")
    bad = []
    n = 0
    chosen = {}
    for vt in [None] + sorted(RFC_VALUE_SAMPLES):
        params = {"VALUE": vt} if vt else {}
        seq = [("b", "BEGIN", {}, "VTODO", False), ("p", "X-PROBE", params, "v", False),
               ("e", "END", {}, "VTODO", False)]
        it = ParseInterp(model)
        objs = [mk_line(it, nm, p, v, b) for (_, nm, p, v, b) in seq]
        term = Obj(model.cls("parser.Contentline"))
        term.strval = ""
        term.attrs["_pl_parts"] = ("", {}, "")
        objs.append(term)
        f = model.lookup_method(cls, "from_ical")
        try:
            it.call(Closure(f), [ClassVal(cls), objs], {})
        except AbsRaise:
            pass
        except Unsupported as e:
            raise AnalysisError(f"parse loop leaves the abstract interface on X-PROBE;VALUE={vt}: {e}")
        codecs = [c[2] for c in it.log if c[0] == "codec" and c[1].upper() == "X-PROBE"]
        chosen[vt] = codecs[-1] if codecs else None
        n += 1
    default = chosen[None]
    from .absint import Interp as _Interp
    for vt, cname in sorted((k, v) for k, v in chosen.items() if k):
        if cname == default or cname is None:
            continue
        ci = next((c for c in model.all_classes() if c.name == cname and c.module.short == "prop"), None)
        if ci is None:
            continue
        for sample in RFC_VALUE_SAMPLES[vt]:
            it = _Interp(model)
            n += 1
            try:
                it.call(it.getattr(ClassVal(ci), "from_ical"), [sample], {})
            except AbsRaise as e:
                bad.append((vt, cname, sample, e.cls_name))
            except Unsupported as e:
                raise AnalysisError(f"{cname}.from_ical({sample!r}) leaves the abstract interface: {e}")
    return n, bad, {k: v for k, v in chosen.items()}


def case_probe(ctx):
    """Names whose lower-case spelling is parsed differently from the
    upper-case one: {NAME: (upper result, lower result)}."""
    pr = tzid_probe(ctx)
    return {k: (v, pr[k.lower()]) for k, v in pr.items()
            if not k.islower() and k.lower() in pr and pr[k.lower()] != v}
