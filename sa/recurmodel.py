"""C19 decided by interpretation (E7): vRecur.to_ical / from_ical /
parse_type and the part codecs (vInt, vMonth, vWeekday, vFrequency, vSkip,
vText, vDDDTypes) are interpreted on rules built from every RFC 5545 / 7529
rule part, alone and combined, in several insertion orders, with scalar and
list values; UNTIL is an abstract date / date-time rendered with position
markers (sa.codecmodel).  The encoded text is read by an independent RECUR
reader (grammar, FREQ first after an optional RSCALE, the values), decoded by
the repository's reader, compared part by part and re-encoded.
"""
from __future__ import annotations

import itertools
import re

from .core import AnalysisError
from .core import model_token
from .absint import Obj, ClassVal, AbsRaise, Unsupported, DT, TD
from .codecmodel import CodecInterp, describe
from .oracles import rfc

# part -> list of (python value as a user supplies it, canonical text of one value)
SAMPLES = {
    "FREQ": [("YEARLY", "YEARLY"), ("daily", "DAILY")],
    "COUNT": [(10, "10"), (0, "0")],
    "INTERVAL": [(2, "2")],
    "BYSECOND": [(0, "0"), (59, "59")],
    "BYMINUTE": [(0, "0"), (30, "30")],
    "BYHOUR": [(0, "0"), (23, "23")],
    "BYDAY": [("MO", "MO"), ("-1SU", "-1SU"), ("+2TU", "+2TU"), ("fr", "FR"), ("53SA", "53SA")],
    "BYMONTHDAY": [(1, "1"), (-1, "-1"), (31, "31")],
    "BYYEARDAY": [(-366, "-366"), (100, "100")],
    "BYWEEKNO": [(20, "20"), (-1, "-1")],
    "BYMONTH": [(5, "5"), ("5L", "5L"), (12, "12")],
    "BYSETPOS": [(-1, "-1"), (1, "1")],
    "WKST": [("MO", "MO"), ("su", "SU")],
    "RSCALE": [("CHINESE", "CHINESE"), ("GREGORIAN", "GREGORIAN")],
    "SKIP": [("OMIT", "OMIT"), ("FORWARD", "FORWARD"), ("BACKWARD", "BACKWARD")],
}
UNTIL = [("date", DT("date", 3, {"d": 2}), "YYYYMMDD"),
         ("utc", DT("utc", 3, {"d": 2}), "YYYYMMDDThhmmssZ"),
         ("naive", DT("naive", 3, {"d": 2}), "YYYYMMDDThhmmss")]

VALUE_RX = {
    "frequency": "|".join(rfc.FREQUENCIES), "integer": r"[+-]?[0-9]+",
    "weekdaynum": rfc.RFC_WEEKDAYNUM, "weekday": "|".join(rfc.WEEKDAYS),
    "month": r"[0-9]{1,2}L?", "text": r"[A-Za-z0-9-]+", "skip": "|".join(rfc.SKIP_VALUES),
    "date-or-date-time": r"YYYYMMDD(Thhmmss(Z)?)?",
}


def norm(it, v):
    """A decoded part value as a comparable Python value."""
    if isinstance(v, Obj):
        if "intval" in v.attrs:
            leap = v.attrs.get("leap")
            return (int(v.attrs["intval"]), bool(leap)) if leap is not None else int(v.attrs["intval"])
        if v.strval is not None:
            return v.strval
    if isinstance(v, DT):
        return ("DT", v.kind, v.rank, tuple(sorted((v.term or {}).items())))
    return v


def want_norm(part, text):
    kind = rfc.RECUR_PARTS.get(part, "text")
    if kind == "integer":
        return int(text)
    if kind == "month":
        return (int(text.rstrip("L")), text.endswith("L"))
    return text


def rules():
    """(label, [(part, [values...] | value)]) in the user's insertion order."""
    out = []
    for part, samples in SAMPLES.items():
        for pv, _ in samples:
            base = [("FREQ", "WEEKLY")] if part != "FREQ" else []
            out.append((f"{part}={pv!r}", base + [(part, pv)]))
        if part not in ("FREQ", "COUNT", "INTERVAL", "WKST", "RSCALE", "SKIP"):
            out.append((f"{part} list", [("FREQ", "MONTHLY"), (part, [pv for pv, _ in samples])]))
            out.append((f"{part} one-element list", [(part, [samples[0][0]]), ("FREQ", "MONTHLY")]))
    for label, v, _ in UNTIL:
        out.append((f"UNTIL {label}", [("FREQ", "DAILY"), ("UNTIL", v)]))
        out.append((f"UNTIL {label} before FREQ", [("UNTIL", v), ("COUNT", 3), ("FREQ", "DAILY")]))
    combos = [
        [("BYSETPOS", -1), ("BYDAY", ["MO", "TU"]), ("FREQ", "MONTHLY"), ("INTERVAL", 2)],
        [("WKST", "SU"), ("BYHOUR", [0, 12]), ("BYMINUTE", 0), ("BYSECOND", 0), ("FREQ", "daily"), ("COUNT", 5)],
        [("SKIP", "FORWARD"), ("FREQ", "YEARLY"), ("RSCALE", "CHINESE"), ("BYMONTH", ["5L", 6])],
        [("BYYEARDAY", [1, -1]), ("BYWEEKNO", 20), ("BYMONTHDAY", [-1]), ("FREQ", "YEARLY"), ("BYMONTH", 3)],
        [("FREQ", "SECONDLY")],
        [("byday", "mo"), ("freq", "weekly")],
    ]
    for i, c in enumerate(combos):
        out.append((f"combination {i}", c))
        out.append((f"combination {i} reversed", list(reversed(c))))
    return out


def rfc_read(text):
    """Independent reader: -> [(PART, [value texts])] or None (not RECUR syntax)."""
    parts = []
    for chunk in text.split(";"):
        m = re.fullmatch(r"([A-Za-z-]+)=(.*)", chunk)
        if not m:
            return None
        name, vals = m.group(1), m.group(2).split(",")
        kind = rfc.RECUR_PARTS.get(name.upper(), "text")
        for v in vals:
            if not re.fullmatch(VALUE_RX[kind], v):
                return None
        parts.append((name, vals))
    return parts


class Findings:
    def __init__(self):
        self.items = {}
        self.n = 0

    def add(self, law, cause, **detail):
        self.items.setdefault((law, cause), detail)


def explore(ctx):
    model = ctx.model
    vr = model.cls("prop.vRecur")
    F = Findings()
    variants = []
    for label, spec in rules():
        variants.append((label, spec, "keywords"))
    # the same parts supplied as a mapping and by item assignment (scalars stay scalars)
    for label, spec in rules():
        if any(isinstance(v, (int, str)) and not isinstance(v, bool) for _, v in spec) and \
                ("=" in label and "list" not in label or label.startswith("combination 1")):
            variants.append((label + " (mapping argument)", spec, "mapping"))
            variants.append((label + " (item assignment)", spec, "items"))
    for label, spec, mode in variants:
        F.n += 1
        it = CodecInterp(model)
        try:
            kwargs = {}
            for part, v in spec:
                kwargs[part] = list(v) if isinstance(v, list) else v
            try:
                if mode == "keywords":
                    rule = it.instantiate(vr, [], dict(kwargs))
                elif mode == "mapping":
                    rule = it.instantiate(vr, [dict(kwargs)], {})
                else:
                    rule = it.instantiate(vr, [], {})
                    for k_, v_ in kwargs.items():
                        it.setitem(rule, k_, v_)
                raw = it.call(it.getattr(rule, "to_ical"), [], {})
            except AbsRaise as e:
                F.add("encodes", f"a rule with {', '.join(p for p, _ in spec)} cannot be built / encoded "
                      f"({e.cls_name})", rule=label)
                continue
            text = raw.decode("utf-8") if isinstance(raw, bytes) else raw
            if not isinstance(text, str):
                raise Unsupported(f"vRecur.to_ical returned {raw!r}")
            shown = describe(text)
            read = rfc_read(shown)
            if read is None:
                F.add("grammar", "the encoded rule is not RECUR syntax (part *(';' part), part = NAME '=' "
                      "value *(',' value), values of the part's RFC type)", rule=label, text=shown)
                continue
            names = [n for n, _ in read]
            if names != [n.upper() for n in names]:
                F.add("grammar", "rule part names are not written in upper case", rule=label, text=shown)
            head = [n for n in names if n in ("RSCALE", "FREQ")]
            if "FREQ" in names and names[:len(head)] != sorted(head, key=["RSCALE", "FREQ"].index):
                F.add("FREQ first", "FREQ (after an optional RSCALE) does not lead the encoded rule",
                      rule=label, text=shown)
            want = {}
            for part, v in spec:
                vs = v if isinstance(v, list) else [v]
                canon = []
                for x in vs:
                    if isinstance(x, DT):
                        canon.append(next(sh for _, d, sh in UNTIL if d is x))
                    else:
                        canon.append(next(t for pv, t in SAMPLES[part.upper()] if pv == x)
                                     if part.upper() in SAMPLES and
                                     any(pv == x for pv, _ in SAMPLES[part.upper()]) else str(x).upper())
                want[part.upper()] = canon
            got = {n.upper(): vals for n, vals in read}
            if sorted(got) != sorted(want) or len(read) != len(want):
                F.add("every part", "the encoded rule does not hold exactly the parts supplied",
                      rule=label, text=shown, supplied=sorted(want))
            else:
                for p in want:
                    if got[p] != want[p]:
                        F.add("values", f"part {p} is written with other values than supplied "
                              f"(order, count or spelling)", rule=label, text=shown, supplied=want[p])
            # the repository's reader
            try:
                back = it.call(it.getattr(ClassVal(vr), "from_ical"), [text], {})
            except AbsRaise as e:
                F.add("decodes", f"the encoded rule is rejected by vRecur.from_ical ({e.cls_name})",
                      rule=label, text=shown)
                continue
            if not (isinstance(back, Obj) and back.items is not None):
                raise Unsupported(f"vRecur.from_ical returned {back!r}")
            bkeys = list(back.items.keys())
            if bkeys != [n.upper() for n in names]:
                F.add("same order", "decoding does not yield the parts in the order of the text",
                      rule=label, text=shown, decoded=bkeys)
            for p, vals in back.items.items():
                vs = vals if isinstance(vals, list) else [vals]
                if p not in want:
                    continue
                gotv = [norm(it, x) for x in vs]
                expv = []
                for x, t in zip((spec_v(spec, p)), want[p]):
                    expv.append(norm(it, x) if isinstance(x, DT) else want_norm(p, t))
                if gotv != expv:
                    F.add("typed values", f"part {p} decodes to other typed values than were encoded",
                          rule=label, text=shown, decoded=repr(gotv), expected=repr(expv))
            try:
                raw2 = it.call(it.getattr(back, "to_ical"), [], {})
                text2 = raw2.decode("utf-8") if isinstance(raw2, bytes) else raw2
                if text2 != text:
                    F.add("stable", "encoding the decoded rule gives another text", rule=label,
                          text=shown, again=describe(text2))
            except AbsRaise as e:
                F.add("stable", f"the decoded rule cannot be encoded again ({e.cls_name})", rule=label,
                      text=shown)
        except Unsupported as e:
            raise AnalysisError(f"vRecur leaves the abstract interface on rule [{label}]: {e}")
    # what the decoder returns is the caller's: editing it must not change a later decode
    for text in ("FREQ=WEEKLY;BYDAY=MO,TU;BYHOUR=0,12", "FREQ=YEARLY;BYMONTH=5L,6;COUNT=3"):
        F.n += 1
        it = CodecInterp(model)
        try:
            frm = it.getattr(ClassVal(vr), "from_ical")
            first = it.call(frm, [text], {})
            before = {k: [norm(it, x) for x in (v if isinstance(v, list) else [v])]
                      for k, v in first.items.items()}
            for k, v in list(first.items.items()):
                if isinstance(v, list):
                    v.append(v[0])
            second = it.call(frm, [text], {})
            after = {k: [norm(it, x) for x in (v if isinstance(v, list) else [v])]
                     for k, v in second.items.items()}
            if after != before:
                F.add("history", "decoding the same rule text again gives other values after the first "
                      "result was edited in place (decoded value lists are shared with a cache)",
                      text=text, first=repr(before), second=repr(after))
            # and an encoded rule follows in-place edits of its value lists
            third = it.call(frm, [text], {})
            t1 = it.call(it.getattr(third, "to_ical"), [], {})
            for k, v in list(third.items.items()):
                if isinstance(v, list) and len(v) > 1:
                    v.pop()
            t2 = it.call(it.getattr(third, "to_ical"), [], {})
            fresh = it.call(it.getattr(it.call(frm, [t2.decode() if isinstance(t2, bytes) else t2], {}),
                                       "to_ical"), [], {})
            if t2 == t1 or t2 != fresh:
                F.add("history", "encoding a rule again after its value lists were edited in place gives "
                      "the text of the earlier state", text=text,
                      after_edit=describe(t2.decode() if isinstance(t2, bytes) else str(t2)))
        except AbsRaise as e:
            F.add("history", f"decoding / re-encoding a rule twice raises {e.cls_name}", text=text)
        except Unsupported as e:
            raise AnalysisError(f"vRecur history check leaves the abstract interface: {e}")
    # reader on RFC texts (independent of the writer)
    texts = [("FREQ=DAILY;COUNT=10", ["FREQ", "COUNT"]),
             ("FREQ=WEEKLY;UNTIL=" + "YYYYMMDDThhmmssZ;WKST=SU;BYDAY=TU,TH", ["FREQ", "UNTIL", "WKST", "BYDAY"]),
             ("RSCALE=CHINESE;FREQ=YEARLY;BYMONTH=5L;SKIP=OMIT", ["RSCALE", "FREQ", "BYMONTH", "SKIP"]),
             ("FREQ=MONTHLY;BYDAY=-1MO,+2TU,3WE;BYSETPOS=-1,1", ["FREQ", "BYDAY", "BYSETPOS"]),
             ("freq=yearly;bymonth=1,2;byhour=0", ["FREQ", "BYMONTH", "BYHOUR"]),
             ("FREQ=YEARLY;BYMONTH=11;BYDAY=1SU;", ["FREQ", "BYMONTH", "BYDAY"])]
    from .codecmodel import markers, FIELDS
    for shown, order in texts:
        F.n += 1
        it = CodecInterp(model)
        text = shown.replace("YYYYMMDDThhmmssZ", "".join(markers(n, w) for n, w in FIELDS[:3]) + "T"
                             + "".join(markers(n, w) for n, w in FIELDS[3:]) + "Z")
        it.src = DT("utc", 3, {"d": 2})
        try:
            back = it.call(it.getattr(ClassVal(vr), "from_ical"), [text], {})
            if list(back.items.keys()) != order:
                F.add("reader", "an RFC rule text is decoded with other parts / order", text=shown,
                      decoded=list(back.items.keys()))
            pieces = {kv.split("=", 1)[0].upper(): kv.split("=", 1)[1].split(",")
                      for kv in shown.split(";") if kv.count("=") == 1}
            for p, vals in back.items.items():
                if not isinstance(vals, list):
                    F.add("reader", f"part {p} of a decoded rule is not a list of values", text=shown)
                    continue
                # every value decoded with the type of its part, whatever the letter case of the name
                kind = rfc.RECUR_PARTS.get(p, "text")
                for v, piece in zip(vals, pieces.get(p, [])):
                    if kind in ("integer", "month"):
                        got = norm(it, v)
                        want = want_norm(p, piece)
                        if got != want and not (isinstance(got, tuple) and got[0] == want):
                            F.add("reader", f"part {p} ({kind}) of an RFC rule text decodes to {got!r} "
                                  f"({type(v).__name__ if not isinstance(v, Obj) or v.cls is None else v.cls.name}), "
                                  f"expected {want!r}", text=shown)
                    elif kind in ("weekday", "frequency") and piece and "Y" not in piece[:1] + "x":
                        sv = norm(it, v)
                        if isinstance(sv, str) and sv != piece.upper():
                            F.add("reader", f"part {p} ({kind}) of an RFC rule text decodes to {sv!r}, "
                                  f"expected {piece.upper()!r}", text=shown)
        except AbsRaise as e:
            F.add("reader", f"an RFC rule text is rejected ({e.cls_name})", text=shown)
        except Unsupported as e:
            raise AnalysisError(f"vRecur.from_ical leaves the abstract interface on {shown!r}: {e}")
    return F


def spec_v(spec, part):
    for p, v in spec:
        if p.upper() == part:
            return v if isinstance(v, list) else [v]
    return []


LAWS = ["encodes", "grammar", "FREQ first", "every part", "values", "decodes", "same order",
        "typed values", "stable", "history", "reader"]
_CACHE = {}


def report(ctx, rule, loc):
    key = model_token(ctx.model)
    if key not in _CACHE:
        _CACHE[key] = explore(ctx)
    F = _CACHE[key]
    if F.n < 60:
        raise AnalysisError(f"{rule}: only {F.n} rules explored")
    failed = set()
    for (law, cause), detail in sorted(F.items.items()):
        failed.add(law)
        ctx.fail(rule, f"{law}: {cause}"[:170],
                 f"{cause} ({', '.join(f'{k}={v!r}' for k, v in detail.items())[:500]})", loc,
                 witness={k: v if isinstance(v, (str, int, bool, list)) else repr(v) for k, v in detail.items()})
    for law in LAWS:
        if law not in failed:
            ctx.ok(rule, law, loc, detail=f"{F.n} rules")
    ctx.extra["recur_rules"] = F.n
    return F
