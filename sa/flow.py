"""Light-weight intra-procedural symbolic expansion (used instead of matching
local variable names): for every statement of a function, an environment that
maps each local name to the *expression in terms of the function's parameters*
it holds there, or UNKNOWN when paths disagree.

Markers used inside expanded expressions:
  Name(id=p) with ._param = True      the original value of parameter p
  Call(Name('$iter'), [it])           an element of iterable `it` (loop target)
  Call(Name('$item'), [it, k])        k-th component of such an element
  Call(Name('$unpack'), [e, k])       k-th component of tuple-unpacked e
  Call(Name('$exc'), [])              a caught exception object
  Name('$unknown')                    no single definition reaches
"""
from __future__ import annotations

import ast
import copy

UNKNOWN = "$unknown"


def _mk(name, *args):
    return ast.Call(func=ast.Name(id=name, ctx=ast.Load()), args=list(args),
                    keywords=[])


def is_marker(e, name):
    return (isinstance(e, ast.Call) and isinstance(e.func, ast.Name)
            and e.func.id == name)


def is_param(e, name=None):
    return (isinstance(e, ast.Name) and getattr(e, "_param", False)
            and (name is None or e.id == name))


def is_unknown(e):
    return isinstance(e, ast.Name) and e.id == UNKNOWN


class _Subst(ast.NodeTransformer):
    def __init__(self, env):
        self.env = env
        self.bound = []

    def visit_Name(self, node):
        if isinstance(node.ctx, ast.Load):
            if any(node.id in b for b in self.bound):
                return node
            if node.id in self.env:
                return copy.deepcopy(self.env[node.id])
        return node

    def _comp(self, node):
        # comprehension targets shadow
        names = set()
        for g in node.generators:
            for n in ast.walk(g.target):
                if isinstance(n, ast.Name):
                    names.add(n.id)
        # the first iterable is evaluated outside the shadow
        first = node.generators[0].iter
        node.generators[0].iter = self.visit(first)
        self.bound.append(names)
        for i, g in enumerate(node.generators):
            if i:
                g.iter = self.visit(g.iter)
            g.ifs = [self.visit(x) for x in g.ifs]
        if isinstance(node, ast.DictComp):
            node.key = self.visit(node.key)
            node.value = self.visit(node.value)
        else:
            node.elt = self.visit(node.elt)
        self.bound.pop()
        return node

    visit_ListComp = visit_SetComp = visit_GeneratorExp = visit_DictComp = _comp

    def visit_Lambda(self, node):
        names = {a.arg for a in node.args.args}
        self.bound.append(names)
        node.body = self.visit(node.body)
        self.bound.pop()
        return node


def expand(expr, env):
    return _Subst(env).visit(copy.deepcopy(expr))


def _assigned_names(stmts):
    out = set()
    for st in stmts:
        for n in ast.walk(st):
            if isinstance(n, ast.Name) and isinstance(n.ctx, (ast.Store, ast.Del)):
                out.add(n.id)
            elif isinstance(n, (ast.FunctionDef, ast.ClassDef)):
                out.add(n.name)
    return out


def _same(a, b):
    return ast.dump(a) == ast.dump(b)


class SymEnv:
    """env_at[stmt] = environment *before* executing stmt."""

    def __init__(self, fnode):
        self.fnode = fnode
        self.env_at = {}
        self.env_after = {}
        env = {}
        a = fnode.args
        for p in a.posonlyargs + a.args + a.kwonlyargs:
            n = ast.Name(id=p.arg, ctx=ast.Load())
            n._param = True
            env[p.arg] = n
        for p in (a.vararg, a.kwarg):
            if p is not None:
                n = ast.Name(id=p.arg, ctx=ast.Load())
                n._param = True
                env[p.arg] = n
        self.final = self._block(fnode.body, env)

    def _unknown(self):
        return ast.Name(id=UNKNOWN, ctx=ast.Load())

    def _bind_target(self, tgt, value, env):
        if isinstance(tgt, ast.Name):
            env[tgt.id] = value
        elif isinstance(tgt, (ast.Tuple, ast.List)):
            if isinstance(value, (ast.Tuple, ast.List)) and \
                    len(value.elts) == len(tgt.elts):
                for t, v in zip(tgt.elts, value.elts):
                    self._bind_target(t, v, env)
            else:
                for k, t in enumerate(tgt.elts):
                    if is_marker(value, "$iter"):
                        v = _mk("$item", value.args[0], ast.Constant(k))
                    else:
                        v = _mk("$unpack", value, ast.Constant(k))
                    self._bind_target(t, v, env)
        # attribute / subscript stores do not touch the name environment

    def _merge(self, base, envs):
        names = set()
        for e in envs:
            names |= set(e)
        out = {}
        for n in names:
            vals = [e.get(n) for e in envs]
            if all(v is not None for v in vals) and \
                    all(_same(vals[0], v) for v in vals[1:]):
                out[n] = vals[0]
            else:
                out[n] = self._unknown()
        return out

    def _block(self, stmts, env):
        """Returns env after the block (None if the block never falls through)."""
        for st in stmts:
            if env is None:
                # unreachable code still gets an environment (conservative)
                env = {}
            self.env_at[st] = dict(env)
            env = self._stmt(st, env)
            self.env_after[st] = dict(env) if env is not None else None
        return env

    def _stmt(self, st, env):
        if isinstance(st, ast.Assign):
            v = expand(st.value, env)
            env = dict(env)
            for t in st.targets:
                self._bind_target(t, v, env)
            return env
        if isinstance(st, ast.AnnAssign):
            env = dict(env)
            if st.value is not None:
                self._bind_target(st.target, expand(st.value, env), env)
            return env
        if isinstance(st, ast.AugAssign):
            env = dict(env)
            if isinstance(st.target, ast.Name):
                cur = env.get(st.target.id, ast.Name(id=st.target.id, ctx=ast.Load()))
                env[st.target.id] = ast.BinOp(left=copy.deepcopy(cur), op=st.op,
                                              right=expand(st.value, env))
            return env
        if isinstance(st, (ast.Return, ast.Raise)):
            return None
        if isinstance(st, (ast.Continue, ast.Break)):
            return None
        if isinstance(st, ast.If):
            e1 = self._block(st.body, dict(env))
            e2 = self._block(st.orelse, dict(env)) if st.orelse else dict(env)
            live = [e for e in (e1, e2) if e is not None]
            if not live:
                return None
            return self._merge(env, live)
        if isinstance(st, (ast.For, ast.AsyncFor, ast.While)):
            assigned = _assigned_names(st.body) | _assigned_names(st.orelse)
            inner = dict(env)
            for n in assigned:
                inner[n] = self._unknown()
            if isinstance(st, (ast.For, ast.AsyncFor)):
                self._bind_target(st.target, _mk("$iter", expand(st.iter, env)),
                                  inner)
                tn = _assigned_names([ast.Expr(value=st.target)]) if False else {
                    n.id for n in ast.walk(st.target) if isinstance(n, ast.Name)}
            else:
                tn = set()
            self._block(st.body, dict(inner))
            out = dict(env)
            for n in assigned | tn:
                out[n] = self._unknown()
            if st.orelse:
                self._block(st.orelse, dict(out))
            return out
        if isinstance(st, ast.Try):
            e_body = self._block(st.body, dict(env))
            assigned = _assigned_names(st.body)
            henv = dict(env)
            for n in assigned:
                henv[n] = self._unknown()
            outs = []
            if e_body is not None:
                e_else = self._block(st.orelse, dict(e_body)) if st.orelse else e_body
                if e_else is not None:
                    outs.append(e_else)
            for h in st.handlers:
                he = dict(henv)
                if h.name:
                    he[h.name] = _mk("$exc")
                self.env_at[h] = dict(he)
                r = self._block(h.body, he)
                if r is not None:
                    outs.append(r)
            res = self._merge(env, outs) if outs else None
            if st.finalbody:
                fe = dict(res) if res is not None else dict(henv)
                r = self._block(st.finalbody, fe)
                if res is not None:
                    res = r
            return res
        if isinstance(st, (ast.With, ast.AsyncWith)):
            env = dict(env)
            for item in st.items:
                if item.optional_vars is not None:
                    self._bind_target(item.optional_vars,
                                      _mk("$with", expand(item.context_expr, env)),
                                      env)
            return self._block(st.body, env)
        if isinstance(st, (ast.FunctionDef, ast.ClassDef)):
            env = dict(env)
            env[st.name] = ast.Name(id=f"$def:{st.name}", ctx=ast.Load())
            return env
        if isinstance(st, (ast.Import, ast.ImportFrom)):
            env = dict(env)
            for a in st.names:
                env.pop(a.asname or a.name.split(".")[0], None)
            return env
        if isinstance(st, ast.Delete):
            env = dict(env)
            for t in st.targets:
                if isinstance(t, ast.Name):
                    env[t.id] = self._unknown()
            return env
        return env      # Expr, Assert, Pass, Global ...

    # ---- queries ---------------------------------------------------------
    def stmt_of(self, node):
        """Innermost statement that contains `node` and has an environment."""
        best = None
        for st in self.env_at:
            if isinstance(st, ast.ExceptHandler):
                continue
            if any(n is node for n in ast.walk(st)):
                if best is None or _contains(best, st):
                    best = st
        return best

    def expand_at(self, expr, stmt=None):
        stmt = stmt or self.stmt_of(expr)
        if stmt is None:
            return copy.deepcopy(expr)
        return expand(expr, self.env_at[stmt])


def _contains(outer, inner):
    return any(n is inner for n in ast.walk(outer))


def dump(e):
    try:
        return ast.unparse(e)
    except Exception:
        return ast.dump(e)
