"""Typed value codecs decided by interpreting them (E7).

* DATE / DATE-TIME / TIME: the value is abstract; each of its fields (year,
  month, ...) is rendered as a run of *position markers* (one private-use
  character per digit position), so the text a writer produces shows which
  digit of which field stands where, however the writer is written
  (f-string, str.format, strftime, helper functions).  The reader is then
  interpreted on that very text: int() of a slice yields a field only when the
  slice is exactly that field's run, and the date/datetime/time constructor
  must receive the fields in their proper order.  Writer layout, reader slices
  and RFC text shape are thereby compared semantically.
* UTC-OFFSET and DURATION: interpreted on concrete values of a bounded domain
  (all hours x boundary minutes/seconds x sign; all unit-presence patterns of a
  duration x boundary magnitudes) and compared with the RFC reading.
* the combined decoder vDDDTypes.from_ical: interpreted on one text of every
  RFC form; the kind of value returned must be the form's.
"""
from __future__ import annotations

import itertools
import re

from .core import AnalysisError
from .core import model_token
from .absint import (Interp, Obj, ClassVal, AbsRaise, Unsupported, Native, Closure, DT, TD, TZ,
                     TimeVal, TypeTok, Unknown)

FIELDS = [("year", 4), ("month", 2), ("day", 2), ("hour", 2), ("minute", 2), ("second", 2)]
FIDX = {n: i for i, (n, _) in enumerate(FIELDS)}
WIDTH = dict(FIELDS)
BASE = 0xE000
LOOSE = 0xE100


def markers(name, width):
    """Run of `width` markers for field `name` (right-aligned: the last
    marker is the field's last digit)."""
    w = WIDTH[name]
    i = FIDX[name]
    if width == w:
        return "".join(chr(BASE + i * 8 + k) for k in range(w))
    # a different width than the RFC's: still distinct positions, flagged
    return "".join(chr(BASE + 0x80 + i * 8 + k) for k in range(width))


def describe(text):
    """Marker text -> readable pattern, e.g. YYYYMMDDThhmmssZ."""
    letter = "YMDhms"
    out = []
    for c in text:
        o = ord(c)
        if BASE <= o < BASE + 0x80:
            out.append(letter[(o - BASE) // 8])
        elif BASE + 0x80 <= o < LOOSE:
            out.append(letter[(o - BASE - 0x80) // 8].swapcase())
        elif LOOSE <= o < LOOSE + 8:
            out.append("<" + letter[o - LOOSE] + "*>")
        else:
            out.append(c)
    return "".join(out)


def field_of(text):
    """The field a marker text denotes when it is exactly one complete run."""
    if not text:
        return None
    o = ord(text[0])
    if LOOSE <= o < LOOSE + 8 and len(text) == 1:
        return FIELDS[o - LOOSE][0]
    if not (BASE <= o < BASE + 0x80):
        return None
    i = (o - BASE) // 8
    name, w = FIELDS[i]
    if text == markers(name, w):
        return name
    return None


def has_marker(text):
    return any(BASE <= ord(c) < LOOSE + 8 for c in text)


class CodecInterp(Interp):
    def __init__(self, model):
        super().__init__(model)
        self.src = None          # the abstract value whose fields are in flight
        self.misassembled = None

    # -- writer side: fields become marker runs
    def format_value(self, x, spec, conversion=-1):
        if isinstance(x, tuple) and len(x) == 2 and x[0] == "field":
            m = re.fullmatch(r"0(\d+)d?", spec or "")
            if m:
                return markers(x[1], int(m.group(1)))
            return chr(LOOSE + FIDX[x[1]])      # no fixed zero-padded width
        return super().format_value(x, spec, conversion)

    def getattr(self, o, name):
        if isinstance(o, DT) and name in FIDX:
            self.src = o
        if isinstance(o, DT) and name == "strftime":
            def strftime(i, a, k, o=o):
                fmt = a[0]
                table = {"Y": chr(LOOSE + 0), "m": markers("month", 2), "d": markers("day", 2),
                         "H": markers("hour", 2), "M": markers("minute", 2), "S": markers("second", 2)}
                out = []
                j = 0
                while j < len(fmt):
                    if fmt[j] == "%" and j + 1 < len(fmt):
                        d = fmt[j + 1]
                        if d == "%":
                            out.append("%")
                        elif d in table:
                            if d in "HMS" and not o.is_datetime:
                                out.append("00")
                            else:
                                out.append(table[d])
                        else:
                            raise Unsupported(f"strftime directive %{d}")
                        j += 2
                    else:
                        out.append(fmt[j])
                        j += 1
                self.src = o
                return "".join(out)
            return Native("strftime", strftime)
        if isinstance(o, TimeVal):
            if name in ("hour", "minute", "second"):
                self.src = o
                return ("field", name)
            if name == "tzinfo":
                return None if o.kind == "naive" else TZ("utc", "UTC")
            if name == "strftime":
                def tstrftime(i, a, k, o=o):
                    fmt = a[0]
                    table = {"H": markers("hour", 2), "M": markers("minute", 2), "S": markers("second", 2)}
                    out = []
                    j = 0
                    while j < len(fmt):
                        if fmt[j] == "%" and j + 1 < len(fmt):
                            if fmt[j + 1] not in table:
                                raise Unsupported(f"time.strftime directive %{fmt[j + 1]}")
                            out.append(table[fmt[j + 1]])
                            j += 2
                        else:
                            out.append(fmt[j])
                            j += 1
                    self.src = o
                    return "".join(out)
                return Native("strftime", tstrftime)
        return super().getattr(o, name)

    def _str(self, x):
        if isinstance(x, tuple) and len(x) == 2 and x[0] == "field":
            return chr(LOOSE + FIDX[x[1]])
        return super()._str(x)

    # -- reader side
    def _int(self, i, a, k):
        x = a[0]
        if isinstance(x, Obj) and x.strval is not None:
            x = x.strval
        if isinstance(x, str) and has_marker(x):
            f = field_of(x)
            if f is not None:
                return ("field", f)
            if all(BASE <= ord(c) < LOOSE + 8 for c in x):
                return ("fieldpart", describe(x))
            raise AbsRaise("ValueError", f"invalid literal for int(): {describe(x)!r}")
        return super()._int(i, a, k)

    def _call_type(self, t, args, kwargs):
        # datetime(<concrete date>, *time fields): a time carried by a dummy date
        if t.name == "datetime" and len(args) >= 4 and \
                all(isinstance(a, int) for a in args[:3]) and \
                all(isinstance(a, tuple) and a and a[0] in ("field", "fieldpart") for a in args[3:]):
            got = [a[1] for a in args[3:]]
            if any(a[0] == "fieldpart" for a in args[3:]) or \
                    got != ["hour", "minute", "second"][:len(got)]:
                self.misassembled = f"datetime(<date>, {', '.join(got)})"
            return DT("naive", None, None, None, tag="time-carrier")
        if t.name in ("date", "datetime", "time") and args and \
                all(isinstance(a, tuple) and a and a[0] in ("field", "fieldpart") for a in args):
            want = {"date": ["year", "month", "day"],
                    "datetime": ["year", "month", "day", "hour", "minute", "second"][:max(3, len(args))],
                    "time": ["hour", "minute", "second"][:len(args)]}[t.name]
            got = [a[1] for a in args]
            if any(a[0] == "fieldpart" for a in args) or got != want[:len(got)] or \
                    (t.name == "date" and len(got) != 3):
                self.misassembled = f"{t.name}({', '.join(got)})"
                return DT("date" if t.name == "date" else "naive", None, None, None,
                          tag="misassembled") if t.name != "time" else TimeVal("naive")
            tz = kwargs.get("tzinfo")
            if t.name == "time":
                return TimeVal("naive" if tz is None else "utc")
            src = self.src if isinstance(self.src, DT) else DT("naive", None, None, None)
            if t.name == "date":
                return src.with_(kind="date", zone=None)
            v = src.with_(kind="naive", zone=None)
            if not src.is_datetime and len(got) > 3:
                v = v.with_(tag="time-added")
            if isinstance(tz, TZ):
                v = v.with_(kind="utc" if tz.kind == "utc" else "zoned",
                            zone=None if tz.kind == "utc" else tz.key_)
            return v
        return super()._call_type(t, args, kwargs)


# ---------------------------------------------------------------------------
class Findings:
    def __init__(self):
        self.items = {}
        self.n = 0

    def add(self, law, cause, **detail):
        self.items.setdefault((law, cause), detail)


RFC_SHAPE = {"vDate": ["YYYYMMDD"], "vDatetime": ["YYYYMMDDThhmmss", "YYYYMMDDThhmmssZ"],
             "vTime": ["hhmmss", "hhmmssZ"]}


def explore_datetime(ctx):
    model = ctx.model
    F = Findings()
    to_unicode = Closure(model.func("parser_tools.to_unicode"))
    cases = [("vDate", DT("date", 2, {"d": 1}), "date", "YYYYMMDD"),
             ("vDatetime", DT("naive", 2, {"d": 1}), "naive", "YYYYMMDDThhmmss"),
             ("vDatetime", DT("utc", 2, {"d": 1}), "utc", "YYYYMMDDThhmmssZ"),
             ("vTime", TimeVal("naive"), "naive", "hhmmss"),
             ("vTime", TimeVal("utc"), "utc", "hhmmssZ")]
    for cname, val, kind, shape in cases:
        ci = model.cls(f"prop.{cname}")
        it = CodecInterp(model)
        F.n += 1
        label = f"{cname} ({kind})"
        try:
            obj = it.instantiate(ci, [val], {})
            raw = it.call(it.getattr(obj, "to_ical"), [], {})
            text = raw.decode("utf-8") if isinstance(raw, bytes) else raw
            if not isinstance(text, str):
                raise Unsupported(f"{cname}.to_ical returned {raw!r}")
            pat = describe(text)
            if "*" in pat:
                F.add("fixed width", f"{label}: a field is written without a fixed zero-padded "
                      f"width ({pat}): years below 1000 give a shorter text than the reader slices",
                      written=pat, rfc=shape)
            elif pat != shape:
                F.add("RFC shape", f"{label} is written as {pat}, RFC 5545 form is {shape}",
                      written=pat, rfc=shape)
            # reader on the writer's own text
            it.misassembled = None
            back = it.call(it.getattr(ClassVal(ci), "from_ical"), [text], {})
            if it.misassembled:
                F.add("layout", f"{label}: the reader assembles {it.misassembled} from the text "
                      f"{pat} the writer produced: writer layout and reader slices disagree",
                      written=pat, reader=it.misassembled)
            elif cname == "vTime":
                if not isinstance(back, TimeVal) or back.kind != kind:
                    F.add("round trip", f"{label}: decoding the encoded text gives {back!r}",
                          written=pat)
            elif not isinstance(back, DT) or back.kind != kind or back.tag in ("misassembled",
                                                                               "time-added"):
                F.add("round trip", f"{label}: decoding the encoded text gives {back!r}",
                      written=pat)
        except AbsRaise as e:
            F.add("round trip", f"{label}: encode/decode raises {e.cls_name}", error=str(e))
        except Unsupported as e:
            raise AnalysisError(f"{label}: codec leaves the abstract interface: {e}")
        # reader on the RFC text shape (independent of the writer)
        it = CodecInterp(model)
        F.n += 1
        rfc_text = "".join(markers(n, w) for n, w in FIELDS[:3]) if cname != "vTime" else ""
        if cname == "vDatetime":
            rfc_text += "T"
        if cname != "vDate":
            rfc_text += "".join(markers(n, w) for n, w in FIELDS[3:])
        if kind == "utc":
            rfc_text += "Z"
        try:
            it.src = val
            back = it.call(it.getattr(ClassVal(ci), "from_ical"), [rfc_text], {})
            if it.misassembled:
                F.add("reader layout", f"{label}: the reader assembles {it.misassembled} from the "
                      f"RFC text {shape}", reader=it.misassembled)
            elif cname == "vTime":
                if not isinstance(back, TimeVal) or back.kind != kind:
                    F.add("reader layout", f"{label}: the RFC text {shape} decodes to {back!r}")
            elif not isinstance(back, DT) or back.kind != kind:
                F.add("reader layout", f"{label}: the RFC text {shape} decodes to {back!r}")
        except AbsRaise as e:
            F.add("reader layout", f"{label}: the RFC text {shape} is rejected ({e.cls_name})")
        except Unsupported as e:
            raise AnalysisError(f"{label}: reader leaves the abstract interface: {e}")
        # malformed texts are refused with ValueError
        for bad, why in ((rfc_text[:-2] if len(rfc_text) > 2 else "x", "too short"),
                         (rfc_text.replace("T", "x") if "T" in rfc_text else "x" + rfc_text[1:],
                          "separator / digit replaced by a letter")):
            it = CodecInterp(model)
            F.n += 1
            try:
                it.call(it.getattr(ClassVal(ci), "from_ical"), [bad], {})
            except AbsRaise as e:
                if "ValueError" not in it.exc_bases(e.cls_name):
                    F.add("rejects", f"{label}: a malformed text ({why}) raises {e.cls_name}, "
                          f"not ValueError", text=describe(bad))
            except Unsupported:
                pass
    return F


DT_LAWS = ["fixed width", "RFC shape", "layout", "round trip", "reader layout",
           "rejects"]       # rejects: malformed text raises nothing but ValueError


# ---------------------------------------------------------------------------
def _td(secs):
    return TD(secs=secs, term={"second": secs} if secs else {})


def explore_utcoffset(ctx):
    model = ctx.model
    F = Findings()
    ci = model.cls("prop.vUTCOffset")
    it = Interp(model)
    frm = it.getattr(ClassVal(ci), "from_ical")
    hours = range(0, 24)
    mins = range(0, 60) if ctx.thorough else (0, 1, 30, 59)
    secs = (0, 1, 30, 59) if ctx.thorough else (0, 1, 59)
    grammar = re.compile(r"[+-]\d{2}\d{2}(\d{2})?")
    try:
        for h, m, s_, sign in itertools.product(hours, mins, secs, (1, -1)):
            total = sign * (h * 3600 + m * 60 + s_)
            if total == 0 and sign == -1:
                continue
            F.n += 1
            it.steps = 0
            try:
                obj = it.instantiate(ci, [_td(total)], {})
                text = it.call(it.getattr(obj, "to_ical"), [], {})
                text = text.decode() if isinstance(text, bytes) else text
            except AbsRaise as e:
                F.add("encodes", f"an offset of {total} s cannot be encoded ({e.cls_name})", seconds=total)
                continue
            want = ("-" if total < 0 else "+") + f"{h:02}{m:02}" + (f"{s_:02}" if s_ else "")
            if not isinstance(text, str) or not grammar.fullmatch(text):
                F.add("grammar", "the encoded UTC-OFFSET does not match (+/-)HHMM[SS]",
                      seconds=total, text=text)
            elif text != want and text != want + ("00" if not s_ else ""):
                F.add("value", "the encoded UTC-OFFSET denotes another offset", seconds=total,
                      text=text, expected=want)
            try:
                back = it.call(frm, [text], {})
                if not (isinstance(back, TD) and back.secs == total):
                    F.add("round trip", "decoding the encoded offset gives another value",
                          seconds=total, text=text, decoded=repr(back))
            except AbsRaise as e:
                F.add("round trip", f"the encoded offset is rejected by the decoder ({e.cls_name})",
                      seconds=total, text=text)
            # the RFC text for this offset (both with and without seconds)
            for t in {want, want + "00" if not s_ else want}:
                try:
                    back = it.call(frm, [t], {})
                    if not (isinstance(back, TD) and back.secs == total):
                        F.add("decode", "a grammar-valid UTC-OFFSET decodes to another value",
                              text=t, expected_seconds=total, decoded=repr(back))
                except AbsRaise as e:
                    F.add("decode", f"a grammar-valid UTC-OFFSET is rejected ({e.cls_name})", text=t)
        for bad in ("+2400", "+0060", "+000060", "+01", "+1", "", "+01000", "+0a00", "*0100"):
            F.n += 1
            try:
                it.call(frm, [bad], {})     # leniency is not a violation; the error class is
            except AbsRaise as e:
                if "ValueError" not in it.exc_bases(e.cls_name):
                    F.add("rejects", f"a malformed UTC-OFFSET raises {e.cls_name}, not ValueError",
                          text=bad)
    except Unsupported as e:
        raise AnalysisError(f"vUTCOffset leaves the abstract interface: {e}")
    return F


UTC_LAWS = ["encodes", "grammar", "value", "round trip", "decode", "rejects"]


def explore_duration(ctx):
    model = ctx.model
    F = Findings()
    ci = model.cls("prop.vDuration")
    it = Interp(model)
    frm = it.getattr(ClassVal(ci), "from_ical")
    grammar = re.compile(r"[+-]?P(\d+W|\d+D(T(\d+H(\d+M(\d+S)?)?|\d+M(\d+S)?|\d+S))?|T(\d+H(\d+M(\d+S)?)?|\d+M(\d+S)?|\d+S))")
    days = (0, 1, 6, 7, 8, 14, 400) if ctx.thorough else (0, 1, 7, 15)
    hs = (0, 1, 23)
    ms = (0, 1, 59)
    ss = (0, 1, 59)
    try:
        for d, h, m, s_, sign in itertools.product(days, hs, ms, ss, (1, -1)):
            total = sign * (d * 86400 + h * 3600 + m * 60 + s_)
            if total == 0 and sign == -1:
                continue
            F.n += 1
            it.steps = 0
            try:
                obj = it.instantiate(ci, [_td(total)], {})
                text = it.call(it.getattr(obj, "to_ical"), [], {})
                text = text.decode() if isinstance(text, bytes) else text
            except AbsRaise as e:
                F.add("encodes", f"a duration of {total} s cannot be encoded ({e.cls_name})", seconds=total)
                continue
            if not isinstance(text, str) or not grammar.fullmatch(text):
                F.add("grammar", "the encoded DURATION does not match the RFC 5545 dur-value grammar",
                      seconds=total, text=text)
            else:
                val = rfc_duration(text)
                if val != total:
                    F.add("value", "the encoded DURATION denotes another duration", seconds=total,
                          text=text, denotes=val)
            try:
                back = it.call(frm, [text], {})
                if not (isinstance(back, TD) and back.secs == total):
                    F.add("round trip", "decoding the encoded duration gives another value",
                          seconds=total, text=text, decoded=repr(back))
            except AbsRaise as e:
                F.add("round trip", f"the encoded duration is rejected by the decoder ({e.cls_name})",
                      seconds=total, text=text)
        # every unit-presence pattern of the grammar, both signs
        texts = []
        for sg in ("", "+", "-"):
            texts += [f"{sg}P2W", f"{sg}P3D", f"{sg}P3DT4H", f"{sg}P3DT4H5M", f"{sg}P3DT4H5M6S",
                      f"{sg}P3DT5M", f"{sg}P3DT5M6S", f"{sg}P3DT6S", f"{sg}PT4H", f"{sg}PT4H5M",
                      f"{sg}PT4H5M6S", f"{sg}PT5M", f"{sg}PT5M6S", f"{sg}PT6S", f"{sg}P0D", f"{sg}PT0S",
                      f"{sg}P10W", f"{sg}P400DT23H59M59S"]
        for t in texts:
            F.n += 1
            want = rfc_duration(t)
            try:
                back = it.call(frm, [t], {})
                if not (isinstance(back, TD) and back.secs == want):
                    F.add("decode", "a grammar-valid DURATION decodes to another value "
                          "(unit factors / sign applied to the whole duration)", text=t,
                          expected_seconds=want, decoded=repr(back))
            except AbsRaise as e:
                F.add("decode", f"a grammar-valid DURATION is rejected ({e.cls_name})", text=t)
        for bad in ("", "P", "1D", "P1", "PT1", "P1H", "P1DT", "P1D2H", "P-1D", "PT1S1M", "P1W1D x"):
            F.n += 1
            try:
                it.call(frm, [bad], {})
            except AbsRaise as e:
                if "ValueError" not in it.exc_bases(e.cls_name):
                    F.add("rejects", f"a malformed DURATION raises {e.cls_name}, not ValueError",
                          text=bad)
    except Unsupported as e:
        raise AnalysisError(f"vDuration leaves the abstract interface: {e}")
    return F


DUR_LAWS = ["encodes", "grammar", "value", "round trip", "decode", "rejects"]


def rfc_duration(text):
    """Seconds denoted by a dur-value (RFC 5545 3.3.6)."""
    m = re.fullmatch(r"([+-]?)P(?:(\d+)W)?(?:(\d+)D)?(?:T(?:(\d+)H)?(?:(\d+)M)?(?:(\d+)S)?)?", text)
    if not m:
        return None
    sg, w, d, h, mi, s_ = m.groups()
    tot = int(w or 0) * 604800 + int(d or 0) * 86400 + int(h or 0) * 3600 + int(mi or 0) * 60 + int(s_ or 0)
    return -tot if sg == "-" else tot


def duration_texts():
    """RFC 5545 dur-values of every total length from 3 to 18 characters, in every
    syntactic form (weeks, days, days+time, time only; signed and unsigned)."""
    out = {}
    forms = ["P{a}W", "P{a}D", "PT{a}H", "PT{a}M", "PT{a}S", "PT{a}H{b}M", "PT{a}M{b}S", "PT{a}H{b}S",
             "PT{a}H{b}M{c}S", "P{a}DT{b}H", "P{a}DT{b}M", "P{a}DT{b}H{c}M", "P{a}DT{b}H{c}M{d}S"]
    nums = ["1", "10", "123", "1234", "12345", "123456"]
    small = ["1", "2", "3", "10", "59"]
    for sign in ("", "-", "+"):
        for f in forms:
            for a in nums:
                for b in small[:3]:
                    for c in ("2", "10"):
                        t = sign + f.format(a=a, b=b, c=c, d="3")
                        L = len(t)
                        if 3 <= L <= 18:
                            out.setdefault((L, f, sign), t)
    return sorted(out.values(), key=lambda t: (len(t), t))


# ---------------------------------------------------------------------------
def explore_dispatch(ctx):
    """vDDDTypes.from_ical classifies every RFC form as the right type."""
    model = ctx.model
    F = Findings()
    ci = model.cls("prop.vDDDTypes")
    it = Interp(model)
    frm = it.getattr(ClassVal(ci), "from_ical")
    forms = [("20200229", "DATE", lambda v: isinstance(v, DT) and v.kind == "date"),
             ("20200229T235959", "DATE-TIME (local)", lambda v: isinstance(v, DT) and v.kind == "naive"),
             ("20200229T235959Z", "DATE-TIME (UTC)", lambda v: isinstance(v, DT) and v.kind == "utc"),
             ("235959", "TIME", lambda v: isinstance(v, TimeVal) and v.kind == "naive"),
             ("235959Z", "TIME (UTC)", lambda v: isinstance(v, TimeVal) and v.kind == "utc"),
             ("P1W", "DURATION", lambda v: isinstance(v, TD) and v.secs == 604800),
             ("-P1DT2H", "DURATION (negative)", lambda v: isinstance(v, TD) and v.secs == -93600),
             ("+PT15M", "DURATION (signed)", lambda v: isinstance(v, TD) and v.secs == 900),
             ("20200101T000000Z/20200102T000000Z", "PERIOD (explicit)",
              lambda v: isinstance(v, tuple) and len(v) == 2 and all(isinstance(x, DT) for x in v)),
             ("20200101T000000/PT1H", "PERIOD (start + duration)",
              lambda v: isinstance(v, tuple) and len(v) == 2 and isinstance(v[0], DT) and isinstance(v[1], TD)),
             ("20200101T000000Z/P1D", "PERIOD (UTC start + duration)",
              lambda v: isinstance(v, tuple) and len(v) == 2 and isinstance(v[0], DT) and isinstance(v[1], TD))]
    for text, form, ok in forms:
        F.n += 1
        it.steps = 0
        try:
            v = it.call(frm, [text], {})
            if not ok(v):
                F.add("classification", f"a {form} text is decoded as {v!r}", text=text)
        except AbsRaise as e:
            F.add("classification", f"a {form} text is rejected ({e.cls_name})", text=text)
        except Unsupported as e:
            raise AnalysisError(f"vDDDTypes.from_ical({text!r}) leaves the abstract interface: {e}")
    # every text length: a classifier that looks at the length or at single positions of
    # the text must still agree with the grammars (which are mutually exclusive)
    for text in duration_texts():
        want = rfc_duration(text)
        F.n += 1
        it.steps = 0
        try:
            v = it.call(frm, [text], {})
            if not (isinstance(v, TD) and v.secs == want):
                F.add("classification", f"a DURATION text of {len(text)} characters is decoded as {v!r}",
                      text=text, expected_seconds=want)
        except AbsRaise as e:
            if abs(want) < 10 ** 9 * 86400:
                F.add("classification", f"a DURATION text of {len(text)} characters is rejected "
                      f"({e.cls_name})", text=text)
        except Unsupported as e:
            raise AnalysisError(f"vDDDTypes.from_ical({text!r}) leaves the abstract interface: {e}")
    # lists and periods decode each part with the same classifier and hand the
    # time zone of the line to every part
    Z = "Europe/Berlin"

    def zoned(v):
        return isinstance(v, DT) and v.kind == "zoned" and v.zone == Z
    composite = [
        ("prop.vDDDLists", "20200101T000000,20200102T000000", "date-time list with TZID",
         lambda v: isinstance(v, list) and len(v) == 2 and all(zoned(x) for x in v), Z),
        ("prop.vDDDLists", "20200101,20200102,20200103", "date list",
         lambda v: isinstance(v, list) and len(v) == 3 and all(isinstance(x, DT) and x.kind == "date" for x in v), None),
        ("prop.vDDDLists", "20200101T000000Z", "one-element UTC list",
         lambda v: isinstance(v, list) and len(v) == 1 and v[0].kind == "utc", None),
        ("prop.vPeriod", "20200101T000000/20200102T000000", "period with TZID",
         lambda v: isinstance(v, tuple) and len(v) == 2 and zoned(v[0]) and zoned(v[1]), Z),
        ("prop.vPeriod", "20200101T000000/PT1H", "period (start + duration) with TZID",
         lambda v: isinstance(v, tuple) and len(v) == 2 and zoned(v[0]) and isinstance(v[1], TD)
         and v[1].secs == 3600, Z),
        ("prop.vDDDTypes", "20200101T000000", "date-time with TZID", zoned, Z),
    ]
    for cq, text, form, ok, tz in composite:
        F.n += 1
        it.steps = 0
        try:
            fn = it.getattr(ClassVal(model.cls(cq)), "from_ical")
            v = it.call(fn, [text], {"timezone": tz} if tz else {})
            if not ok(v):
                F.add("composite", f"a {form} is decoded as {v!r}", text=text, timezone=tz)
        except AbsRaise as e:
            F.add("composite", f"a {form} is rejected ({e.cls_name})", text=text)
        except Unsupported as e:
            raise AnalysisError(f"{cq}.from_ical({text!r}) leaves the abstract interface: {e}")
    for bad in ("", "2020", "20200229T", "20200229T2359", "x20200229", "P", "20200229/"):
        F.n += 1
        it.steps = 0
        try:
            it.call(frm, [bad], {})
        except AbsRaise as e:
            if "ValueError" not in it.exc_bases(e.cls_name):
                F.add("rejects", f"a malformed text raises {e.cls_name}, not ValueError", text=bad)
        except Unsupported as e:
            raise AnalysisError(f"vDDDTypes.from_ical({bad!r}) leaves the abstract interface: {e}")
    return F


DISPATCH_LAWS = ["classification", "composite", "rejects"]


def explore_reserialise(ctx):
    """Whatever a composite decoder accepts can be written again: the parts a
    RECUR rule, a date list or the combined decoder produce from accepted texts
    (a DATE, DATE-TIME, TIME, DURATION or PERIOD in any position the decoder
    admits) are encoded by to_ical without any error other than ValueError, and
    the result is one byte/str text."""
    model = ctx.model
    F = Findings()
    members = [("20200229", "DATE"), ("20200229T235959", "DATE-TIME"), ("20200229T235959Z", "DATE-TIME (UTC)"),
               ("235959", "TIME"), ("235959Z", "TIME (UTC)"), ("P1W", "DURATION"), ("-PT15M", "DURATION"),
               ("20200101T000000Z/PT1H", "PERIOD"),
               # not RFC forms, but texts the decoders must answer with a value or ValueError
               ("20200101/20200102", "period of two DATEs"), ("20200101/P1D", "period of a DATE and a duration"),
               ("20200101T000000/20200102", "period of a DATE-TIME and a DATE"), ("235959/PT1H", "period of a TIME")]
    shells = [("prop.vRecur", "FREQ=DAILY;UNTIL={}", "RECUR rule with UNTIL"),
              ("prop.vRecur", "FREQ=DAILY;COUNT=2;X-PART={}", "RECUR rule with an extension part"),
              ("prop.vDDDLists", "{}", "one-element list"), ("prop.vDDDLists", "{0},{0}", "list"),
              ("prop.vDDDTypes", "{}", "single value"), ("prop.vPeriod", "{}", "period value")]
    for cq, shell, what in shells:
        ci = model.cls(cq)
        for text, kind in members:
            src = shell.format(text)
            it = CodecInterp(model)
            F.n += 1
            try:
                try:
                    val = it.call(it.getattr(ClassVal(ci), "from_ical"), [src], {})
                except AbsRaise as e:
                    if "ValueError" not in it.exc_bases(e.cls_name):
                        F.add("decode total", f"{ci.name}.from_ical of a {what} holding a {kind} raises "
                              f"{e.cls_name}", text=src)
                    continue
                try:
                    obj = val if isinstance(val, Obj) and val.cls is not None and \
                        model.lookup_method(val.cls, "to_ical") is not None else it.instantiate(ci, [val], {})
                    raw = it.call(it.getattr(obj, "to_ical"), [], {})
                except AbsRaise as e:
                    if "ValueError" not in it.exc_bases(e.cls_name):
                        F.add("re-encode total", f"{ci.name}.from_ical accepts a {what} holding a {kind}, "
                              f"but writing the decoded value raises {e.cls_name} ({e.msg})", text=src)
                    continue
                if not isinstance(raw, (bytes, str)):
                    raise Unsupported(f"{ci.name}.to_ical returned {raw!r}")
            except Unsupported as e:
                raise AnalysisError(f"{ci.name} on {src!r} leaves the abstract interface: {e}")
    return F


RESER_LAWS = ["decode total", "re-encode total"]


def explore_scalars(ctx):
    """INTEGER, FLOAT, BOOLEAN, GEO, URI, CAL-ADDRESS, weekday, frequency, month: the
    codec interpreted on concrete values of every magnitude class - decoding the
    encoded text gives the value back, and RFC texts decode to the value they denote."""
    model = ctx.model
    F = Findings()

    def num(v):
        if isinstance(v, Obj):
            if "intval" in v.attrs:
                return v.attrs["intval"]
            if "floatval" in v.attrs:
                return v.attrs["floatval"]
            if v.strval is not None:
                return v.strval
        return v

    big = 2 ** 53
    samples = {
        "vInt": [0, 1, -1, 7, 2 ** 31 - 1, -2 ** 31, big + 1, -(big + 1), 2 ** 63 - 1, 10 ** 20 + 1],
        "vFloat": [0.0, 1.5, -2.25, 1000000.5, 0.1, 123456789.125, 2.5e-07, 1.25e-05, -7.1e-07, 1e-10,
                   123456789012345.6, 1e16, 3.0e22],
        "vGeo": [(51.4778125, -0.0000125), (1e-07, -1e-07), (48.85299, 2.36885), (0.0, 0.0), (-89.9999999, 179.9999999)],
        "vBoolean": [True, False],
        "vUri": ["http://example.com/a?b=c", "mailto:a@b"], "vCalAddress": ["mailto:a@example.com"],
        "vWeekday": ["MO", "SU", "+1MO", "-2SU", "53FR"], "vFrequency": ["DAILY", "YEARLY"],
        "vMonth": [1, 12, "5L", "10L", "12L", "13L"],
        "vBinary": ["", "a", "text with \u00e9 and \U0001F600", "x" * 100],
    }
    texts = {"vInt": [("0", 0), ("-12", -12), ("+7", 7), ("007", 7), ("9007199254740993", big + 1),
                      ("18014398509481985", 2 ** 54 + 1)],
             "vFloat": [("1.5", 1.5), ("-0.25", -0.25), ("+3.0", 3.0), ("10", 10.0)],
             "vBoolean": [("TRUE", True), ("FALSE", False), ("true", True), ("False", False)],
             "vGeo": [("+48.85299;+2.36885", (48.85299, 2.36885)), ("-33.5;151.25", (-33.5, 151.25)), ("0;0", (0.0, 0.0))],
             "vFrequency": [("DAILY", "DAILY"), ("daily", "DAILY"), ("Weekly", "WEEKLY")],
             "vWeekday": [("mo", "MO"), ("-1su", "-1SU")]}
    for cname, vals in sorted(samples.items()):
        ci = model.cls(f"prop.{cname}", required=False)
        if ci is None:
            continue
        for v in vals:
            it = Interp(model)
            F.n += 1
            try:
                o = it.instantiate(ci, [v], {})
                raw = it.call(it.getattr(o, "to_ical"), [], {})
                text = raw.decode("utf-8") if isinstance(raw, bytes) else raw
                if not isinstance(text, str) or is_opaque_text(text):
                    raise Unsupported(f"{cname}.to_ical returned {raw!r}")
                back_obj = it.call(it.getattr(ClassVal(ci), "from_ical"), [text], {})
                # text -> value -> text is stable (the decoded value writes the same text again)
                if isinstance(back_obj, Obj) and back_obj.cls is not None and \
                        model.lookup_method(back_obj.cls, "to_ical") is not None:
                    again = it.call(it.getattr(back_obj, "to_ical"), [], {})
                    again = again.decode("utf-8") if isinstance(again, bytes) else again
                    if again != text:
                        F.add("round trip", f"{cname}: the text {text!r} written for {v!r} decodes to a value "
                              f"that is written as {again!r}", value=repr(v), text=text)
                back = num(back_obj)
                want = v if cname != "vMonth" else (int(str(v).rstrip("L")))
                if cname == "vBinary":
                    want = v.encode("utf-8")        # the decoder returns the octets
                if cname == "vMonth" and isinstance(v, str):
                    leap = back_leap = None
                if cname == "vGeo":
                    back = tuple(back) if isinstance(back, (list, tuple)) else back
                if cname == "vWeekday":
                    want = str(v)
                    back = it._str(back) if not isinstance(back, str) else back
                if back != want or type(back) is not type(want) and not isinstance(want, str):
                    F.add("round trip", f"{cname}: decoding the encoded text of {v!r} gives {back!r}",
                          value=repr(v), text=text)
            except AbsRaise as e:
                F.add("round trip", f"{cname}: encode/decode of {v!r} raises {e.cls_name}", value=repr(v))
            except Unsupported as e:
                raise AnalysisError(f"{cname}({v!r}): codec leaves the abstract interface: {e}")
    for cname, pairs in sorted(texts.items()):
        ci = model.cls(f"prop.{cname}", required=False)
        if ci is None:
            continue
        for text, want in pairs:
            it = Interp(model)
            F.n += 1
            try:
                back = num(it.call(it.getattr(ClassVal(ci), "from_ical"), [text], {}))
                if back != want:
                    F.add("RFC text", f"{cname}: the RFC text {text!r} decodes to {back!r}, it denotes {want!r}",
                          text=text)
            except AbsRaise as e:
                F.add("RFC text", f"{cname}: the RFC text {text!r} is rejected ({e.cls_name})", text=text)
            except Unsupported as e:
                raise AnalysisError(f"{cname}.from_ical({text!r}) leaves the abstract interface: {e}")
    return F


def is_opaque_text(x):
    from .absint import is_opaque
    return is_opaque(x)


SCALAR_LAWS = ["round trip", "RFC text"]


def explore_freshness(ctx):
    """A codec object renders the value it holds *now*: after the value
    attribute is re-assigned, to_ical gives what a fresh object would give."""
    model = ctx.model
    F = Findings()
    d, n, u = DT("date", 2, {"d": 1}), DT("naive", 2, {"d": 1}), DT("utc", 2, {"d": 1})
    cases = [("prop.vDDDTypes", [(d, n), (n, d), (n, u), (u, n), (d, _td(3600)), (_td(60), _td(86400))]),
             ("prop.vDatetime", [(n, u), (u, n)]),
             ("prop.vDuration", [(_td(60), _td(-86400)), (_td(86400), _td(45))]),
             ("prop.vUTCOffset", [(_td(3600), _td(-19800))])]
    for cq, pairs in cases:
        ci = model.cls(cq)
        for first, second in pairs:
            F.n += 1
            it = CodecInterp(model)
            try:
                obj = it.instantiate(ci, [first], {})
                holders = [k for k, v in obj.attrs.items() if v is first]
                if not holders:
                    continue
                for h in holders:
                    it.setattr(obj, h, second)
                got = it.call(it.getattr(obj, "to_ical"), [], {})
                fresh = it.call(it.getattr(it.instantiate(ci, [second], {}), "to_ical"), [], {})
                if got != fresh:
                    sh = lambda b: describe(b.decode() if isinstance(b, bytes) else str(b))
                    F.add("fresh", f"{ci.name}: after the held value is re-assigned, to_ical still "
                          f"renders it as the value (type) given at construction",
                          attribute=holders[0], rendered=sh(got), fresh_object_renders=sh(fresh))
            except AbsRaise as e:
                F.add("fresh", f"{ci.name}: to_ical after re-assigning the held value raises {e.cls_name}",
                      first=repr(first), second=repr(second))
            except Unsupported as e:
                raise AnalysisError(f"{cq}: freshness check leaves the abstract interface: {e}")
    return F


FRESH_LAWS = ["fresh"]

# ---------------------------------------------------------------------------
_CACHE = {}


def report(ctx, rule, fn, laws, loc, floor):
    key = (model_token(ctx.model), fn.__name__, ctx.thorough)
    if key not in _CACHE:
        _CACHE[key] = fn(ctx)
    F = _CACHE[key]
    if F.n < floor:
        raise AnalysisError(f"{rule}: only {F.n} cases explored (floor {floor})")
    failed = set()
    for (law, cause), detail in sorted(F.items.items()):
        failed.add(law)
        ctx.fail(rule, f"{law}: {cause}"[:160],
                 f"{cause} ({', '.join(f'{k}={v!r}' for k, v in detail.items())[:400]})", loc,
                 witness={k: v if isinstance(v, (str, int, bool)) else repr(v) for k, v in detail.items()})
    for law in laws:
        if law not in failed:
            ctx.ok(rule, law, loc, detail=f"{F.n} cases")
    ctx.extra[fn.__name__ + "_cases"] = F.n
    return F


# ---------------------------------------------------------------------------
def explore_params_ownership(ctx):
    """Every value object owns its parameters: two values built with the same
    parameter mapping do not share it, and the caller's mapping is not changed
    by editing a value's parameters."""
    model = ctx.model
    F = Findings()
    n = DT("naive", 2, {"d": 1})
    samples = {"vText": "a", "vCalAddress": "mailto:a@b", "vUri": "http://x", "vInt": 1, "vFloat": 1.5,
               "vBoolean": True, "vBinary": "x", "vCategory": ["a"], "vDatetime": n,
               "vDate": DT("date", 2, {"d": 1}), "vDuration": _td(60), "vDDDTypes": n,
               "vDDDLists": [n], "vUTCOffset": _td(3600), "vWeekday": "MO", "vFrequency": "DAILY",
               "vMonth": 1, "vInline": "x", "vGeo": (1.0, 2.0), "vTime": TimeVal("naive")}
    for cname, sample in sorted(samples.items()):
        ci = model.cls(f"prop.{cname}", required=False)
        if ci is None:
            continue
        ctor = model.lookup_method(ci, "__init__") or model.lookup_method(ci, "__new__")
        if ctor is None:
            continue
        a = ctor.node.args
        pnames = [x.arg for x in a.args + a.kwonlyargs]
        if "params" not in pnames:
            continue
        it = CodecInterp(model)
        F.n += 1
        try:
            P = it.instantiate(model.cls("parser.Parameters"), [], {})
            P.items["X-SHARED"] = "1"
            v1 = it.instantiate(ci, [sample], {"params": P})
            v2 = it.instantiate(ci, [sample], {"params": P})
            p1 = it.getattr(v1, "params")
            p2 = it.getattr(v2, "params")
            if not (isinstance(p1, Obj) and p1.items is not None):
                continue
            it.setitem(p1, "CN", "edited")
            if isinstance(p2, Obj) and p2.items is not None and "CN" in p2.items:
                F.add("own parameters", f"two {cname} values built with the same parameter mapping share "
                      f"it: editing one value's parameters changes the other's", cls=cname)
            elif "CN" in P.items:
                F.add("own parameters", f"editing the parameters of a {cname} value changes the mapping "
                      f"the caller passed in", cls=cname)
        except AbsRaise:
            continue
        except Unsupported as e:
            raise AnalysisError(f"{cname}(value, params=...) leaves the abstract interface: {e}")
    return F


OWN_LAWS = ["own parameters"]


def ddd_capabilities(ctx):
    """RFC value types the combined decoder vDDDTypes.from_ical decodes (by interpretation:
    one text of every form of the type must come back as a value of that type)."""
    model = ctx.model
    it = Interp(model)
    frm = it.getattr(ClassVal(model.cls("prop.vDDDTypes")), "from_ical")
    forms = {
        "DATE": [("20200229", lambda v: isinstance(v, DT) and v.kind == "date")],
        "DATE-TIME": [("20200229T235959", lambda v: isinstance(v, DT) and v.kind == "naive"),
                      ("20200229T235959Z", lambda v: isinstance(v, DT) and v.kind == "utc")],
        "TIME": [("235959", lambda v: isinstance(v, TimeVal))],
        "DURATION": [("P1W", lambda v: isinstance(v, TD)), ("-PT15M", lambda v: isinstance(v, TD))],
        "PERIOD": [("20200101T000000Z/20200102T000000Z", lambda v: isinstance(v, tuple) and len(v) == 2),
                   ("20200101T000000/PT1H", lambda v: isinstance(v, tuple) and len(v) == 2)],
    }
    caps = set()
    for typ, cases in forms.items():
        ok = True
        for text, good in cases:
            it.steps = 0
            try:
                ok = ok and bool(good(it.call(frm, [text], {})))
            except AbsRaise:
                ok = False
            except Unsupported as e:
                raise AnalysisError(f"vDDDTypes.from_ical({text!r}) leaves the abstract interface: {e}")
        if ok:
            caps.add(typ)
    return caps
