"""E7 - finite-domain abstract interpreter.

Evaluates the ASTs of small decision functions of the repository on abstract
inputs (kinds of date/time values, ranked instants, symbolic linear terms,
presence of mapping keys).  Control flow is concrete: every test must evaluate
to a definite truth value on the abstract input, otherwise the run stops with
AnalysisError (the function leaves the abstract interface -> exit 2, never a
guess).  Repo functions, methods, properties and descriptor closures are
inlined from their ASTs; CaselessDict storage, the timezone provider and the
type registries are modelled natively (their behaviour is decided by C17 / by
contract, listed in DESIGN.md 8.7).

Nothing of the repository is imported or executed by CPython.
"""
from __future__ import annotations

import ast
import itertools
from collections import OrderedDict

from .core import AnalysisError
from .model import ClassInfo, FuncInfo, Module


class Unsupported(AnalysisError):
    pass


class AbsRaise(Exception):
    """An exception raised by the interpreted code."""

    def __init__(self, cls_name, msg=""):
        super().__init__(f"{cls_name}: {msg}")
        self.cls_name = cls_name
        self.msg = msg


class _Return(Exception):
    def __init__(self, value):
        self.value = value


class _Break(Exception):
    pass


class _Continue(Exception):
    pass


# ---------------------------------------------------------------------------
# abstract values
def term_add(a, b, sign=1):
    out = dict(a or {})
    for k, v in (b or {}).items():
        out[k] = out.get(k, 0) + sign * v
        if out[k] == 0:
            del out[k]
    return out


def term_scale(a, k):
    return {s: c * k for s, c in (a or {}).items() if c * k}


def term_str(t):
    if not t:
        return "0"
    parts = []
    for s in sorted(t):
        c = t[s]
        parts.append(s if c == 1 else f"{c}*{s}")
    return " + ".join(parts)


class DT:
    """A date or datetime.  kind: date | naive | utc | zoned."""
    __slots__ = ("kind", "rank", "term", "zone", "tag", "sub")

    def __init__(self, kind, rank=None, term=None, zone=None, tag=None, sub=False):
        self.kind, self.rank, self.term, self.zone, self.tag = kind, rank, term, zone, tag
        # sub: an instance of a proper subclass of date/datetime (type(x) is not the stdlib
        # class, isinstance still holds); arithmetic results drop the flag
        self.sub = sub

    @property
    def is_datetime(self):
        return self.kind != "date"

    @property
    def aware(self):
        return self.kind in ("utc", "zoned")

    def with_(self, **kw):
        d = DT(self.kind, self.rank, self.term, self.zone, self.tag, self.sub)
        for k, v in kw.items():
            setattr(d, k, v)
        return d

    def key(self):
        return ("DT", self.kind, self.rank, term_str(self.term) if self.term is not None else None,
                self.zone)

    def __repr__(self):
        extra = f" r{self.rank}" if self.rank is not None else ""
        t = f" [{term_str(self.term)}]" if self.term is not None else ""
        z = f" {self.zone}" if self.zone else ""
        return f"<{self.kind}{z}{extra}{t}>"


class TD:
    """A timedelta.  mag: zero | subday | days | daystime (absolute value is
    0, in (0, 1 day), a whole number of days >= 1, or more than a day with a
    time-of-day part); secs: concrete value when it is a literal."""
    __slots__ = ("mag", "term", "tag", "secs")
    BOUNDS = {"zero": (0, 0, True, True), "subday": (0, 86400, False, False),
              "days": (86400, float("inf"), True, False),
              "daystime": (86400, float("inf"), False, False)}

    def __init__(self, seconds_zero=True, term=None, tag=None, mag=None, secs=None):
        if mag is None:
            if secs is not None:
                a = abs(secs)
                mag = "zero" if a == 0 else "subday" if a < 86400 else \
                    "days" if a % 86400 == 0 else "daystime"
            elif tag == "zero":
                mag = "zero"
            else:
                mag = "days" if seconds_zero else "subday"
        self.mag, self.term, self.tag, self.secs = mag, term, tag, secs
        if mag == "zero":
            self.tag = "zero"

    @property
    def seconds_zero(self):
        return self.mag in ("zero", "days")

    def bounds(self):
        if self.secs is not None:
            return (self.secs, self.secs, True, True)
        return TD.BOUNDS[self.mag]

    def key(self):
        return ("TD", self.mag, term_str(self.term) if self.term is not None else None)

    def __repr__(self):
        t = f" [{term_str(self.term)}]" if self.term is not None else ""
        return f"<timedelta {self.mag}{t}>"


class TZ:
    """A tzinfo object.  flavour: which library made it ('zoneinfo', 'pytz') or
    'plain' for one supplied by the caller (datetime.timezone, a ZoneInfo, ...):
    only pytz zones have localize()/normalize()."""
    __slots__ = ("kind", "key_", "flavour")

    def __init__(self, kind, key_=None, flavour=None):
        self.kind, self.key_, self.flavour = kind, key_, flavour

    def __repr__(self):
        return f"<tz {self.kind} {self.key_}>"


class TimeVal:
    """datetime.time (only its tz-kind matters)."""
    __slots__ = ("kind",)

    def __init__(self, kind="naive"):
        self.kind = kind


class Obj:
    _ids = itertools.count()

    def __init__(self, cls, items=None):
        self.cls = cls              # ClassInfo or None (plain sentinel object())
        self.attrs = {}
        self.items = items          # OrderedDict for the CaselessDict family
        self.uid = next(Obj._ids)
        self.strval = None          # for str subclasses
        self.listval = None         # for list subclasses

    def __repr__(self):
        n = self.cls.name if self.cls else "object"
        if self.items is not None:
            return f"<{n} {dict(self.items)}>"
        return f"<{n}#{self.uid}>"


class ClassVal:
    def __init__(self, ci):
        self.ci = ci

    def __repr__(self):
        return f"<class {self.ci.name}>"


class Deque(list):
    """collections.deque, modelled on a list (popleft/appendleft/extendleft added)."""
    __slots__ = ()


class TypeTok:
    def __init__(self, name):
        self.name = name

    def __repr__(self):
        return f"<type {self.name}>"

    def __eq__(self, other):
        return isinstance(other, TypeTok) and other.name == self.name

    def __hash__(self):
        return hash(("TypeTok", self.name))


class Closure:
    def __init__(self, fi, env=None, node=None, module=None):
        self.fi = fi
        self.env = env or {}
        self.node = node if node is not None else (fi.node if fi else None)
        self.module = module if module is not None else (fi.module if fi else None)

    def __repr__(self):
        return f"<function {self.fi.qualname if self.fi else 'lambda'}>"


class Bound:
    def __init__(self, func, self_val):
        self.func, self.self_val = func, self_val


class Native:
    def __init__(self, name, fn):
        self.name, self.fn = name, fn

    def __repr__(self):
        return f"<native {self.name}>"


class NativeObj:
    """Module singleton modelled natively (tzp, types_factory, ...)."""

    def __init__(self, name):
        self.name = name

    def __repr__(self):
        return f"<{self.name}>"


class PropertyVal:
    """A property object built by property(fget, fset, fdel)."""

    def __init__(self, get=None, set=None, delete=None, doc=None):
        self.get, self.set, self.delete = get, set, delete


class RegexVal:
    """A compiled pattern (re.compile of constant arguments in the repo).
    Matching on concrete strings is delegated to Python's own `re`, which is
    part of the trusted base."""

    def __init__(self, pattern, flags=0):
        import re as _re
        self.pattern, self.flags = pattern, flags
        self.rx = _re.compile(pattern, flags)

    def __repr__(self):
        return f"<regex {self.pattern!r}>"


class MatchVal:
    def __init__(self, m):
        self.m = m


class NT(tuple):
    """A namedtuple instance."""
    def __new__(cls, name, fields, values):
        o = super().__new__(cls, values)
        o.nt_name, o.nt_fields = name, tuple(fields)
        return o


class NTClass:
    def __init__(self, name, fields, defaults=None):
        self.name, self.fields, self.defaults = name, tuple(fields), dict(defaults or {})

    def __repr__(self):
        return f"<namedtuple {self.name}{self.fields}>"


class Repeat:
    """itertools.repeat(x) without a count: infinite; only zip() and islice() may consume it."""
    def __init__(self, value):
        self.value = value


class OpaqueStr(str):
    """A string whose text the interpreter does not know (a formatted value with
    a non-concrete part, str() of an abstract value).  It can be stored, passed
    on, concatenated and formatted into other strings; *looking at it* - in the
    interpreted program or in a checker - is an Unsupported operation, never an
    answer computed from the placeholder text."""
    _n = 0

    def __new__(cls, why="text"):
        OpaqueStr._n += 1
        return super().__new__(cls, f"<non-concrete {why} #{OpaqueStr._n}>")

    def _no(self, *a, **k):
        raise Unsupported(f"the text of a {str.__str__(self)[1:-1].rsplit(' ', 1)[0]} is inspected")

    __len__ = __iter__ = __getitem__ = __contains__ = __lt__ = __le__ = __gt__ = __ge__ = _no
    for _m in ("startswith", "endswith", "find", "rfind", "index", "rindex", "count", "split", "rsplit",
               "partition", "rpartition", "splitlines", "isdigit", "isalpha", "isalnum", "isspace",
               "isupper", "islower", "isascii", "isidentifier", "isnumeric", "isdecimal", "istitle",
               "isprintable", "removeprefix", "removesuffix", "translate", "expandtabs", "zfill",
               "ljust", "rjust", "center"):
        locals()[_m] = _no
    del _m

    def __eq__(self, other):
        if other is self:
            return True
        if not isinstance(other, str):
            return False
        self._no()

    def __ne__(self, other):
        return not self.__eq__(other)

    __hash__ = str.__hash__

    def __str__(self):
        return self

    def _same(self, *a, **k):
        return OpaqueStr("text")

    __add__ = __radd__ = __mod__ = __rmod__ = __mul__ = _same
    upper = lower = strip = lstrip = rstrip = replace = format = title = capitalize = casefold = \
        swapcase = join = _same

    def encode(self, *a, **k):
        return OpaqueBytes("text")


class OpaqueBytes(bytes):
    _n = 0

    def __new__(cls, why="text"):
        OpaqueBytes._n += 1
        return super().__new__(cls, f"<non-concrete {why} #{OpaqueBytes._n}>".encode())

    def _no(self, *a, **k):
        raise Unsupported("the content of a non-concrete byte string is inspected")

    __len__ = __iter__ = __getitem__ = __contains__ = __lt__ = __le__ = __gt__ = __ge__ = _no
    for _m in ("startswith", "endswith", "find", "rfind", "index", "rindex", "count", "split", "rsplit",
               "partition", "rpartition", "splitlines", "isdigit", "isalpha", "translate"):
        locals()[_m] = _no
    del _m

    def __eq__(self, other):
        if other is self:
            return True
        if not isinstance(other, bytes):
            return False
        self._no()

    def __ne__(self, other):
        return not self.__eq__(other)

    __hash__ = bytes.__hash__

    def _same(self, *a, **k):
        return OpaqueBytes("text")

    __add__ = __radd__ = __mod__ = __rmod__ = __mul__ = _same
    upper = lower = strip = lstrip = rstrip = replace = join = _same

    def decode(self, *a, **k):
        return OpaqueStr("text")


def is_opaque(x):
    return isinstance(x, (OpaqueStr, OpaqueBytes))


class LazyGen:
    """A generator object (generator expression or generator function call): its
    body runs when it is first consumed, not where it is created - so an
    exception raised while producing an item surfaces at the consumer, outside
    any try block that only surrounds the creation.  (Approximation: the whole
    body runs at the first consumption, not item by item.)"""
    def __init__(self, thunk):
        self.thunk = thunk
        self.buf = None

    def take_all(self):
        if self.buf is None:
            self.buf = self.thunk()
        out, self.buf = self.buf, []
        return out

    def take_one(self):
        if self.buf is None:
            self.buf = self.thunk()
        if not self.buf:
            raise AbsRaise("StopIteration", "")
        return self.buf.pop(0)


class Count:
    """itertools.count(start, step): infinite; only zip() and islice() may consume it."""
    def __init__(self, start=0, step=1):
        self.start, self.step = start, step

    def take(self, n):
        return [self.start + i * self.step for i in range(n)]


class FromKeys(list):
    """dict.fromkeys(iterable): iterating / list() gives the distinct keys in first-seen order."""

    def __init__(self, keys, value):
        super().__init__(keys)
        self.value = value


class Unknown:
    """A value the model does not describe; any use is an analysis error."""

    def __init__(self, why):
        self.why = why

    def __repr__(self):
        return f"<unknown: {self.why}>"


BUILTIN_EXC = {
    "BaseException": None, "Exception": "BaseException",
    "ValueError": "Exception", "TypeError": "Exception",
    "AttributeError": "Exception", "KeyError": "LookupError",
    "IndexError": "LookupError", "LookupError": "Exception",
    "OverflowError": "ArithmeticError", "ArithmeticError": "Exception",
    "AssertionError": "Exception", "UnicodeEncodeError": "UnicodeError",
    "UnicodeDecodeError": "UnicodeError",
    "UnicodeError": "ValueError", "NotImplementedError": "Exception", "ZoneInfoNotFoundError": "KeyError", "UnknownTimeZoneError": "KeyError",
    "StopIteration": "Exception", "RuntimeError": "Exception",
    "ZeroDivisionError": "ArithmeticError",
}

TYPE_NAMES = {"date", "datetime", "timedelta", "time", "tzinfo", "list", "str",
              "tuple", "int", "dict", "object", "bytes", "bool", "float", "set",
              "type", "Mapping", "MutableMapping", "bytearray", "memoryview", "frozenset", "NoneType"}


def external_type(dotted):
    last = dotted.split(".")[-1]
    if last in TYPE_NAMES:
        return TypeTok(last)
    return None


# ---------------------------------------------------------------------------
class Interp:
    MAX_DEPTH = 60

    def __init__(self, model, provider="zoneinfo"):
        self.model = model
        self.depth = 0
        self.steps = 0
        self.provider = provider
        self.trace = []
        self.ops_seen = set()       # abstract-interface operations used (reported)
        self.natives = {}
        self.contracts = {"timezone.tzid.tzid_from_dt": Interp._tzid_from_dt}
        self._install_natives()

    def _tzid_from_dt(self, args, kwargs):
        """Contract (docstring of tzid_from_dt / tzid_from_tzinfo): None for
        naive values, 'UTC' for UTC, the zone key for zoned values."""
        x = args[0]
        self.ops_seen.add("tzid_from_dt")
        if isinstance(x, DT) and x.is_datetime:
            return {"naive": None, "utc": "UTC"}.get(x.kind, x.zone or "ZONE")
        if isinstance(x, TimeVal):
            return {"naive": None, "utc": "UTC"}.get(x.kind, "ZONE")
        if isinstance(x, DT):
            raise AbsRaise("AttributeError", "'datetime.date' object has no attribute 'tzinfo'")
        raise Unsupported(f"tzid_from_dt({x!r})")

    # ---- exceptions ------------------------------------------------------
    def exc_bases(self, name):
        """Chain of base names for an exception class name."""
        out = [name]
        seen = set()
        while True:
            cur = out[-1]
            if cur in seen:
                break
            seen.add(cur)
            if cur in BUILTIN_EXC:
                b = BUILTIN_EXC[cur]
                if b is None:
                    break
                out.append(b)
                continue
            ci = self._exc_class(cur)
            if ci is None:
                break
            nxt = None
            for b in ci.base_exprs:
                r = self.model.resolve_class_expr(ci.module, b)
                nxt = r.name if isinstance(r, ClassInfo) else str(r).split(".")[-1]
                break
            if nxt is None:
                break
            out.append(nxt)
        return out

    def _exc_class(self, name):
        for c in self.model.all_classes():
            if c.name == name:
                return c
        return None

    def exc_matches(self, raised, handler_names):
        chain = self.exc_bases(raised)
        return any(h in chain for h in handler_names)

    # ---- natives ---------------------------------------------------------
    def _install_natives(self):
        n = self.natives
        n["isinstance"] = Native("isinstance", self._isinstance)
        n["hasattr"] = Native("hasattr", self._hasattr)
        n["getattr"] = Native("getattr", self._getattr)
        def _len(i, a, k):
            if isinstance(a[0], (LazyGen, Repeat, Count)):
                raise AbsRaise("TypeError", "object of type 'generator' has no len()")
            return len(self._as_list(a[0]))
        n["len"] = Native("len", _len)
        n["max"] = Native("max", lambda i, a, k: self._minmax(a, True, k))
        n["min"] = Native("min", lambda i, a, k: self._minmax(a, False, k))
        n["object"] = Native("object", lambda i, a, k: Obj(None))
        n["tuple"] = Native("tuple", lambda i, a, k: tuple(self._as_list(a[0])) if a else ())
        n["list"] = Native("list", lambda i, a, k: list(self._as_list(a[0])) if a else [])
        n["iter"] = Native("iter", lambda i, a, k: a[0] if isinstance(a[0], LazyGen)
                           else list(self._as_list(a[0])))
        n["range"] = Native("range", self._range)
        n["int"] = Native("int", self._int)
        n["str"] = Native("str", self._str_ctor)
        n["repr"] = Native("repr", lambda i, a, k: OpaqueStr("repr() text"))
        n["any"] = Native("any", lambda i, a, k: any(self.truth(x) for x in self._as_list(a[0])))
        n["all"] = Native("all", lambda i, a, k: all(self.truth(x) for x in self._as_list(a[0])))
        n["sorted"] = Native("sorted", self._sorted)
        n["zip"] = Native("zip", self._zip)
        n["slice"] = Native("slice", lambda i, a, k: slice(*[None if x is None else self._concrete_int(x)
                                                             for x in a]))
        n["next"] = Native("next", self._next)
        n["reversed"] = Native("reversed", lambda i, a, k: list(reversed(self._as_list(a[0]))))
        n["bool"] = Native("bool", lambda i, a, k: self.truth(a[0]) if a else False)
        n["map"] = Native("map", lambda i, a, k: [self.call(a[0], list(t), {})
                                                for t in zip(*[self._as_list(x) for x in a[1:]])])
        n["filter"] = Native("filter", lambda i, a, k: [
            x for x in self._as_list(a[1])
            if self.truth(x if a[0] is None else self.call(a[0], [x], {}))])
        n["enumerate"] = Native("enumerate", lambda i, a, k: list(enumerate(
            self._as_list(a[0]), self._concrete_int(a[1] if len(a) > 1 else k.get("start", 0)))))
        n["type"] = Native("type", self._type)
        n["NotImplemented"] = NativeObj("NotImplemented")
        n["property"] = Native("property", lambda i, a, k: PropertyVal(
            *a[:3], **{{"fget": "get", "fset": "set", "fdel": "delete"}.get(kk, kk): vv
                      for kk, vv in k.items() if kk != "doc"}))
        n["set"] = Native("set", lambda i, a, k: set(self._as_list(a[0])) if a else set())
        n["frozenset"] = Native("frozenset", lambda i, a, k: frozenset(self._as_list(a[0])) if a else frozenset())
        n["dict"] = Native("dict", self._dict_ctor)
        n["id"] = Native("id", lambda i, a, k: id(a[0]))
        n["abs"] = Native("abs", self._abs)

        def _ord(i, a, k):
            x = a[0].strval if isinstance(a[0], Obj) and a[0].strval is not None else a[0]
            if isinstance(x, (str, bytes)) and len(x) == 1:
                return ord(x)
            raise AbsRaise("TypeError", "ord() expected a character")

        def _chr(i, a, k):
            try:
                return chr(self._concrete_int(a[0]))
            except (ValueError, OverflowError) as e:
                raise AbsRaise("ValueError", str(e))
        n["ord"] = Native("ord", _ord)
        n["chr"] = Native("chr", _chr)
        n["divmod"] = Native("divmod", lambda i, a, k: divmod(self._concrete_int(a[0]), self._concrete_int(a[1])))
        n["sum"] = Native("sum", lambda i, a, k: sum(self._concrete_int(x) for x in self._as_list(a[0])))
        n["round"] = Native("round", lambda i, a, k: round(*a))
        self.type_ctor = {t: n[t] for t in ("object", "tuple", "list", "int", "str",
                                            "type", "set", "dict")}
        for t in TYPE_NAMES:
            n[t] = TypeTok(t)
        for e in BUILTIN_EXC:
            n[e] = TypeTok(e)

    def _abs(self, i, a, k):
        x = a[0]
        if isinstance(x, (int, float)):
            return abs(x)
        if isinstance(x, TD):
            self.ops_seen.add("abs(timedelta)")
            if x.secs is not None:
                return TD(secs=abs(x.secs), term={"second": abs(x.secs)} if x.secs else {})
            return TD(term=x.term, mag=x.mag)
        raise Unsupported(f"abs({x!r})")

    def _range(self, i, a, k):
        vals = [self._concrete_int(x) for x in a]
        return list(range(*vals))

    def _concrete_int(self, x):
        if isinstance(x, bool) or not isinstance(x, int):
            raise Unsupported(f"range/int over non-concrete value {x!r}")
        return x

    def _int(self, i, a, k):
        if not a:
            return 0
        if is_opaque(a[0]) or (isinstance(a[0], Obj) and is_opaque(a[0].strval)):
            raise Unsupported("int() of a non-concrete string")
        if len(a) > 1 or k:
            base = a[1] if len(a) > 1 else k.get("base")
            x = a[0].strval if isinstance(a[0], Obj) and a[0].strval is not None else a[0]
            if isinstance(x, (str, bytes)) and isinstance(base, int) and set(k) <= {"base"}:
                try:
                    return int(x, base)
                except ValueError as e:
                    raise AbsRaise("ValueError", str(e))
            raise Unsupported(f"int({a!r}, {k!r})")
        x = a[0]
        if isinstance(x, (int, bool)):
            return int(x)
        if isinstance(x, float):
            try:
                return int(x)
            except (ValueError, OverflowError) as e:
                raise AbsRaise(type(e).__name__, str(e))
        if isinstance(x, str):
            try:
                return int(x)
            except ValueError:
                raise AbsRaise("ValueError", "int()")
        if isinstance(x, Obj) and x.strval is not None:
            try:
                return int(x.strval)
            except ValueError:
                raise AbsRaise("ValueError", "int()")
        if isinstance(x, Obj) and "intval" in x.attrs:
            return x.attrs["intval"]
        raise Unsupported(f"int() of {x!r}")

    def _str(self, x):
        if isinstance(x, str):
            return x
        if isinstance(x, Obj) and x.cls is not None:
            sm = self.model.lookup_method(x.cls, "__str__")
            if sm is not None:
                r = self.call(Bound(Closure(sm), x), [], {})
                return r.strval if isinstance(r, Obj) and r.strval is not None else r
        if isinstance(x, Obj) and x.strval is not None:
            return x.strval
        if isinstance(x, Obj) and "intval" in x.attrs and isinstance(x.attrs["intval"], int):
            return str(x.attrs["intval"])
        if isinstance(x, Obj) and "floatval" in x.attrs and isinstance(x.attrs["floatval"], float):
            return str(x.attrs["floatval"])
        if isinstance(x, (int, float, bytes, bool)) or x is None:
            return str(x)
        return OpaqueStr("str() text")

    def _type(self, i, a, k):
        x = a[0]
        if isinstance(x, Obj) and x.cls is not None:
            return ClassVal(x.cls)
        if isinstance(x, DT):
            return TypeTok(("datetime" if x.is_datetime else "date") + ("#subclass" if x.sub else ""))
        if isinstance(x, TD):
            return TypeTok("timedelta")
        if isinstance(x, str):
            return TypeTok("str")
        if isinstance(x, list):
            return TypeTok("deque" if isinstance(x, Deque) else "list")
        if isinstance(x, NT):
            raise Unsupported("type() of a namedtuple")
        for py, nm in ((bool, "bool"), (int, "int"), (float, "float"), (bytes, "bytes"), (tuple, "tuple"),
                       (dict, "dict"), (frozenset, "frozenset"), (set, "set"), (type(None), "NoneType")):
            if isinstance(x, py):
                return TypeTok(nm)
        if isinstance(x, TimeVal):
            return TypeTok("time")
        raise Unsupported(f"type() of {x!r}")

    def _minmax(self, a, is_max, k=None):
        k = k or {}
        if set(k) - {"key", "default"}:
            raise Unsupported(f"min/max keywords {sorted(k)}")
        vals = self._as_list(a[0]) if len(a) == 1 else list(a)
        if not vals:
            if "default" in k:
                return k["default"]
            raise AbsRaise("ValueError", "min()/max() arg is an empty sequence")
        key = k.get("key")
        kv = (lambda x: self.call(key, [x], {})) if key is not None else (lambda x: x)
        best = vals[0]
        for v in vals[1:]:
            gt = self.compare(ast.Gt(), kv(v), kv(best))
            if (gt and is_max) or (not gt and not is_max and self.compare(ast.Lt(), kv(v), kv(best))):
                best = v
        return best

    def type_of(self, x):
        """Set of builtin type names the value is an instance of."""
        if x is None:
            return {"NoneType", "object"}
        if isinstance(x, bool):
            return {"bool", "int", "object"}
        if isinstance(x, int):
            return {"int", "object"}
        if isinstance(x, float):
            return {"float", "object"}
        if isinstance(x, str):
            return {"str", "object"}
        if isinstance(x, bytes):
            return {"bytes", "object"}
        if isinstance(x, Deque):
            return {"deque", "object"}
        if isinstance(x, list):
            return {"list", "object"}
        if isinstance(x, NT):
            return {"tuple", "object", "nt:" + x.nt_name}
        if isinstance(x, tuple):
            return {"tuple", "object"}
        if isinstance(x, dict):
            return {"dict", "object", "Mapping", "MutableMapping"}
        if isinstance(x, frozenset):
            return {"frozenset", "object"}
        if isinstance(x, set):
            return {"set", "object"}
        if isinstance(x, DT):
            return {"date", "object"} | ({"datetime"} if x.is_datetime else set())
        if isinstance(x, TD):
            return {"timedelta", "object"}
        if isinstance(x, TZ):
            return {"tzinfo", "object"}
        if isinstance(x, TimeVal):
            return {"time", "object"}
        if isinstance(x, Obj):
            out = {"object"}
            if x.cls is not None:
                for c in self.model.mro(x.cls):
                    if isinstance(c, ClassInfo):
                        out.add("cls:" + c.qualname)
                    else:
                        out.add(str(c).split(".")[-1].replace("OrderedDict", "dict"))
            if x.items is not None:
                out |= {"Mapping", "MutableMapping", "dict"}
            return out
        if isinstance(x, (Closure, Bound, Native)):
            return {"function", "object"}
        if isinstance(x, (ClassVal, TypeTok)):
            return {"type", "object"}
        raise Unsupported(f"type of {x!r}")

    def _isinstance(self, i, a, k):
        x, t = a
        self.ops_seen.add("isinstance")
        ts = t if isinstance(t, tuple) else (t,)
        have = self.type_of(x)
        for tt in ts:
            if isinstance(tt, TypeTok):
                if tt.name in have:
                    return True
            elif isinstance(tt, ClassVal):
                if "cls:" + tt.ci.qualname in have:
                    return True
            elif isinstance(tt, tuple):
                if self._isinstance(i, (x, tt), k):
                    return True
            else:
                raise Unsupported(f"isinstance against {tt!r}")
        return False

    def _hasattr(self, i, a, k):
        try:
            self.getattr(a[0], a[1])
            return True
        except AbsRaise as e:
            if e.cls_name == "AttributeError":
                return False
            raise

    def _getattr(self, i, a, k):
        if len(a) == 3:
            try:
                return self.getattr(a[0], a[1])
            except AbsRaise as e:
                if e.cls_name == "AttributeError":
                    return a[2]
                raise
        return self.getattr(a[0], a[1])

    def format_value(self, x, spec, conversion=-1):
        """Text of one formatted value, or None when it is not concrete."""
        if isinstance(x, Obj) and x.strval is not None:
            x = x.strval
        elif isinstance(x, Obj) and isinstance(x.attrs.get("floatval"), float) and \
                (x.cls is None or self.model.lookup_method(x.cls, "__format__") is None):
            x = x.attrs["floatval"]
        elif isinstance(x, Obj) and isinstance(x.attrs.get("intval"), int) and \
                (x.cls is None or self.model.lookup_method(x.cls, "__format__") is None):
            x = x.attrs["intval"]
        if is_opaque(x):
            return None
        if isinstance(x, (str, int, float, bytes, bool)) or x is None:
            try:
                if conversion == ord("r"):
                    x = repr(x)
                elif conversion == ord("s"):
                    x = str(x)
                elif conversion == ord("a"):
                    x = ascii(x)
                return format(x, spec)
            except (ValueError, TypeError):
                return None
        return None

    def _str_ctor(self, i, a, k):
        if not a:
            return ""
        if len(a) > 1 or k:
            x = a[0]
            if isinstance(x, bytes):
                try:
                    return str(x, *a[1:], **k)
                except (UnicodeError, LookupError, TypeError) as e:
                    raise AbsRaise(type(e).__name__ if not isinstance(e, UnicodeError)
                                   else "UnicodeDecodeError", str(e))
            raise Unsupported(f"str({a!r}, {k!r})")
        return self._str(a[0])

    def _dict_ctor(self, i, a, k):
        out = {}
        if a:
            src = a[0]
            if isinstance(src, Obj) and src.items is not None:
                for key in list(src.items.keys()):
                    out[key] = self.getitem(src, key)       # dict(m): keys() + m[key]
            elif isinstance(src, dict):
                out.update(src)
            else:
                for pair in self._as_list(src):
                    pr = self._as_list(pair)
                    if len(pr) != 2:
                        raise AbsRaise("ValueError", "dictionary update sequence element has length != 2")
                    out[pr[0]] = pr[1]
        out.update(k)
        return out

    def _sorted(self, i, a, k):
        xs = self._as_list(a[0])
        if set(k) - {"key", "reverse"}:
            raise Unsupported(f"sorted keywords {sorted(k)}")
        return self._sort_list(list(xs), k.get("key"), self.truth(k.get("reverse", False)))

    def _plain(self, x):
        if isinstance(x, (tuple, list)):
            return all(self._plain(y) for y in x)
        return isinstance(x, (str, int, float, bytes)) and not is_opaque(x)

    def _sort_list(self, xs, key, rev):
        """Stable sort by Python's rules; abstract values are ordered by compare()."""
        import functools
        keys = [x if key is None else self.call(key, [x], {}) for x in xs]
        if all(self._plain(y) for y in keys):
            try:
                order = sorted(range(len(xs)), key=lambda j: keys[j], reverse=rev)
            except TypeError as e:
                raise AbsRaise("TypeError", str(e))
        else:
            def cmp(j1, j2):
                if self.compare(ast.Lt(), keys[j1], keys[j2]):
                    return -1
                if self.compare(ast.Lt(), keys[j2], keys[j1]):
                    return 1
                return 0
            order = sorted(range(len(xs)), key=functools.cmp_to_key(cmp), reverse=rev)
        return [xs[j] for j in order]

    def _as_list(self, x):
        if isinstance(x, LazyGen):
            return x.take_all()
        if isinstance(x, (list, tuple)):
            return list(x)
        if isinstance(x, Obj) and x.listval is not None:
            return list(x.listval)
        if isinstance(x, (set, frozenset)):
            return sorted(x, key=repr)
        if isinstance(x, dict):
            return list(x)
        if isinstance(x, Obj) and x.items is not None:
            return list(x.items)
        if isinstance(x, str):
            return list(x)
        if isinstance(x, bytes):
            return list(x)
        if isinstance(x, Obj) and x.strval is not None:
            return list(x.strval)
        raise Unsupported(f"iteration over {x!r}")

    # ---- truthiness / comparison ------------------------------------------
    def truth(self, v):
        if v is None or isinstance(v, (bool, int, float, str, bytes, list, tuple, dict, set, frozenset)):
            return bool(v)
        if isinstance(v, DT):
            return True
        if isinstance(v, TD):
            return v.mag != "zero"
        if isinstance(v, (TZ, Closure, Bound, Native, ClassVal, TypeTok, TimeVal, NativeObj, PropertyVal,
                          RegexVal, MatchVal, LazyGen)):
            return True         # (a generator object is always true, even an empty one)
        if isinstance(v, Obj):
            if v.cls is not None:
                bm = self.model.lookup_method(v.cls, "__bool__")
                if bm is not None:
                    return self.truth(self.call(Bound(Closure(bm), v), [], {}))
            if v.items is not None:
                return bool(v.items)
            if v.strval is not None:
                return bool(v.strval)
            if v.listval is not None:
                return bool(v.listval)
            if "intval" in v.attrs:
                return bool(v.attrs["intval"])
            return True
        raise Unsupported(f"truth value of {v!r}")

    def compare(self, op, a, b):
        if isinstance(op, (ast.Is, ast.IsNot)):
            same = self._identical(a, b)
            return same if isinstance(op, ast.Is) else not same
        if isinstance(op, (ast.In, ast.NotIn)):
            r = self._contains(b, a)
            return r if isinstance(op, ast.In) else not r
        if isinstance(op, (ast.Eq, ast.NotEq)):
            r = self._equal(a, b)
            return r if isinstance(op, ast.Eq) else not r
        # order
        if isinstance(a, DT) and isinstance(b, DT):
            self.ops_seen.add("order-compare")
            if a.is_datetime != b.is_datetime:
                raise AbsRaise("TypeError", "can't compare datetime.datetime to datetime.date")
            if a.is_datetime and a.aware != b.aware:
                raise AbsRaise("TypeError", "can't compare offset-naive and offset-aware datetimes")
            if a.rank is None or b.rank is None:
                raise Unsupported(f"order comparison of unranked instants {a!r} {b!r}")
            x, y = a.rank, b.rank
        elif isinstance(a, (int, float)) and isinstance(b, (int, float)):
            x, y = a, b
        elif isinstance(a, str) and isinstance(b, str):
            x, y = a, b
        elif isinstance(a, bytes) and isinstance(b, bytes):
            x, y = a, b
        elif type(a) is type(b) and isinstance(a, (tuple, list)):
            # lexicographic: first differing position decides
            for p, q in zip(a, b):
                if not self._equal(p, q):
                    return self.compare(op, p, q)
            x, y = len(a), len(b)
        elif isinstance(a, TD) and isinstance(b, TD) and a.secs is not None and b.secs is not None:
            x, y = a.secs, b.secs
        elif isinstance(a, TD) and isinstance(b, TD):
            self.ops_seen.add("timedelta-order")
            def lt(x, y):
                (xlo, xhi, xlc, xhc), (ylo, yhi, ylc, yhc) = x.bounds(), y.bounds()
                if xhi < ylo or (xhi == ylo and not (xhc and ylc)):
                    return True
                if xlo >= yhi:
                    return False
                return None

            def le(x, y):
                (xlo, xhi, xlc, xhc), (ylo, yhi, ylc, yhc) = x.bounds(), y.bounds()
                if xhi <= ylo:
                    return True
                if xlo > yhi or (xlo == yhi and not (xlc and yhc)):
                    return False
                return None
            t = type(op)
            r = {ast.Lt: lambda: lt(a, b), ast.LtE: lambda: le(a, b),
                 ast.Gt: lambda: lt(b, a), ast.GtE: lambda: le(b, a)}[t]()
            if r is None:
                raise Unsupported("indefinite order comparison of abstract timedeltas")
            return bool(r)
        else:
            raise Unsupported(f"order comparison of {a!r} and {b!r}")
        return {ast.Lt: x < y, ast.LtE: x <= y, ast.Gt: x > y, ast.GtE: x >= y}[type(op)]

    def _identical(self, a, b):
        if a is None or b is None or isinstance(a, bool) or isinstance(b, bool):
            return a is b
        if isinstance(a, TypeTok) and isinstance(b, TypeTok):
            return a.name == b.name
        if isinstance(a, ClassVal) and isinstance(b, ClassVal):
            return a.ci is b.ci
        return a is b

    def _equal(self, a, b):
        if isinstance(a, DT) and isinstance(b, DT):
            if a.rank is not None and b.rank is not None:
                if a.is_datetime != b.is_datetime:
                    return False
                if a.is_datetime and a.aware != b.aware:
                    return False
                return a.rank == b.rank
            return a.key() == b.key()
        if isinstance(a, TD) and isinstance(b, TD):
            if a.mag == "zero" or b.mag == "zero":
                return a.mag == b.mag
            if a.secs is not None and b.secs is not None:
                return a.secs == b.secs
            return a.key() == b.key()
        if isinstance(a, (TypeTok, ClassVal)) or isinstance(b, (TypeTok, ClassVal)):
            return self._identical(a, b)
        if isinstance(a, Obj) and a.strval is not None:
            a = a.strval
        if isinstance(b, Obj) and b.strval is not None:
            b = b.strval
        if isinstance(a, Obj) or isinstance(b, Obj):
            for x, y in ((a, b), (b, a)):
                if isinstance(x, Obj) and x.cls is not None:
                    eqm = self.model.lookup_method(x.cls, "__eq__")
                    if eqm is not None:
                        r = self.call(Bound(Closure(eqm), x), [y], {})
                        if isinstance(r, NativeObj) and r.name == "NotImplemented":
                            continue
                        return self.truth(r)
            if isinstance(a, Obj) and isinstance(b, Obj):
                return a is b
            return False
        if isinstance(a, (DT, TD)) or isinstance(b, (DT, TD)):
            return False
        # containers compare element by element with the elements' own (abstract) equality
        if isinstance(a, (list, tuple)) and isinstance(b, (list, tuple)) and not isinstance(a, NT) \
                and not isinstance(b, NT):
            if isinstance(a, list) != isinstance(b, list):
                return False
            return len(a) == len(b) and all(self._identical(x, y) or self._equal(x, y) for x, y in zip(a, b))
        if isinstance(a, dict) and isinstance(b, dict):
            try:
                if set(a) != set(b):
                    return False
            except TypeError:
                raise Unsupported("equality of mappings with unhashable keys")
            return all(self._identical(a[k], b[k]) or self._equal(a[k], b[k]) for k in a)
        try:
            return a == b
        except Exception:
            raise Unsupported(f"equality of {a!r} and {b!r}")

    def _contains(self, container, x):
        if isinstance(container, Obj) and container.items is not None:
            self.ops_seen.add("mapping-contains")
            return self._key(x) in container.items
        if isinstance(container, (list, tuple, set, frozenset)):
            return any(self._equal(x, y) for y in container)
        if isinstance(container, dict):
            return x in container
        if isinstance(container, Obj) and container.strval is not None:
            container = container.strval
        if isinstance(container, Obj) and container.listval is not None:
            return any(self._equal(x, y) for y in container.listval)
        if isinstance(container, str):
            if isinstance(x, Obj) and x.strval is not None:
                x = x.strval
            if not isinstance(x, str):
                raise AbsRaise("TypeError", "'in <string>' requires string as left operand")
            return x in container
        if isinstance(container, bytes):
            if not isinstance(x, (bytes, int)):
                raise AbsRaise("TypeError", "a bytes-like object is required")
            return x in container
        raise Unsupported(f"`in` on {container!r}")

    def _key(self, k):
        if isinstance(k, Obj) and k.strval is not None:
            k = k.strval
        if isinstance(k, bytes):
            k = k.decode()
        if not isinstance(k, str):
            raise Unsupported(f"mapping key {k!r}")
        return k.upper()

    # ---- attribute access ---------------------------------------------------
    def getattr(self, o, name):
        if name == "__iter__":
            if isinstance(o, (list, tuple, dict, set, frozenset, str)) or \
                    (isinstance(o, Obj) and (o.items is not None or o.strval is not None)):
                return Native("__iter__", lambda i, a, k: list(self._as_list(o)))
            if isinstance(o, Obj) and o.cls is not None and \
                    self.model.lookup_method(o.cls, "__iter__") is not None:
                return Bound(Closure(self.model.lookup_method(o.cls, "__iter__")), o)
            raise AbsRaise("AttributeError", "__iter__")
        if isinstance(o, DT):
            self.ops_seen.add(f"date.{name}")
            if name == "tzinfo":
                if not o.is_datetime:
                    raise AbsRaise("AttributeError", "'datetime.date' object has no attribute 'tzinfo'")
                if o.kind == "naive":
                    return None
                return TZ("utc", "UTC") if o.kind == "utc" else TZ("zone", o.zone or "ZONE")
            if name == "replace":
                return Native("replace", lambda i, a, k, o=o: self._dt_replace(o, a, k))
            if name == "tzname":
                return Native("tzname", lambda i, a, k, o=o: self._dt_tzname(o))
            if name == "date":
                return Native("date", lambda i, a, k, o=o: o.with_(kind="date", zone=None))
            if name == "astimezone":
                return Native("astimezone", lambda i, a, k, o=o: self._astimezone(o, a))
            if name in ("timetz", "time") and o.is_datetime:
                kind = "naive" if name == "time" or o.kind == "naive" else \
                    ("utc" if o.kind == "utc" else "zoned")
                return Native(name, lambda i, a, k, kind=kind: TimeVal(kind))
            if name in ("year", "month", "day"):
                return ("field", name)
            if name in ("hour", "minute", "second"):
                if not o.is_datetime:
                    raise AbsRaise("AttributeError", f"'datetime.date' object has no attribute {name!r}")
                return ("field", name)
            if name == "microsecond" and o.is_datetime and getattr(self, "subsecond_ranks", False) \
                    and isinstance(o.rank, int):
                # convention of the caller's model: four consecutive ranks share one second
                return (o.rank % 4) * 250000
            if name == "utcoffset":
                def utcoffset(i, a, k, o=o):
                    if not o.is_datetime:
                        raise AbsRaise("AttributeError", "'datetime.date' object has no attribute 'utcoffset'")
                    if o.kind == "naive":
                        return None
                    if o.kind == "utc" or (o.zone or "").startswith("ZeroOffset"):
                        return TD(term={}, secs=0)
                    # some other zone: a non-zero offset of less than a day
                    return TD(term={"utcoffset": 1}, mag="subday")
                return Native("utcoffset", utcoffset)
            raise Unsupported(f"attribute {name} of a date/datetime")
        if isinstance(o, TD):
            self.ops_seen.add(f"timedelta.{name}")
            if name == "seconds":
                if o.secs is not None:
                    return o.secs % 86400
                return 0 if o.seconds_zero else 1
            if name == "microseconds" and o.secs is not None:
                return 0
            if name == "days":
                if o.secs is not None:
                    return o.secs // 86400
                raise Unsupported("timedelta.days of a symbolic duration")
            if name == "total_seconds" and o.secs is not None:
                return Native("total_seconds", lambda i, a, k, o=o: float(o.secs))
            raise Unsupported(f"attribute {name} of a timedelta")
        if isinstance(o, RegexVal):
            return self._regex_method(o, name)
        if isinstance(o, MatchVal):
            if name in ("group", "groups", "start", "end", "span", "groupdict"):
                def mm(i, a, k, o=o, name=name):
                    try:
                        return getattr(o.m, name)(*a, **k)
                    except IndexError as e:
                        raise AbsRaise("IndexError", str(e))
                return Native(name, mm)
            raise Unsupported(f"match.{name}")
        if isinstance(o, TZ):
            if name in ("localize", "normalize", "zone"):
                if self.provider == "pytz":
                    if name == "zone":
                        return o.key_
                    if name == "localize":
                        # re-reading a wall clock with a stale offset in the zone moves the instant
                        return Native("tz.localize", lambda i, a, k, o=o: a[0].with_(
                            kind="utc" if o.kind == "utc" else "zoned",
                            zone=None if o.kind == "utc" else o.key_,
                            tag="instant-moved" if a[0].tag == "pytz-stale-offset" else a[0].tag))
                    # normalize() repairs the wall clock after arithmetic (same instant); on any
                    # other value it may move the wall clock (DST gaps): a new value
                    return Native("tz.normalize", lambda i, a, k: a[0].with_(
                        tag=None if a[0].tag == "pytz-stale-offset" else "pytz-normalized"))
                raise AbsRaise("AttributeError", name)
            if name == "key":
                if self.provider == "pytz" and o.flavour == "pytz":
                    raise AbsRaise("AttributeError", name)      # pytz zones have .zone, not .key
                return o.key_
            if name in ("utcoffset", "tzname", "dst"):
                # with None as the instant: fixed-offset zones answer, zones with transitions say None
                fixed = {"UTC": (0, "UTC"), "Etc/UTC": (0, "UTC"), "Etc/GMT+5": (-18000, "-05"),
                         "Etc/GMT-5": (18000, "+05")}

                def tzq(i, a, k, o=o, name=name):
                    if not a or a[0] is not None:
                        raise Unsupported(f"tzinfo.{name}(<instant>)")
                    f_ = fixed.get("UTC" if o.kind == "utc" else o.key_)
                    if f_ is None:
                        return None
                    if name == "tzname":
                        return f_[1]
                    return TD(secs=f_[0] if name == "utcoffset" else 0,
                              term={"second": f_[0]} if (name == "utcoffset" and f_[0]) else {})
                return Native(f"tz.{name}", tzq)
            # anything else (private tables of a tz library, ...) is outside the model:
            # never answered with a made-up AttributeError
            raise Unsupported(f"attribute {name} of a tzinfo object")
        if o is None:
            raise AbsRaise("AttributeError", f"'NoneType' object has no attribute {name!r}")
        if isinstance(o, NativeObj):
            return self._native_obj_attr(o, name)
        if isinstance(o, ClassVal):
            if name in ("__name__", "__qualname__"):
                return o.ci.name
            v = self._class_attr(o.ci, name, None)
            if isinstance(v, Closure) and v.fi is not None and v.fi.cls is not None \
                    and v.fi.kind == "class":
                return Bound(v, o)
            return v
        if isinstance(o, TypeTok):
            if name in ("__name__", "__qualname__"):
                return o.name
            if o.name == "dict" and name == "fromkeys":
                def fromkeys(i, a, k):
                    out = {}
                    for x in self._as_list(a[0]):
                        kk = self._memo_key(x)
                        if kk not in out:
                            out[kk] = x
                    # keys compare by Python equality/hash (True == 1, 'a' == vText('a'))
                    return FromKeys(list(out.values()), a[1] if len(a) > 1 else None)
                return Native("dict.fromkeys", fromkeys)
            raise Unsupported(f"attribute {name} of builtin type {o.name}")
        if isinstance(o, Obj):
            return self._obj_attr(o, name)
        if isinstance(o, list):
            return self._list_method(o, name)
        if isinstance(o, (str, bytes)):
            return self._str_method(o, name)
        if isinstance(o, dict):
            return self._dict_method(o, name)
        if isinstance(o, NT):
            if name in o.nt_fields:
                return o[o.nt_fields.index(name)]
            if name == "_fields":
                return o.nt_fields
            if name == "_asdict":
                return Native("_asdict", lambda i, a, k, o=o: dict(zip(o.nt_fields, o)))
            if name == "_replace":
                return Native("_replace", lambda i, a, k, o=o: NT(
                    o.nt_name, o.nt_fields, [k.get(f, v) for f, v in zip(o.nt_fields, o)]))
        if isinstance(o, tuple):
            if name == "index":
                return Native("index", lambda i, a, k, o=o: o.index(a[0]))
            if name == "count":
                return Native("count", lambda i, a, k, o=o: o.count(a[0]))
        if isinstance(o, (set, frozenset)):
            if name in ("add", "discard", "remove", "update", "union", "difference",
                        "intersection", "copy", "difference_update", "issubset", "clear"):
                def setop(i, a, k, o=o, name=name):
                    conv = [set(self._as_list(x)) if name not in ("add", "discard", "remove") else x
                            for x in a]
                    try:
                        return getattr(o, name)(*conv)
                    except KeyError as e:
                        raise AbsRaise("KeyError", str(e))
                return Native(name, setop)
        if isinstance(o, TimeVal):
            if name in ("hour", "minute", "second", "microsecond"):
                return ("field", name)
            if name == "tzinfo":
                return None if o.kind == "naive" else TZ("utc", "UTC")
            if name in ("year", "month", "day", "date", "timetz", "astimezone", "timestamp"):
                raise AbsRaise("AttributeError", f"'datetime.time' object has no attribute {name!r}")
        if isinstance(o, Closure) and name in ("__annotations__",):
            return {}
        if isinstance(o, Unknown):
            raise Unsupported(f"use of {o!r}")
        if isinstance(o, (int, float)):
            if isinstance(o, int) and name in ("bit_length", "bit_count", "to_bytes", "conjugate", "__index__"):
                return Native(name, lambda i, a, k, o=o, name=name: getattr(o, name)(*a, **k))
            raise AbsRaise("AttributeError", f"int has no attribute {name}")
        if isinstance(o, (bytes, str, tuple, set, frozenset)) and not hasattr(o, name):
            raise AbsRaise("AttributeError", f"{type(o).__name__} has no attribute {name}")
        raise Unsupported(f"attribute {name} of {o!r}")

    def _dt_replace(self, o, a, k):
        self.ops_seen.add("datetime.replace")
        if set(k) == {"microsecond"} and not a and o.is_datetime and getattr(self, "subsecond_ranks", False) \
                and isinstance(o.rank, int) and isinstance(k["microsecond"], int) \
                and k["microsecond"] % 250000 == 0 and 0 <= k["microsecond"] < 1000000:
            self.ops_seen.add("datetime.replace(microsecond)")
            new_rank = o.rank - o.rank % 4 + k["microsecond"] // 250000
            return o if new_rank == o.rank else o.with_(rank=new_rank, tag="sub-second-changed")
        if "tzinfo" in k:
            if not o.is_datetime:
                raise AbsRaise("TypeError", "replace() got an unexpected keyword argument 'tzinfo'")
            tz = k["tzinfo"]
            if tz is None:
                return o.with_(kind="naive", zone=None)
            if isinstance(tz, TZ):
                return o.with_(kind="utc" if tz.kind == "utc" else "zoned",
                               zone=None if tz.kind == "utc" else tz.key_)
            raise Unsupported(f"replace(tzinfo={tz!r})")
        raise Unsupported(f"replace({list(k)})")

    def _dt_tzname(self, o):
        if o.kind == "naive":
            return None
        if o.kind == "utc":
            return "UTC"
        return o.zone or "ZONE"

    def _astimezone(self, o, a):
        if not o.is_datetime:
            raise AbsRaise("AttributeError", "astimezone")
        tz = a[0] if a else None
        if isinstance(tz, TZ) and tz.kind == "utc":
            # remember where the instant came from: arithmetic on the UTC line followed by a
            # conversion back is elapsed-time arithmetic, not wall-clock arithmetic
            tag = o.tag
            if o.kind == "zoned" and o.tag is None:
                tag = f"utc-of:{o.zone}"
            return o.with_(kind="utc", zone=None, tag=tag)
        if isinstance(tz, TZ):
            if isinstance(o.tag, str) and o.tag == f"utc-of:{tz.key_}+shifted":
                return o.with_(kind="zoned", zone=tz.key_, tag="elapsed-arith")
            if isinstance(o.tag, str) and o.tag == f"utc-of:{tz.key_}":
                return o.with_(kind="zoned", zone=tz.key_, tag=None)      # there and back: the same value
            return o.with_(kind="zoned", zone=tz.key_, tag="converted")
        raise Unsupported("astimezone without a zone")

    def _bisect(self, a, k, left):
        """bisect.bisect_left / bisect_right on a list, with the interpreter's own order."""
        if set(k) - {"lo", "hi"} or len(a) not in (2, 3, 4) or not isinstance(a[0], list):
            raise Unsupported(f"bisect({a!r}, {sorted(k)})")
        seq, x = a[0], a[1]
        lo = a[2] if len(a) > 2 else k.get("lo", 0)
        hi = a[3] if len(a) > 3 else k.get("hi")
        hi = len(seq) if hi is None else hi
        if not isinstance(lo, int) or not isinstance(hi, int) or lo < 0:
            raise Unsupported("bisect bounds")
        while lo < hi:
            mid = (lo + hi) // 2
            if left:
                go_right = self.truth(self.compare(ast.Lt(), seq[mid], x))
            else:
                go_right = not self.truth(self.compare(ast.Lt(), x, seq[mid]))
            if go_right:
                lo = mid + 1
            else:
                hi = mid
        return lo

    def _deque(self, i, a, k):
        if k or len(a) > 1:
            raise Unsupported("deque(...) with maxlen")
        return Deque(self._as_list(a[0]) if a else [])

    def _list_method(self, o, name):
        if isinstance(o, Deque):
            if name == "popleft":
                def popleft(i, a, k):
                    if not o:
                        raise AbsRaise("IndexError", "pop from an empty deque")
                    return o.pop(0)
                return Native("popleft", popleft)
            if name == "appendleft":
                return Native("appendleft", lambda i, a, k: o.insert(0, a[0]))
            if name == "extendleft":
                def extendleft(i, a, k):
                    for y in self._as_list(a[0]):
                        o.insert(0, y)
                return Native("extendleft", extendleft)
            if name == "pop":
                def dpop(i, a, k):
                    if a:
                        raise AbsRaise("TypeError", "deque.pop() takes no arguments")
                    if not o:
                        raise AbsRaise("IndexError", "pop from an empty deque")
                    return o.pop()
                return Native("pop", dpop)
            if name in ("sort", "copy", "insert", "index", "count", "remove", "rotate", "maxlen"):
                raise Unsupported(f"deque.{name}")
        if name == "append":
            return Native("append", lambda i, a, k: o.append(a[0]))
        if name == "extend":
            return Native("extend", lambda i, a, k: o.extend(self._as_list(a[0])))
        if name == "pop":
            def pop(i, a, k):
                if not o:
                    raise AbsRaise("IndexError", "pop from empty list")
                return o.pop(*a)
            return Native("pop", pop)
        if name == "remove":
            def rem(i, a, k):
                for j, y in enumerate(o):
                    if self._equal(a[0], y):
                        del o[j]
                        return None
                raise AbsRaise("ValueError", "list.remove(x): x not in list")
            return Native("remove", rem)
        if name == "sort":
            def sort(i, a, k):
                if a or set(k) - {"key", "reverse"}:
                    raise Unsupported(f"list.sort({a!r}, {sorted(k)})")
                o[:] = self._sort_list(list(o), k.get("key"), self.truth(k.get("reverse", False)))
            return Native("sort", sort)
        if name == "reverse":
            return Native("reverse", lambda i, a, k: o.reverse())
        if name == "clear":
            return Native("clear", lambda i, a, k: o.clear())
        if name == "count":
            return Native("count", lambda i, a, k: sum(1 for y in o if self._equal(a[0], y)))
        if name == "index":
            def index(i, a, k):
                for j, y in enumerate(o):
                    if self._equal(a[0], y):
                        return j
                raise AbsRaise("ValueError", "x not in list")
            return Native("index", index)
        if name == "insert":
            return Native("insert", lambda i, a, k: o.insert(a[0], a[1]))
        if name == "copy":
            return Native("copy", lambda i, a, k: list(o))
        if not hasattr(o, name):
            raise AbsRaise("AttributeError", f"'list' object has no attribute {name!r}")
        raise Unsupported(f"list.{name}")

    _STR_TRANSFORM = {"join", "replace", "format", "lstrip", "rstrip", "strip", "ljust", "rjust", "center"}

    def _str_method(self, o, name):
        nat = self._str_method0(o, name)
        if is_opaque(o) or not isinstance(nat, Native):
            return nat
        inner = nat.fn

        def guarded(i, a, k):
            def opq(x):
                return is_opaque(x) or (isinstance(x, Obj) and is_opaque(x.strval)) or \
                    (isinstance(x, (list, tuple)) and any(opq(y) for y in x))
            if any(isinstance(x, Unknown) for x in a) or any(isinstance(x, Unknown) for x in k.values()):
                raise Unsupported(f"str.{name} with an argument the interpreter does not know "
                                  f"({[x.why for x in list(a) + list(k.values()) if isinstance(x, Unknown)][0]})")
            if any(opq(x) for x in a) or any(opq(x) for x in k.values()):
                if name in Interp._STR_TRANSFORM:
                    return OpaqueBytes("text") if isinstance(o, bytes) else OpaqueStr("text")
                raise Unsupported(f"str.{name} with a non-concrete string argument")
            return inner(i, a, k)
        return Native(nat.name, guarded)

    def _str_method0(self, o, name):
        if name == "decode" and isinstance(o, bytes):
            def dec(i, a, k):
                try:
                    return o.decode(*a, **k)
                except UnicodeError as e:
                    raise AbsRaise("UnicodeDecodeError", str(e))
                except LookupError as e:
                    raise AbsRaise("LookupError", str(e))
            return Native("decode", dec)
        if name in ("lower", "upper", "strip"):
            return Native(name, lambda i, a, k: getattr(o, name)(*a))
        if name in ("startswith", "endswith"):
            return Native(name, lambda i, a, k: getattr(o, name)(*a))
        if name == "format":
            def fmt(i, a, k):
                import string
                out = []
                auto = 0
                try:
                    for lit, fld, spec, conv in string.Formatter().parse(o):
                        out.append(lit)
                        if fld is None:
                            continue
                        if fld == "":
                            val = a[auto]
                            auto += 1
                        elif fld.isdigit():
                            val = a[int(fld)]
                        elif fld in k:
                            val = k[fld]
                        else:
                            return OpaqueStr("formatted text")
                        got = self.format_value(val, spec or "", ord(conv) if conv else -1)
                        if got is None:
                            return OpaqueStr("formatted text")
                        out.append(got)
                except (IndexError, KeyError, ValueError) as e:
                    raise AbsRaise(type(e).__name__, str(e))
                return "".join(out)
            return Native("format", fmt)
        if name == "join":
            def join(i, a, k):
                xs = [x.strval if isinstance(x, Obj) and x.strval is not None else x
                      for x in self._as_list(a[0])]
                if all(isinstance(x, type(o)) for x in xs):
                    return o.join(xs)
                if any(isinstance(x, (str, bytes, int, type(None))) and not isinstance(x, type(o))
                       for x in xs):
                    raise AbsRaise("TypeError", "sequence item: expected str instance" if isinstance(o, str)
                                   else "sequence item: expected a bytes-like object")
                return OpaqueStr("joined text")
            return Native("join", join)
        if name == "encode":
            def enc(i, a, k):
                try:
                    return o.encode(*a, **k)
                except UnicodeError as e:
                    raise AbsRaise("UnicodeEncodeError", str(e))
            return Native("encode", enc)
        if name in ("find", "rfind", "index", "count", "isdigit", "isalpha", "isalnum", "isspace",
                    "isupper", "islower", "title", "capitalize", "lstrip", "rstrip", "partition",
                    "rpartition", "rsplit", "splitlines", "zfill", "ljust", "rjust", "center",
                    "casefold", "swapcase", "removeprefix", "removesuffix", "expandtabs", "isascii"):
            def meth(i, a, k, name=name):
                aa = [x.strval if isinstance(x, Obj) and x.strval is not None else x for x in a]
                try:
                    return getattr(o, name)(*aa, **k)
                except ValueError as e:
                    raise AbsRaise("ValueError", str(e))
                except TypeError as e:
                    raise AbsRaise("TypeError", str(e))
            return Native(name, meth)
        if name == "split":
            return Native("split", lambda i, a, k: o.split(*a))
        if name == "replace":
            return Native("replace", lambda i, a, k: o.replace(*a))
        if not hasattr(o, name):
            raise AbsRaise("AttributeError", f"str has no attribute {name}")
        raise Unsupported(f"str.{name}")

    def _dict_method(self, o, name):
        if name == "get":
            return Native("get", lambda i, a, k: o.get(*a))
        if name == "items":
            return Native("items", lambda i, a, k: list(o.items()))
        if name == "keys":
            return Native("keys", lambda i, a, k: list(o.keys()))
        if name == "values":
            return Native("values", lambda i, a, k: list(o.values()))
        if name == "update":
            return Native("update", lambda i, a, k: o.update(*a))
        if not hasattr(o, name):
            raise AbsRaise("AttributeError", f"'dict' object has no attribute {name!r}")
        if name in ("__getitem__", "__contains__", "__len__", "setdefault", "pop", "copy", "__setitem__",
                    "__delitem__", "clear", "popitem", "__iter__"):
            def dm(i, a, k, name=name):
                try:
                    r = getattr(o, name)(*a, **k)
                except KeyError as e:
                    raise AbsRaise("KeyError", str(e))
                except TypeError as e:
                    raise AbsRaise("TypeError", str(e))
                return list(r) if name == "__iter__" else r
            return Native(name, dm)
        raise Unsupported(f"dict.{name}")

    # -- repo objects
    def _class_attr(self, ci, name, inst):
        """Attribute looked up on class ci (through the repo MRO)."""
        for c in self.model.mro(ci):
            if not isinstance(c, ClassInfo):
                continue
            if name in c.properties:
                acc = c.properties[name]
                pv = PropertyVal(Closure(acc["get"]) if "get" in acc else None,
                                 Closure(acc["set"]) if "set" in acc else None,
                                 Closure(acc["del"]) if "del" in acc else None)
                return pv
            if name in c.methods:
                f = c.methods[name]
                return Closure(f)
            if name in c.attrs:
                return self.class_level_value(c, name)
            # nested class (Alarm.Triggers)
            for st in c.node.body:
                if isinstance(st, ast.ClassDef) and st.name == name:
                    return Native(name, lambda i, a, k, nm=name: ("namedtuple", nm, dict(k), tuple(a)))
        raise AbsRaise("AttributeError", f"{ci.name} has no attribute {name}")

    def class_level_value(self, c, name):
        key = ("clsattr", c.qualname, name)
        if key in self.natives:
            return self.natives[key]
        expr = c.attrs[name]
        env = {"__module__": c.module, "__class__": c}
        # names defined earlier in the class body are visible
        v = self.eval(expr, Env(self, c.module, {}, cls_scope=c))
        self.natives[key] = v
        return v

    def _obj_attr(self, o, name):
        if name in o.attrs:
            return o.attrs[name]
        if o.cls is None:
            raise AbsRaise("AttributeError", name)
        # CaselessDict family: native mapping API
        if o.items is not None:
            nat = self._mapping_method(o, name)
            if nat is not None:
                ov = self.model.lookup_method(o.cls, name)
                if ov is None or ov.cls.qualname == "caselessdict.CaselessDict":
                    return nat
        if o.listval is not None and self.model.lookup_method(o.cls, name) is None \
                and name in ("append", "extend", "insert", "pop", "index", "count", "remove",
                             "sort", "reverse", "copy", "clear"):
            return self._list_method(o.listval, name)
        if o.strval is not None and self.model.lookup_method(o.cls, name) is None and \
                self.model.lookup_attr(o.cls, name)[1] is None and name not in o.attrs and \
                not any(name in getattr(c, "properties", {}) for c in self.model.mro(o.cls)) and \
                hasattr(str, name) and not name.startswith("__"):
            return self._str_method(o.strval, name)
        v = self._class_attr(o.cls, name, o)
        if isinstance(v, PropertyVal):
            if v.get is None:
                raise AbsRaise("AttributeError", f"unreadable attribute {name}")
            return self.call(v.get, [o], {})
        if isinstance(v, Closure) and v.fi is not None and v.fi.cls is not None and \
                any(d.split("(")[0] in ("functools.cached_property", "cached_property") for d in v.fi.decorators):
            # functools.cached_property: computed on the first read, then an instance attribute
            prev = getattr(self, "_in_memo", None)
            self._in_memo = v.fi.qualname
            try:
                val = self._call_closure(v, [o], {})
            finally:
                self._in_memo = prev
            o.attrs[name] = val
            return val
        if isinstance(v, Closure) and v.fi is not None and v.fi.cls is not None:
            kind = v.fi.kind
            if kind == "static":
                return v
            if kind == "class":
                return Bound(v, ClassVal(o.cls))
            return Bound(v, o)
        if isinstance(v, Closure):
            # plain function stored as class attribute (e.g. property getter reused)
            return Bound(v, o)
        return v

    def _mapping_method(self, o, name):
        it = o.items
        K = self._key
        if name == "get":
            return Native("get", lambda i, a, k: it.get(K(a[0]), a[1] if len(a) > 1 else k.get("default")))
        if name == "pop":
            # CaselessDict.pop(key, default=None): decided by C17 (K6)
            return Native("pop", lambda i, a, k: it.pop(K(a[0]), a[1] if len(a) > 1 else k.get("default")))
        if name == "keys":
            return Native("keys", lambda i, a, k: list(it.keys()))
        if name == "values":
            return Native("values", lambda i, a, k: list(it.values()))
        if name == "items":
            return Native("items", lambda i, a, k: list(it.items()))
        if name == "setdefault":
            return Native("setdefault", lambda i, a, k: it.setdefault(K(a[0]), a[1] if len(a) > 1 else None))
        if name == "update":
            def upd(i, a, k):
                for m in a:
                    src = m.items.items() if isinstance(m, Obj) and m.items is not None else (
                        m.items() if isinstance(m, dict) else m)
                    for kk, vv in src:
                        it[K(kk)] = vv
                for kk, vv in k.items():
                    it[K(kk)] = vv
            return Native("update", upd)
        if name == "copy":
            def cp(i, a, k):
                n = Obj(o.cls, OrderedDict(it))
                return n
            return Native("copy", cp)
        if name == "__contains__":
            return Native("__contains__", lambda i, a, k: K(a[0]) in it)
        if name == "clear":
            return Native("clear", lambda i, a, k: it.clear())
        if name == "__len__":
            return Native("__len__", lambda i, a, k: len(it))
        return None

    def _re_compile(self, i, a, k):
        if not a or not isinstance(a[0], (str, bytes)):
            raise Unsupported(f"re.compile({a!r})")
        flags = a[1] if len(a) > 1 else k.get("flags", 0)
        if not isinstance(flags, int):
            raise Unsupported("re.compile flags")
        return RegexVal(a[0], flags)

    def _text(self, x):
        """Concrete str/bytes of a value handed to a regex."""
        if isinstance(x, Obj) and x.strval is not None:
            return x.strval
        if is_opaque(x):
            raise Unsupported("regex applied to a non-concrete string")
        if isinstance(x, (str, bytes)):
            return x
        raise Unsupported(f"regex applied to {x!r}")

    def _regex_method(self, r, name):
        T = self._text
        if name in ("findall", "split"):
            return Native(name, lambda i, a, k: getattr(r.rx, name)(T(a[0]), *a[1:]))
        if name in ("search", "match", "fullmatch"):
            def m(i, a, k):
                try:
                    got = getattr(r.rx, name)(T(a[0]), *a[1:])
                except TypeError as e:
                    raise AbsRaise("TypeError", str(e))
                return MatchVal(got) if got is not None else None
            return Native(name, m)
        if name == "sub":
            def sub(i, a, k):
                repl, text = a[0], T(a[1])
                if isinstance(repl, (str, bytes)):
                    try:
                        return r.rx.sub(repl, text, *a[2:])
                    except TypeError as e:
                        raise AbsRaise("TypeError", str(e))
                return r.rx.sub(lambda mm: self.call(repl, [MatchVal(mm)], {}), text, *a[2:])
            return Native("sub", sub)
        if name == "pattern":
            return r.pattern
        raise Unsupported(f"regex.{name}")

    def _copy(self, x, deep, memo):
        """copy.copy / copy.deepcopy on abstract values (no __copy__/__deepcopy__/__reduce__
        overrides in the repo classes: checked, else unsupported)."""
        if isinstance(x, (str, bytes, int, float, bool, type(None), tuple)) and not deep:
            return x
        if isinstance(x, (str, bytes, int, float, bool, type(None), DT, TD, TZ, TimeVal, ClassVal,
                          TypeTok, Closure, Native, NativeObj)):
            return x
        if id(x) in memo:
            return memo[id(x)]
        if isinstance(x, tuple):
            return tuple(self._copy(y, True, memo) for y in x)
        if isinstance(x, list):
            out = []
            memo[id(x)] = out
            out.extend(self._copy(y, True, memo) if deep else y for y in x)
            return out
        if isinstance(x, dict):
            out = {}
            memo[id(x)] = out
            for k, v in x.items():
                out[k] = self._copy(v, True, memo) if deep else v
            return out
        if isinstance(x, (set, frozenset)):
            return type(x)(x)
        if isinstance(x, Obj):
            if x.cls is not None:
                own = self.model.lookup_method(x.cls, "__deepcopy__" if deep else "__copy__")
                if own is not None:
                    # the class says how it is copied: interpret that
                    pm = memo.setdefault("__py_memo__", {})
                    r = self.call(Bound(Closure(own), x), [pm] if deep else [], {})
                    memo[id(x)] = r
                    return r
                for special in ("__copy__", "__deepcopy__", "__reduce__", "__reduce_ex__",
                                "__getstate__", "__setstate__"):
                    if self.model.lookup_method(x.cls, special) is not None:
                        raise Unsupported(f"copy of {x.cls.name} with {special}")
            n = Obj(x.cls, None)
            memo[id(x)] = n
            n.strval = x.strval
            n.listval = None if x.listval is None else (
                [self._copy(y, True, memo) for y in x.listval] if deep else list(x.listval))
            if x.items is not None:
                n.items = OrderedDict((k, self._copy(v, True, memo) if deep else v)
                                      for k, v in x.items.items())
            # instance attributes: the same objects for a shallow copy
            n.attrs = {k: (self._copy(v, True, memo) if deep else v) for k, v in x.attrs.items()}
            return n
        raise Unsupported(f"copy of {x!r}")

    def _counter(self, i, a, k):
        """collections.Counter over concrete (hashable Python) items."""
        import collections as _c
        if k or len(a) > 1:
            raise Unsupported("Counter(...) with keywords")
        items = self._as_list(a[0]) if a else []
        return _c.Counter(self._memo_key(x) for x in items)

    def _namedtuple(self, i, a, k):
        name = self._str(a[0])
        fields = a[1] if len(a) > 1 else k.get("field_names")
        if isinstance(fields, str):
            fields = fields.replace(",", " ").split()
        fields = [self._str(x) for x in self._as_list(fields)]
        d = k.get("defaults")
        defaults = {}
        if d is not None:
            d = self._as_list(d)
            defaults = dict(zip(fields[len(fields) - len(d):], d))
        return NTClass(name, fields, defaults)

    def _make_nt(self, ntc, args, kwargs):
        vals = list(args)
        for f in ntc.fields[len(vals):]:
            if f in kwargs:
                vals.append(kwargs.pop(f))
            elif f in ntc.defaults:
                vals.append(ntc.defaults[f])
            else:
                raise AbsRaise("TypeError", f"{ntc.name}() missing argument {f!r}")
        if kwargs or len(vals) != len(ntc.fields):
            raise AbsRaise("TypeError", f"{ntc.name}() got unexpected arguments")
        return NT(ntc.name, ntc.fields, vals)

    def _zip(self, i, a, k):
        # every argument is consumed exactly once (a generator cannot be read twice)
        mat = [x if isinstance(x, (Repeat, Count)) else self._as_list(x) for x in a]
        finite = [c for c in mat if isinstance(c, list)]
        if not finite:
            raise Unsupported("zip() of infinite iterators only")
        n = min(len(c) for c in finite)
        if k.get("strict") and any(len(c) != n for c in finite):
            raise AbsRaise("ValueError", "zip() arguments have different lengths")
        cols = [[c.value] * n if isinstance(c, Repeat) else c.take(n) if isinstance(c, Count) else c[:n]
                for c in mat]
        return [tuple(t) for t in zip(*cols)]

    def _next(self, i, a, k):
        src = a[0]
        if isinstance(src, LazyGen):
            try:
                return src.take_one()
            except AbsRaise as e:
                if e.cls_name == "StopIteration" and len(a) > 1:
                    return a[1]
                raise
        seen = self.__dict__.setdefault("_next_seen", [])
        if isinstance(src, list):
            if any(x is src for x in seen):
                raise Unsupported("next() called twice on the same iterator")
            seen.append(src)         # keeps the object alive: identity stays meaningful
        xs = self._as_list(src)
        if xs:
            return xs[0]
        if len(a) > 1:
            return a[1]
        raise AbsRaise("StopIteration", "")

    # ids the modelled tz database holds (two of them differ only in punctuation)
    known_zone_ids = frozenset({"Europe/Berlin", "America/New_York", "UTC", "Etc/UTC", "Etc/GMT+5", "Etc/GMT-5",
                                "America/Port-au-Prince", "Z"})

    def _native_obj_attr(self, o, name):
        if o.name == "datetime.timezone":
            if name == "utc":
                return TZ("utc", "UTC", "plain")
            raise Unsupported(f"datetime.timezone.{name}")
        if o.name in ("base64", "binascii"):
            # pure functions of the standard library on concrete data: computed
            import base64 as _b64, binascii as _ba
            fn = getattr({"base64": _b64, "binascii": _ba}[o.name], name, None)
            if name == "Error":
                return TypeTok("binascii.Error")
            if fn is None or not callable(fn):
                raise Unsupported(f"{o.name}.{name}")

            def pure(i, a, k, fn=fn):
                aa = [x.strval if isinstance(x, Obj) and x.strval is not None else x for x in a]
                if any(is_opaque(x) or not isinstance(x, (str, bytes, int, bool, type(None))) for x in aa) or \
                        any(not isinstance(v, (str, bytes, int, bool, type(None))) for v in k.values()):
                    raise Unsupported(f"{o.name}.{name} of a non-concrete value")
                try:
                    return fn(*aa, **k)
                except (ValueError, TypeError) as e:       # binascii.Error is a ValueError
                    raise AbsRaise("ValueError" if isinstance(e, ValueError) else "TypeError", str(e))
            return Native(f"{o.name}.{name}", pure)
        if o.name == "pytz":
            if name in ("utc", "UTC"):
                return TZ("utc", "UTC", "pytz")
            if name in ("all_timezones", "all_timezones_set", "common_timezones"):
                return sorted(self.known_zone_ids)
            if name == "timezone":
                def ptz(i, a, k):
                    key = self._str(a[0])
                    if is_opaque(key):
                        raise Unsupported("pytz.timezone(<non-concrete name>)")
                    if key in self.known_zone_ids:
                        return TZ("utc" if key == "UTC" else "zone", key, "pytz")
                    raise AbsRaise("UnknownTimeZoneError", key)
                return Native("pytz.timezone", ptz)
            if name == "UnknownTimeZoneError":
                return TypeTok("UnknownTimeZoneError")
            raise Unsupported(f"pytz.{name}")
        if o.name == "backports" and name == "zoneinfo":
            return NativeObj("zoneinfo")
        if o.name == "zoneinfo":
            if name == "available_timezones":
                return Native("available_timezones", lambda i, a, k: set(self.known_zone_ids))
            if name == "ZoneInfo":
                def zi(i, a, k):
                    key = self._str(a[0] if a else k.get("key"))
                    if is_opaque(key):
                        raise Unsupported("ZoneInfo(<non-concrete key>)")
                    if key in self.known_zone_ids:
                        return TZ("zone", key, "zoneinfo")
                    raise AbsRaise("ZoneInfoNotFoundError", f"No time zone found with key {key}")
                return Native("ZoneInfo", zi)
            if name == "ZoneInfoNotFoundError":
                return TypeTok("ZoneInfoNotFoundError")
            raise Unsupported(f"zoneinfo.{name}")
        if o.name == "itertools":
            if name == "chain":
                return NativeObj("itertools.chain")
            if name == "repeat":
                return Native("repeat", lambda i, a, k: Repeat(a[0]) if len(a) == 1 and not k else
                              [a[0]] * self._concrete_int(a[1] if len(a) > 1 else k["times"]))
            if name == "count":
                return Native("count", lambda i, a, k: Count(
                    self._concrete_int(a[0] if a else k.get("start", 0)),
                    self._concrete_int(a[1] if len(a) > 1 else k.get("step", 1))))
            if name == "groupby":
                def groupby(i, a, k):
                    key = a[1] if len(a) > 1 else k.get("key")
                    out = []
                    for x in self._as_list(a[0]):
                        kx = x if key is None else self.call(key, [x], {})
                        if out and (self._identical(out[-1][0], kx) or self._equal(out[-1][0], kx)):
                            out[-1][1].append(x)
                        else:
                            out.append((kx, [x]))
                    return [(kx, grp) for kx, grp in out]
                return Native("groupby", groupby)
            if name == "filterfalse":
                return Native("filterfalse", lambda i, a, k: [
                    x for x in self._as_list(a[1])
                    if not self.truth(x if a[0] is None else self.call(a[0], [x], {}))])
            if name == "islice":
                def islice(i, a, k):
                    nums = [None if x is None else self._concrete_int(x) for x in a[1:]]
                    if isinstance(a[0], Repeat):
                        if len(nums) != 1 or nums[0] is None:
                            raise Unsupported("islice of an infinite iterator without a stop")
                        return [a[0].value] * nums[0]
                    if isinstance(a[0], Count):
                        if len(nums) != 1 or nums[0] is None:
                            raise Unsupported("islice of an infinite iterator without a stop")
                        return a[0].take(nums[0])
                    import itertools as _it
                    return list(_it.islice(self._as_list(a[0]), *nums))
                return Native("islice", islice)
            if name in ("zip_longest",):
                import itertools as _it
                return Native(name, lambda i, a, k: [tuple(t) for t in _it.zip_longest(
                    *[self._as_list(x) for x in a], **k)])
            if name == "starmap":
                return Native(name, lambda i, a, k: [self.call(a[0], list(self._as_list(t)), {})
                                                   for t in self._as_list(a[1])])
            if name == "takewhile":
                def tw(i, a, k):
                    out = []
                    for x in self._as_list(a[1]):
                        if not self.truth(self.call(a[0], [x], {})):
                            break
                        out.append(x)
                    return out
                return Native(name, tw)
            if name == "accumulate":
                def acc(i, a, k):
                    xs = self._as_list(a[0])
                    f = a[1] if len(a) > 1 else k.get("func")
                    out = []
                    for x in xs:
                        out.append(x if not out else (self.call(f, [out[-1], x], {}) if f is not None
                                                      else self.binop(ast.Add(), out[-1], x)))
                    return out
                return Native(name, acc)
            raise Unsupported(f"itertools.{name}")
        if o.name == "itertools.chain":
            if name == "from_iterable":
                return Native("chain.from_iterable", lambda i, a, k: [
                    y for x in self._as_list(a[0]) for y in self._as_list(x)])
            raise Unsupported(f"itertools.chain.{name}")
        if o.name == "functools":
            if name == "reduce":
                def red(i, a, k):
                    xs = self._as_list(a[1])
                    if len(a) > 2:
                        acc_ = a[2]
                    elif xs:
                        acc_, xs = xs[0], xs[1:]
                    else:
                        raise AbsRaise("TypeError", "reduce() of empty iterable with no initial value")
                    for x in xs:
                        acc_ = self.call(a[0], [acc_, x], {})
                    return acc_
                return Native("reduce", red)
            if name == "partial":
                return Native("partial", lambda i, a, k: Native(
                    "partial-call", lambda i2, a2, k2, f=a[0], pa=a[1:], pk=k: self.call(
                        f, list(pa) + list(a2), {**pk, **k2})))
            raise Unsupported(f"functools.{name}")
        if o.name == "operator":
            if name == "itemgetter":
                return Native("itemgetter", lambda i, a, k: Native(
                    "itemgetter-call", lambda i2, a2, k2, keys=a: self.getitem(a2[0], keys[0])
                    if len(keys) == 1 else tuple(self.getitem(a2[0], kk) for kk in keys)))
            if name == "attrgetter":
                return Native("attrgetter", lambda i, a, k: Native(
                    "attrgetter-call", lambda i2, a2, k2, nm=a[0]: self.getattr(a2[0], nm)))
            raise Unsupported(f"operator.{name}")
        if o.name == "collections":
            if name == "namedtuple":
                return Native("namedtuple", self._namedtuple)
            if name == "OrderedDict":
                return TypeTok("dict")
            raise Unsupported(f"collections.{name}")
        if o.name == "copy":
            if name in ("copy", "deepcopy"):
                return Native("copy." + name, lambda i, a, k, deep=(name == "deepcopy"):
                              self._copy(a[0], deep, {}))
            raise Unsupported(f"copy.{name}")
        if o.name == "re":
            if name == "compile":
                return Native("re.compile", self._re_compile)
            if name in ("findall", "split", "search", "match", "fullmatch", "sub"):
                return Native("re." + name, lambda i, a, k: self.call(
                    self._regex_method(self._re_compile(i, a[:1], {}), name), a[1:], k))
            if name == "escape":
                import re as _re
                return Native("re.escape", lambda i, a, k: _re.escape(a[0]))
            if name in ("IGNORECASE", "I", "MULTILINE", "M", "DOTALL", "S", "UNICODE", "U", "ASCII", "A"):
                import re as _re
                return int(getattr(_re, name))
            raise Unsupported(f"re.{name}")
        if o.name == "tzp":
            if name == "localize_utc":
                return Native("tzp.localize_utc", self._localize_utc)
            if name == "localize":
                return Native("tzp.localize", self._localize)
            if name == "timezone":
                return Native("tzp.timezone", lambda i, a, k: TZ("zone", self._str(a[0]), self.provider))
            if name in ("uses_pytz",):
                return Native(name, lambda i, a, k: self.provider == "pytz")
            raise Unsupported(f"tzp.{name}")
        if o.name == "component_factory":
            # the factory as written: an instance built by interpreting ComponentFactory.__init__
            cf = self.__dict__.get("_cf_instance")
            if cf is None:
                cf = self.instantiate(self.model.cls("cal.ComponentFactory"), [], {})
                self.__dict__["_cf_instance"] = cf
            return self.getattr(cf, name)
        if o.name == "types_factory":
            if name == "for_property":
                def for_property(i, a, k):
                    ci = self.model.class_for_property(self._str(a[0]))
                    if ci is None:
                        raise AbsRaise("KeyError", self._str(a[0]))
                    return ClassVal(ci)
                return Native("for_property", for_property)
            if name == "all_types":
                tf = self.model.cls("prop.TypesFactory")
                init = tf.methods["__init__"]
                for st in ast.walk(init.node):
                    if isinstance(st, ast.Assign) and isinstance(st.targets[0], ast.Attribute) \
                            and st.targets[0].attr == "all_types":
                        return tuple(ClassVal(self.model.resolve_name(tf.module, e.id))
                                     for e in st.value.elts)
                raise Unsupported("types_factory.all_types not found")
            if name == "from_ical":
                return Native("types_factory.from_ical", lambda i, a, k: Unknown("decoded value"))
            if name == "types_map":
                tm, _ = self.model.types_map()
                mp = Obj(self.model.cls("caselessdict.CaselessDict"), OrderedDict(tm))
                return mp
            # anything else: the TypesFactory method as written, on an instance built by
            # interpreting TypesFactory.__init__
            tf = self.__dict__.get("_tf_instance")
            if tf is None:
                tf = self.instantiate(self.model.cls("prop.TypesFactory"), [], {})
                self.__dict__["_tf_instance"] = tf
            return self.getattr(tf, name)
        raise Unsupported(f"{o.name}.{name}")

    def _localize_utc(self, i, a, k):
        """Contract of TZP.localize_utc: a datetime in UTC denoting the same
        instant (naive values and dates are taken as UTC)."""
        self.ops_seen.add("tzp.localize_utc")
        x = a[0]
        if isinstance(x, DT):
            if x.kind == "zoned" and x.tag is None and x.is_datetime:
                return x.with_(kind="utc", zone=None, tag=f"utc-of:{x.zone}")
            return x.with_(kind="utc", zone=None)
        # anything else first goes through tools.to_datetime, as in TZP.localize_utc
        td = self.model.func("tools.to_datetime", required=False)
        if td is not None and not isinstance(x, Unknown):
            y = self.call(Closure(td), [x], {})
            if isinstance(y, DT):
                return y.with_(kind="utc", zone=None)
            if isinstance(y, TimeVal):
                # a provider's localize_utc on a datetime.time: zoneinfo's replace(tzinfo=)
                # works on times, pytz's utc.localize does not
                if self.provider == "pytz":
                    raise AbsRaise("AttributeError", "'datetime.time' object has no attribute 'utcoffset'")
                return TimeVal("utc")
        raise Unsupported(f"localize_utc({x!r})")

    def _localize(self, i, a, k):
        x, tz = a
        if isinstance(tz, str):
            tz = TZ("zone", tz, self.provider)
        # the pytz provider localizes through tz.localize(dt): only pytz zones have it
        if self.provider == "pytz" and isinstance(tz, TZ) and tz.flavour == "plain":
            raise AbsRaise("AttributeError", "tzinfo object has no attribute 'localize'")
        if isinstance(x, DT) and isinstance(tz, TZ):
            return x.with_(kind="utc" if tz.kind == "utc" else "zoned",
                           zone=None if tz.kind == "utc" else tz.key_)
        if isinstance(x, DT) and (isinstance(tz, (list, tuple, int, float, bytes, dict)) or tz is None):
            # not a tzinfo at all (a multi-valued TZID parameter arrives as a list): zoneinfo's
            # dt.replace(tzinfo=...) refuses it, pytz's tz.localize does not exist on it
            if self.provider == "pytz":
                raise AbsRaise("AttributeError", f"'{type(tz).__name__}' object has no attribute 'localize'")
            if tz is None:
                return x.with_(kind="naive", zone=None)
            raise AbsRaise("TypeError", f"tzinfo argument must be None or of a tzinfo subclass, not type '{type(tz).__name__}'")
        raise Unsupported(f"localize({x!r}, {tz!r})")

    def setattr(self, o, name, value):
        if isinstance(o, Obj):
            if o.cls is not None:
                try:
                    v = self._class_attr(o.cls, name, o)
                except AbsRaise:
                    v = None
                if isinstance(v, PropertyVal):
                    if v.set is None:
                        raise AbsRaise("AttributeError", f"can't set attribute {name}")
                    self.call(v.set, [o, value], {})
                    return
            o.attrs[name] = value
            return
        if isinstance(o, Closure):
            return      # p_set.__annotations__[...] = ... style bookkeeping
        raise Unsupported(f"attribute store on {o!r}")

    def delattr(self, o, name):
        if isinstance(o, Obj) and o.cls is not None:
            try:
                v = self._class_attr(o.cls, name, o)
            except AbsRaise:
                v = None
            if isinstance(v, PropertyVal):
                if v.delete is None:
                    raise AbsRaise("AttributeError", f"can't delete attribute {name}")
                self.call(v.delete, [o], {})
                return
            if name in o.attrs:
                del o.attrs[name]
                return
            raise AbsRaise("AttributeError", name)
        raise Unsupported(f"del attribute on {o!r}")

    # ---- subscripts -------------------------------------------------------
    def getitem(self, o, idx):
        if isinstance(o, Obj) and o.items is not None:
            ov = self.model.lookup_method(o.cls, "__getitem__")
            if ov is not None and ov.cls.qualname != "caselessdict.CaselessDict":
                return self.call(Bound(Closure(ov), o), [idx], {})
            k = self._key(idx)
            if k not in o.items:
                raise AbsRaise("KeyError", k)
            return o.items[k]
        if isinstance(o, (list, tuple)):
            if isinstance(idx, slice):
                return o[idx]
            try:
                return o[self._concrete_int(idx)]
            except IndexError:
                raise AbsRaise("IndexError", "index out of range")
        if isinstance(o, dict):
            if idx not in o:
                raise AbsRaise("KeyError", repr(idx))
            return o[idx]
        if isinstance(o, NativeObj) and o.name == "types_factory":
            reg = self.model.types_registry()
            ent = reg.get(self._key(idx))
            if ent is None:
                raise AbsRaise("KeyError", idx)
            return ClassVal(ent[0])
        if isinstance(o, Obj) and o.strval is not None and \
                self.model.lookup_method(o.cls, "__getitem__") is None:
            o = o.strval
        if isinstance(o, Obj) and o.listval is not None and \
                self.model.lookup_method(o.cls, "__getitem__") is None:
            o = o.listval
            if not isinstance(idx, slice):
                try:
                    return o[self._concrete_int(idx)]
                except IndexError:
                    raise AbsRaise("IndexError", "index out of range")
            return o[idx]
        if isinstance(o, (str, bytes)):
            try:
                return o[idx]
            except IndexError:
                raise AbsRaise("IndexError", "string index out of range")
        if isinstance(o, Unknown):
            return Unknown(f"{o.why}[...]")
        raise Unsupported(f"subscript of {o!r}")

    def setitem(self, o, idx, value):
        if isinstance(o, Obj) and o.items is not None:
            o.items[self._key(idx)] = value
            return
        if isinstance(o, (list, dict)):
            o[idx] = value
            return
        raise Unsupported(f"item store on {o!r}")

    def delitem(self, o, idx):
        if isinstance(o, Obj) and o.items is not None:
            k = self._key(idx)
            if k not in o.items:
                raise AbsRaise("KeyError", k)
            del o.items[k]
            return
        if isinstance(o, (list, dict)):
            del o[idx]
            return
        raise Unsupported(f"item delete on {o!r}")

    # ---- arithmetic -------------------------------------------------------
    def binop(self, op, a, b):
        if isinstance(a, TD) and isinstance(b, TD) and a.secs is not None and b.secs is not None \
                and isinstance(op, (ast.Add, ast.Sub)):
            sc = a.secs + b.secs if isinstance(op, ast.Add) else a.secs - b.secs
            return TD(secs=sc, term={"second": sc} if sc else {})
        if isinstance(a, (set, frozenset)) and isinstance(b, (set, frozenset)):
            if isinstance(op, ast.Sub):
                return a - b
            if isinstance(op, ast.BitOr):
                return a | b
            if isinstance(op, ast.BitAnd):
                return a & b
            if isinstance(op, ast.BitXor):
                return a ^ b
        if a is None or b is None:
            raise AbsRaise("TypeError", f"unsupported operand type(s): NoneType")
        if isinstance(op, ast.Add):
            if isinstance(a, DT) and isinstance(b, TD):
                self.ops_seen.add("date+timedelta")
                return self._shift(a, b, 1)
            if isinstance(a, TD) and isinstance(b, DT):
                return self._shift(b, a, 1)
            if isinstance(a, TD) and isinstance(b, TD):
                if a.mag == "zero" or b.mag == "zero":
                    z, o = (a, b) if a.mag == "zero" else (b, a)
                    if not z.term or o.term is None:
                        return o
                    # numerically o; the symbolic term keeps the (zero) summand
                    return TD(term=term_add(a.term, b.term), mag=o.mag, tag=o.tag, secs=o.secs)
                return TD(a.seconds_zero and b.seconds_zero, term_add(a.term, b.term))
            if isinstance(a, DT) and isinstance(b, DT):
                raise AbsRaise("TypeError", "unsupported operand type(s) for +")
            if isinstance(a, list) and isinstance(b, list):
                return a + b
            if isinstance(a, tuple) and isinstance(b, tuple):
                return a + b
            if isinstance(a, (int, float)) and isinstance(b, (int, float)):
                return a + b
            if isinstance(a, str) and isinstance(b, str):
                return a + b
            if isinstance(a, list) and not isinstance(b, list):
                raise AbsRaise("TypeError", "can only concatenate list to list")
        if isinstance(op, ast.Sub):
            if isinstance(a, DT) and isinstance(b, TD):
                return self._shift(a, b, -1)
            if isinstance(a, DT) and isinstance(b, DT):
                self.ops_seen.add("date-date")
                if a.is_datetime != b.is_datetime:
                    raise AbsRaise("TypeError", "unsupported operand type(s) for -: date and datetime")
                if a.is_datetime and a.aware != b.aware:
                    raise AbsRaise("TypeError", "can't subtract offset-naive and offset-aware datetimes")
                t = term_add(a.term, b.term, -1) if a.term is not None \
                    and b.term is not None else None
                if t == {}:
                    return TD(term={}, secs=0)
                if a.aware and (a.kind, a.zone) != (b.kind, b.zone):
                    # aware values of different zones are subtracted as instants; adding the
                    # result to a zoned value moves its *wall clock* by that much instead
                    return TD(not a.is_datetime, t, tag="instant-diff")
                return TD(not a.is_datetime, t, tag="diff")
            if isinstance(a, (int, float)) and isinstance(b, (int, float)):
                return a - b
        if isinstance(op, ast.Mult):
            if isinstance(a, int) and isinstance(b, TD):
                a, b = b, a
            if isinstance(a, TD) and isinstance(b, int):
                if b == 0:
                    return TD(term={}, secs=0)
                return TD(a.seconds_zero, term_scale(a.term, b),
                          secs=a.secs * b if a.secs is not None else None,
                          mag=None if a.secs is not None else
                          (a.mag if abs(b) == 1 or a.mag in ("days", "zero") else
                           ("subday" if a.mag == "subday" and False else None) or a.mag))
            if isinstance(a, (int, float)) and isinstance(b, (int, float)):
                return a * b
            if isinstance(a, int) and not isinstance(a, bool) and isinstance(b, (list, tuple)):
                a, b = b, a
            if isinstance(a, (list, tuple)) and isinstance(b, int) and not isinstance(b, bool):
                return a * b
        if isinstance(op, ast.Mod) and isinstance(a, bytes):
            args = b if isinstance(b, tuple) else (b,)
            args = tuple(x.strval if isinstance(x, Obj) and x.strval is not None else x for x in args)
            if is_opaque(a) or any(is_opaque(x) for x in args):
                return OpaqueBytes("formatted text")
            if all(isinstance(x, (bytes, int, float)) for x in args):
                try:
                    return a % args
                except (TypeError, ValueError) as e:
                    raise AbsRaise(type(e).__name__, str(e))
            raise Unsupported(f"bytes %-formatting with {args!r}")
        if isinstance(op, ast.Mod) and isinstance(a, str):
            args = b if isinstance(b, tuple) else (b,)
            args = tuple(x.strval if isinstance(x, Obj) and x.strval is not None else x for x in args)
            if is_opaque(a) or any(is_opaque(x) for x in args):
                return OpaqueStr("formatted text")
            if all(isinstance(x, (str, int, float, bytes)) for x in args):
                try:
                    return a % args
                except (TypeError, ValueError) as e:
                    raise AbsRaise(type(e).__name__, str(e))
            return OpaqueStr("formatted text")
        # concrete Python scalars and strings: Python's own semantics
        ua = a.strval if isinstance(a, Obj) and a.strval is not None else a
        ub = b.strval if isinstance(b, Obj) and b.strval is not None else b
        prim = (str, bytes, int, float)
        if isinstance(ua, prim) and isinstance(ub, prim):
            import operator as _op
            fn = {ast.Add: _op.add, ast.Sub: _op.sub, ast.Mult: _op.mul, ast.FloorDiv: _op.floordiv,
                  ast.Mod: _op.mod, ast.Div: _op.truediv, ast.Pow: _op.pow, ast.BitAnd: _op.and_,
                  ast.BitOr: _op.or_, ast.BitXor: _op.xor, ast.LShift: _op.lshift,
                  ast.RShift: _op.rshift}.get(type(op))
            if fn is not None:
                try:
                    return fn(ua, ub)
                except TypeError as e:
                    raise AbsRaise("TypeError", str(e))
                except ZeroDivisionError as e:
                    raise AbsRaise("ZeroDivisionError", str(e))
                except OverflowError as e:
                    raise AbsRaise("OverflowError", str(e))
        raise Unsupported(f"operator {type(op).__name__} on {a!r}, {b!r}")

    def _shift(self, d, td, sign):
        term = None
        if d.term is not None and td.term is not None:
            term = term_add(d.term, td.term, sign)
        if not d.is_datetime and not td.seconds_zero:
            # date + timedelta with a time part: Python drops the time part
            self.ops_seen.add("date+timedelta(seconds) drops time")
            return DT("date", None, term, None, tag="seconds-dropped")
        rank = d.rank
        if rank is not None and td.secs is not None and d.term is not None and set(d.term) <= {"second"}:
            rank = rank + sign * td.secs        # concrete instant, concrete duration
        elif rank is not None and td.mag != "zero":
            # abstract durations are positive: the result is strictly later/earlier
            rank = rank + (0.5 if sign > 0 else -0.5)
        tag = d.tag if d.tag in ("seconds-dropped", "instant-moved", "elapsed-arith") else None
        if isinstance(d.tag, str) and d.tag.startswith("utc-of:"):
            tag = d.tag if td.mag == "zero" or d.tag.endswith("+shifted") else d.tag + "+shifted"
        if tag is None and d.kind == "zoned" and td.tag == "instant-diff" and self.provider != "pytz":
            # wall-clock arithmetic with a difference of instants: off by the change of the
            # zone's offset between the two ends
            tag = "instant-moved"
        if tag is None and self.provider == "pytz" and d.kind == "zoned" and td.mag != "zero":
            # pytz: arithmetic keeps the old fixed offset - the instant is right, the
            # wall clock may be off by a DST delta until tz.normalize() is applied
            tag = "pytz-stale-offset"
        return DT(d.kind, rank, term, d.zone, tag=tag)

    # ---- calls -------------------------------------------------------------
    def call(self, f, args, kwargs):
        self.steps += 1
        if self.steps > 400000:
            raise Unsupported("step budget exhausted")
        if isinstance(f, Native):
            return f.fn(self, list(args), dict(kwargs))
        if isinstance(f, Bound):
            return self.call(f.func, [f.self_val] + list(args), kwargs)
        if isinstance(f, Closure):
            return self._call_closure(f, list(args), dict(kwargs))
        if isinstance(f, ClassVal):
            return self.instantiate(f.ci, list(args), dict(kwargs))
        if isinstance(f, TypeTok):
            return self._call_type(f, list(args), dict(kwargs))
        if isinstance(f, NTClass):
            return self._make_nt(f, list(args), dict(kwargs))
        if isinstance(f, NativeObj) and f.name == "itertools.chain":
            return [y for x in args for y in self._as_list(x)]
        if isinstance(f, PropertyVal):
            raise AbsRaise("TypeError", "'property' object is not callable")
        raise Unsupported(f"call of {f!r}")

    def _call_type(self, t, args, kwargs):
        if t.name in self.type_ctor:
            return self.type_ctor[t.name].fn(self, args, kwargs)
        if t.name == "timedelta":
            names = ["days", "seconds", "microseconds", "milliseconds", "minutes", "hours", "weeks"]
            vals = dict(zip(names, [self._concrete_int(a) for a in args]))
            for kk, vv in kwargs.items():
                if kk not in names:
                    raise AbsRaise("TypeError", f"timedelta() got an unexpected keyword {kk}")
                vals[kk] = self._concrete_int(vv)
            if vals.get("microseconds") or vals.get("milliseconds"):
                raise Unsupported("sub-second timedelta")
            secs = (vals.get("seconds", 0) + 60 * vals.get("minutes", 0)
                    + 3600 * vals.get("hours", 0)
                    + 86400 * (vals.get("days", 0) + 7 * vals.get("weeks", 0)))
            if secs == 0:
                return TD(term={}, secs=0)
            if secs % 86400 == 0:
                return TD(term={"day": secs // 86400}, secs=secs)
            return TD(term={"second": secs}, secs=secs)
        if t.name == "datetime":
            # datetime(dt.year, dt.month, dt.day): midnight of a date (to_datetime)
            if len(args) == 3 and all(isinstance(a, tuple) and a and a[0] == "field" for a in args):
                src = getattr(self, "_field_src", None)
                if src is not None:
                    return src.with_(kind="naive", zone=None)
            if args and all(isinstance(a, int) and not isinstance(a, bool) for a in args) \
                    and set(kwargs) <= {"tzinfo"}:
                import datetime as _dt
                try:
                    _dt.datetime(*args)
                except ValueError as e:
                    raise AbsRaise("ValueError", str(e))
                except TypeError as e:
                    raise AbsRaise("TypeError", str(e))
                tz = kwargs.get("tzinfo")
                # a concrete wall time is ordered against other concrete ones
                epoch = int((_dt.datetime(*args) - _dt.datetime(1970, 1, 1)).total_seconds())
                if isinstance(tz, TZ):
                    if tz.kind == "utc":
                        return DT("utc", epoch, {"second": epoch}, None, tag="from-fields")
                    return DT("zoned", None, None, tz.key_, tag="from-fields")
                if tz is not None:
                    raise Unsupported(f"datetime(..., tzinfo={tz!r})")
                return DT("naive", epoch, {"second": epoch}, None, tag="from-fields")
            raise Unsupported("datetime(...) constructor")
        if t.name == "date":
            if args and all(isinstance(a, int) and not isinstance(a, bool) for a in args):
                import datetime as _dt
                try:
                    _dt.date(*args)
                except ValueError as e:
                    raise AbsRaise("ValueError", str(e))
                except TypeError as e:
                    raise AbsRaise("TypeError", str(e))
                epoch = (_dt.date(*args) - _dt.date(1970, 1, 1)).days * 86400
                return DT("date", epoch, {"second": epoch}, None, tag="from-fields")
            raise Unsupported("date(...) constructor")
        if t.name == "time":
            if all(isinstance(a, int) and not isinstance(a, bool) for a in args):
                import datetime as _dt
                try:
                    _dt.time(*args)
                except ValueError as e:
                    raise AbsRaise("ValueError", str(e))
                except TypeError as e:
                    raise AbsRaise("TypeError", str(e))
                tz = kwargs.get("tzinfo")
                return TimeVal("naive" if tz is None else "utc")
            raise Unsupported("time(...) constructor")
        if t.name in BUILTIN_EXC:
            o = Obj(None)
            o.attrs["__exc__"] = t.name
            return o
        if t.name == "list":
            return list(self._as_list(args[0])) if args else []
        if t.name == "bool":
            return self.truth(args[0]) if args else False
        if t.name == "float":
            x = args[0] if args else 0.0
            if isinstance(x, Obj):
                x = x.attrs.get("floatval", x.attrs.get("intval", x.strval))
            try:
                return float(x)
            except (TypeError, ValueError) as e:
                raise AbsRaise(type(e).__name__, str(e))
        if t.name == "frozenset":
            return frozenset(self._as_list(args[0])) if args else frozenset()
        if t.name == "bytearray":
            raise Unsupported("bytearray(...) values")
        if t.name == "bytes":
            x = args[0] if args else b""
            if isinstance(x, Obj) and x.strval is not None:
                x = x.strval
            try:
                return bytes(x, *args[1:], **kwargs) if isinstance(x, str) else bytes(x)
            except (TypeError, ValueError) as e:
                raise AbsRaise(type(e).__name__, str(e))
        raise Unsupported(f"call of type {t.name}")

    def instantiate(self, ci, args, kwargs):
        # class X(NamedTuple): a: T; b: T = default
        if any(str(b).split(".")[-1] == "NamedTuple" for b in self.model.mro(ci)
               if not isinstance(b, ClassInfo)):
            fields, defaults = [], {}
            for st in ci.node.body:
                if isinstance(st, ast.AnnAssign) and isinstance(st.target, ast.Name):
                    fields.append(st.target.id)
                    if st.value is not None:
                        defaults[st.target.id] = self.eval(st.value, Env(self, ci.module, {}, cls_scope=ci))
            return self._make_nt(NTClass(ci.name, fields, defaults), list(args), dict(kwargs))
        # exceptions defined in the repo
        if any(x in BUILTIN_EXC for x in self.exc_bases(ci.name)[1:]) and \
                not self.model.is_subclass(ci, "caselessdict.CaselessDict"):
            o = Obj(ci)
            o.attrs["__exc__"] = ci.name
            return o
        is_mapping = self.model.is_subclass(ci, "caselessdict.CaselessDict")
        o = Obj(ci, OrderedDict() if is_mapping else None)
        bases = [str(b).split(".")[-1] for b in self.model.mro(ci) if not isinstance(b, ClassInfo)]
        new = self.model.lookup_method(ci, "__new__")
        if new is not None:
            # str/int subclasses: run __new__ with a native super().__new__
            res = self._call_closure(Closure(new), [ClassVal(ci)] + args, kwargs, new_obj=o)
            return res
        if "str" in bases and args:
            o.strval = self._str(args[0])
        if "list" in bases and self.model.lookup_method(ci, "__init__") is None:
            o.listval = list(self._as_list(args[0])) if args else []
            return o
        init = self.model.lookup_method(ci, "__init__")
        if init is not None and init.cls.qualname != "caselessdict.CaselessDict":
            self._call_closure(Closure(init), [o] + args, kwargs)
        elif is_mapping:
            self._mapping_init(o, args, kwargs)
        return o

    def _mapping_init(self, o, args, kwargs):
        args = [a.take_all() if isinstance(a, LazyGen) else a for a in args]
        for m in args:
            if isinstance(m, Obj) and m.items is not None:
                for k, v in m.items.items():
                    o.items[self._key(k)] = v
            elif isinstance(m, dict):
                for k, v in m.items():
                    o.items[self._key(k)] = v
            elif isinstance(m, (list, tuple)):
                for k, v in m:
                    o.items[self._key(k)] = v
            else:
                raise Unsupported(f"mapping constructed from {m!r}")
        for k, v in kwargs.items():
            o.items[self._key(k)] = v

    def _bind(self, node, args, kwargs, closure):
        a = node.args
        params = [x.arg for x in a.posonlyargs + a.args]
        env = {}
        defaults = a.defaults
        dmap = dict(zip(params[len(params) - len(defaults):], defaults))
        args = list(args)
        for i, p in enumerate(params):
            if i < len(args):
                env[p] = args[i]
            elif p in kwargs:
                env[p] = kwargs.pop(p)
            elif p in dmap:
                env[p] = ("__default__", dmap[p])
            else:
                raise AbsRaise("TypeError", f"missing argument {p}")
        extra = args[len(params):]
        if a.vararg is not None:
            env[a.vararg.arg] = tuple(extra)
        elif extra:
            raise AbsRaise("TypeError", "too many positional arguments")
        for kw, d in zip(a.kwonlyargs, a.kw_defaults):
            if kw.arg in kwargs:
                env[kw.arg] = kwargs.pop(kw.arg)
            elif d is not None:
                env[kw.arg] = ("__default__", d)
            else:
                raise AbsRaise("TypeError", f"missing keyword-only argument {kw.arg}")
        if a.kwarg is not None:
            env[a.kwarg.arg] = dict(kwargs)
        elif kwargs:
            raise AbsRaise("TypeError", f"unexpected keyword argument {list(kwargs)[0]}")
        return env

    KNOWN_DECORATORS = ("property", "classmethod", "staticmethod", "abstractmethod", "abc.abstractmethod",
                        "functools.cached_property", "cached_property")

    def _memo_key(self, x):
        """Python hash/equality of a cache key (functools.lru_cache semantics)."""
        if isinstance(x, (str, bytes, int, float, bool)) or x is None:
            return x
        if isinstance(x, tuple):
            return tuple(self._memo_key(y) for y in x)
        if isinstance(x, (list, dict, set)):
            raise AbsRaise("TypeError", f"unhashable type: {type(x).__name__!r}")
        if isinstance(x, Obj):
            if x.cls is not None and (self.model.lookup_method(x.cls, "__hash__") is not None
                                      or (self.model.lookup_method(x.cls, "__eq__") is not None
                                          and x.strval is None and "intval" not in x.attrs)):
                if x.items is not None or x.listval is not None:
                    raise AbsRaise("TypeError", "unhashable type")
                raise Unsupported(f"cache key with a custom __hash__/__eq__: {x!r}")
            if x.items is not None or x.listval is not None:
                raise AbsRaise("TypeError", "unhashable type")
            if x.strval is not None:
                return x.strval          # str subclasses hash and compare as their text
            if "intval" in x.attrs:
                return x.attrs["intval"]  # int subclasses (vInt, vBoolean): True == 1 == 1.0
            if "floatval" in x.attrs:
                return x.attrs["floatval"]
            return ("obj", x.uid)
        if isinstance(x, (DT, TD)):
            return ("val", repr(x.key()))
        if isinstance(x, ClassVal):
            return ("class", x.ci.qualname)
        if isinstance(x, TypeTok):
            return ("type", x.name)
        raise Unsupported(f"cache key {x!r}")

    def _call_closure(self, f, args, kwargs, new_obj=None):
        node = f.node
        if f.fi is not None and f.fi.qualname in self.contracts:
            return self.contracts[f.fi.qualname](self, args, kwargs)
        # decorators change what a call does: the memoising ones are modelled,
        # anything unknown stops the analysis instead of being ignored
        if f.fi is not None and f.fi.decorators and not getattr(self, "_in_memo", None) == f.fi.qualname:
            for d in f.fi.decorators:
                base = d.split("(")[0]
                if base in self.KNOWN_DECORATORS or base.endswith((".setter", ".getter", ".deleter")):
                    continue
                if base in ("functools.lru_cache", "lru_cache", "functools.cache", "cache"):
                    memo = self.__dict__.setdefault("_memo", {}).setdefault(f.fi.qualname, {})
                    key = (tuple(self._memo_key(a) for a in args),
                           tuple(sorted((k, self._memo_key(v)) for k, v in kwargs.items())))
                    if key in memo:
                        return memo[key]
                    prev = getattr(self, "_in_memo", None)
                    self._in_memo = f.fi.qualname
                    try:
                        r = self._call_closure(f, args, kwargs, new_obj)
                    finally:
                        self._in_memo = prev
                    memo[key] = r
                    return r
                raise Unsupported(f"decorator @{d} on {f.fi.qualname}")
        self.depth += 1
        if self.depth > self.MAX_DEPTH:
            self.depth -= 1
            raise Unsupported("inlining depth exceeded")
        try:
            bound = self._bind(node, args, kwargs, f)
            module = f.module
            env = Env(self, module, dict(f.env), func=f, new_obj=new_obj)
            for k, v in bound.items():
                if isinstance(v, tuple) and len(v) == 2 and v[0] == "__default__":
                    v = self.eval(v[1], Env(self, module, dict(f.env)))
                env.locals[k] = v
            if isinstance(node, ast.Lambda):
                return self.eval(node.body, env)
            is_gen = getattr(node, "_sa_is_gen", None)      # (kept on the node: id() is reused)
            if is_gen is None:
                is_gen = any(isinstance(n, (ast.Yield, ast.YieldFrom))
                             for n in _walk_fn(node))
                node._sa_is_gen = is_gen
            if is_gen:
                def thunk(env=env, node=node):
                    env.yields = []
                    self.depth += 1
                    try:
                        if self.depth > self.MAX_DEPTH:
                            raise Unsupported("inlining depth exceeded")
                        try:
                            self.exec_block(node.body, env)
                        except _Return:
                            pass
                    finally:
                        self.depth -= 1
                    return env.yields
                return LazyGen(thunk)
            try:
                self.exec_block(node.body, env)
            except _Return as r:
                return r.value
            return None
        finally:
            self.depth -= 1

    # ---- statements --------------------------------------------------------
    def exec_block(self, stmts, env):
        for st in stmts:
            self.exec_stmt(st, env)

    def exec_stmt(self, st, env):
        if isinstance(st, ast.Expr):
            self.eval(st.value, env)
        elif isinstance(st, ast.Assign):
            v = self.eval(st.value, env)
            for t in st.targets:
                self.assign(t, v, env)
        elif isinstance(st, ast.AnnAssign):
            if st.value is not None:
                self.assign(st.target, self.eval(st.value, env), env)
        elif isinstance(st, ast.AugAssign):
            cur = self.eval(_load(st.target), env)
            v = self.eval(st.value, env)
            if isinstance(st.op, ast.Add) and isinstance(cur, list):
                cur.extend(self._as_list(v))
                return
            self.assign(st.target, self.binop(st.op, cur, v), env)
        elif isinstance(st, ast.Return):
            raise _Return(self.eval(st.value, env) if st.value is not None else None)
        elif isinstance(st, ast.If):
            if self.truth(self.eval(st.test, env)):
                self.exec_block(st.body, env)
            else:
                self.exec_block(st.orelse, env)
        elif isinstance(st, ast.For):
            it = self._as_list(self.eval(st.iter, env))
            broke = False
            for x in it:
                self.assign(st.target, x, env)
                try:
                    self.exec_block(st.body, env)
                except _Break:
                    broke = True
                    break
                except _Continue:
                    continue
            if not broke:
                self.exec_block(st.orelse, env)
        elif isinstance(st, ast.While):
            n = 0
            while self.truth(self.eval(st.test, env)):
                n += 1
                if n > 1000:
                    raise Unsupported("while loop does not terminate on the abstract input")
                try:
                    self.exec_block(st.body, env)
                except _Break:
                    break
                except _Continue:
                    continue
        elif isinstance(st, ast.Raise):
            if st.exc is None:
                raise env.current_exc
            e = self.eval(st.exc, env)
            raise AbsRaise(self._exc_name(e), f"raised at {env.module.rel}:{st.lineno}")
        elif isinstance(st, ast.Try):
            self._try(st, env)
        elif isinstance(st, ast.Pass):
            pass
        elif isinstance(st, ast.Break):
            raise _Break()
        elif isinstance(st, ast.Continue):
            raise _Continue()
        elif isinstance(st, ast.Assert):
            if not self.truth(self.eval(st.test, env)):
                raise AbsRaise("AssertionError")
        elif isinstance(st, ast.Delete):
            for t in st.targets:
                if isinstance(t, ast.Attribute):
                    self.delattr(self.eval(t.value, env), t.attr)
                elif isinstance(t, ast.Subscript):
                    self.delitem(self.eval(t.value, env), self.eval(t.slice, env))
                elif isinstance(t, ast.Name):
                    env.locals.pop(t.id, None)
        elif isinstance(st, (ast.FunctionDef,)):
            fi = FuncInfo(env.module, None, st, f"<local>.{st.name}")
            env.locals[st.name] = Closure(fi, env.locals, st, env.module)
        elif isinstance(st, (ast.Import, ast.ImportFrom)):
            self._import(st, env)
        elif isinstance(st, (ast.Global, ast.Nonlocal)):
            pass
        else:
            raise Unsupported(f"statement {type(st).__name__}")

    def _import(self, st, env):
        if isinstance(st, ast.ImportFrom):
            mod = env.module._resolve_rel(st.level, st.module)
            m = self.model.modules.get(mod)
            for a in st.names:
                if m is not None:
                    r = self.model.resolve_name(m, a.name)
                    env.locals[a.asname or a.name] = self._wrap_resolved(r, a.name)
                else:
                    t = external_type(f"{mod}.{a.name}")
                    env.locals[a.asname or a.name] = t if t else Unknown(f"import {mod}.{a.name}")

    def _exc_name(self, e):
        if isinstance(e, Obj) and "__exc__" in e.attrs:
            return e.attrs["__exc__"]
        if isinstance(e, TypeTok):
            return e.name
        if isinstance(e, ClassVal):
            return e.ci.name
        raise Unsupported(f"raise of {e!r}")

    def _try(self, st, env):
        try:
            try:
                self.exec_block(st.body, env)
            except AbsRaise as e:
                for h in st.handlers:
                    names = self._handler_names(h, env)
                    if names is None or self.exc_matches(e.cls_name, names):
                        if h.name:
                            eo = Obj(None)
                            eo.attrs["__exc__"] = e.cls_name
                            env.locals[h.name] = eo
                        prev = env.current_exc
                        env.current_exc = e
                        try:
                            self.exec_block(h.body, env)
                        finally:
                            env.current_exc = prev
                        break
                else:
                    raise
            else:
                self.exec_block(st.orelse, env)
        finally:
            if st.finalbody:
                self.exec_block(st.finalbody, env)

    def _handler_names(self, h, env):
        if h.type is None:
            return None
        v = self.eval(h.type, env)
        vs = v if isinstance(v, tuple) else (v,)
        out = []
        for x in vs:
            if isinstance(x, TypeTok):
                out.append(x.name)
            elif isinstance(x, ClassVal):
                out.append(x.ci.name)
            else:
                raise Unsupported(f"except clause {x!r}")
        return out

    def assign(self, t, v, env):
        if isinstance(t, ast.Name):
            env.locals[t.id] = v
        elif isinstance(t, (ast.Tuple, ast.List)):
            vals = self._as_list(v) if not (isinstance(v, tuple) and v and v[0] == "namedtuple") else None
            stars = [i for i, tt in enumerate(t.elts) if isinstance(tt, ast.Starred)]
            if stars:
                if len(stars) > 1 or vals is None:
                    raise Unsupported("starred assignment target")
                i = stars[0]
                after = len(t.elts) - i - 1
                if len(vals) < len(t.elts) - 1:
                    raise AbsRaise("ValueError", "not enough values to unpack")
                for tt, vv in zip(t.elts[:i], vals[:i]):
                    self.assign(tt, vv, env)
                self.assign(t.elts[i].value, list(vals[i:len(vals) - after]), env)
                for tt, vv in zip(t.elts[i + 1:], vals[len(vals) - after:] if after else []):
                    self.assign(tt, vv, env)
                return
            if vals is None or len(vals) != len(t.elts):
                raise AbsRaise("ValueError", "unpack")
            for tt, vv in zip(t.elts, vals):
                self.assign(tt, vv, env)
        elif isinstance(t, ast.Attribute):
            self.setattr(self.eval(t.value, env), t.attr, v)
        elif isinstance(t, ast.Subscript):
            self.setitem(self.eval(t.value, env), self.eval(t.slice, env), v)
        else:
            raise Unsupported(f"assignment target {type(t).__name__}")

    # ---- expressions -------------------------------------------------------
    def eval(self, e, env):
        if isinstance(e, ast.Constant):
            return e.value
        if isinstance(e, ast.Name):
            return env.lookup(e.id)
        if isinstance(e, ast.Attribute):
            o = self.eval(e.value, env)
            if isinstance(o, DT) and e.attr in ("year", "month", "day"):
                self._field_src = o
            return self.getattr(o, e.attr)
        if isinstance(e, ast.Call):
            return self._eval_call(e, env)
        if isinstance(e, ast.Compare):
            left = self.eval(e.left, env)
            for op, c in zip(e.ops, e.comparators):
                right = self.eval(c, env)
                if not self.compare(op, left, right):
                    return False
                left = right
            return True
        if isinstance(e, ast.BoolOp):
            v = None
            for x in e.values:
                v = self.eval(x, env)
                t = self.truth(v)
                if isinstance(e.op, ast.And) and not t:
                    return v
                if isinstance(e.op, ast.Or) and t:
                    return v
            return v
        if isinstance(e, ast.UnaryOp):
            v = self.eval(e.operand, env)
            if isinstance(e.op, ast.Not):
                return not self.truth(v)
            if isinstance(e.op, ast.USub):
                if isinstance(v, (int, float)):
                    return -v
                if isinstance(v, TD):
                    return TD(term=term_scale(v.term, -1), mag=v.mag,
                              secs=-v.secs if v.secs is not None else None)
            raise Unsupported(f"unary {type(e.op).__name__} on {v!r}")
        if isinstance(e, ast.BinOp):
            return self.binop(e.op, self.eval(e.left, env), self.eval(e.right, env))
        if isinstance(e, ast.IfExp):
            return self.eval(e.body if self.truth(self.eval(e.test, env)) else e.orelse, env)
        if isinstance(e, ast.Tuple):
            return tuple(self._elts(e.elts, env))
        if isinstance(e, ast.List):
            return list(self._elts(e.elts, env))
        if isinstance(e, ast.Set):
            return set(self._elts(e.elts, env))
        if isinstance(e, ast.Dict):
            return {self.eval(k, env): self.eval(v, env) for k, v in zip(e.keys, e.values)}
        if isinstance(e, ast.Subscript):
            o = self.eval(e.value, env)
            if isinstance(e.slice, ast.Slice):
                lo = self.eval(e.slice.lower, env) if e.slice.lower else None
                hi = self.eval(e.slice.upper, env) if e.slice.upper else None
                return self.getitem(o, slice(lo, hi))
            return self.getitem(o, self.eval(e.slice, env))
        if isinstance(e, ast.JoinedStr):
            parts = []
            concrete = True
            for v in e.values:
                if isinstance(v, ast.FormattedValue):
                    try:
                        x = self.eval(v.value, env)
                    except Unsupported:
                        concrete = False
                        continue
                    if isinstance(x, Obj) and x.strval is not None:
                        x = x.strval
                    spec = ""
                    if v.format_spec is not None:
                        sp = self.eval(v.format_spec, env)
                        if isinstance(sp, str) and "<" not in sp[:1]:
                            spec = sp
                        else:
                            concrete = False
                    got = self.format_value(x, spec, v.conversion)
                    if got is None:
                        concrete = False
                    else:
                        parts.append(got)
                elif isinstance(v, ast.Constant):
                    parts.append(str(v.value))
            return "".join(parts) if concrete else OpaqueStr("formatted text")
        if isinstance(e, ast.GeneratorExp):
            # the outermost iterable is evaluated where the generator is created
            first = self._as_list(self.eval(e.generators[0].iter, env))

            def thunk(e=e, env=env, first=first):
                out = []
                self._comp(e.generators, 0, env, lambda en: out.append(self.eval(e.elt, en)), first)
                return out
            return LazyGen(thunk)
        if isinstance(e, (ast.ListComp, ast.SetComp)):
            out = []
            self._comp(e.generators, 0, env, lambda en: out.append(self.eval(e.elt, en)))
            return out if not isinstance(e, ast.SetComp) else set(out)
        if isinstance(e, ast.DictComp):
            out = {}
            self._comp(e.generators, 0, env,
                       lambda en: out.__setitem__(self.eval(e.key, en), self.eval(e.value, en)))
            return out
        if isinstance(e, ast.Lambda):
            return Closure(None, env.locals, e, env.module)
        if isinstance(e, ast.Yield):
            env.yields.append(self.eval(e.value, env) if e.value else None)
            return None
        if isinstance(e, ast.YieldFrom):
            env.yields.extend(self._as_list(self.eval(e.value, env)))
            return None
        if isinstance(e, ast.NamedExpr):
            v = self.eval(e.value, env)
            # the target binds in the enclosing function scope
            scope = env
            while scope.parent is not None and getattr(scope, "comp_scope", False):
                scope = scope.parent
            self.assign(e.target, v, scope)
            return v
        if isinstance(e, ast.Starred):
            raise Unsupported("starred expression")
        raise Unsupported(f"expression {type(e).__name__}")

    def _elts(self, elts, env):
        out = []
        for x in elts:
            if isinstance(x, ast.Starred):
                out.extend(self._as_list(self.eval(x.value, env)))
            else:
                out.append(self.eval(x, env))
        return out

    def _comp(self, gens, i, env, emit, first=None):
        if i == len(gens):
            emit(env)
            return
        g = gens[i]
        for x in (first if first is not None and i == 0 else self._as_list(self.eval(g.iter, env))):
            sub = env.child()
            self.assign(g.target, x, sub)
            if all(self.truth(self.eval(c, sub)) for c in g.ifs):
                self._comp(gens, i + 1, sub, emit)

    def _eval_call(self, e, env):
        # super().__xxx__(...)
        f = e.func
        if isinstance(f, ast.Attribute) and isinstance(f.value, ast.Call) \
                and isinstance(f.value.func, ast.Name) and f.value.func.id == "super":
            return self._super_call(f.attr, e, env)
        fn = self.eval(f, env)
        args = []
        for a in e.args:
            if isinstance(a, ast.Starred):
                args.extend(self._as_list(self.eval(a.value, env)))
            else:
                args.append(self.eval(a, env))
        kwargs = {}
        for k in e.keywords:
            if k.arg is None:
                kwargs.update(self.eval(k.value, env))
            else:
                kwargs[k.arg] = self.eval(k.value, env)
        return self.call(fn, args, kwargs)

    def _super_call(self, meth, e, env):
        fi = env.func.fi if env.func else None
        if fi is None or fi.cls is None:
            raise Unsupported("super() outside a method")
        args = [self.eval(a, env) for a in e.args if not isinstance(a, ast.Starred)]
        for a in e.args:
            if isinstance(a, ast.Starred):
                args.extend(self._as_list(self.eval(a.value, env)))
        kwargs = {}
        for k in e.keywords:
            if k.arg is None:
                kwargs.update(self.eval(k.value, env))
            else:
                kwargs[k.arg] = self.eval(k.value, env)
        selfv = env.locals.get(fi.params[0])
        inst_cls = selfv.cls if isinstance(selfv, Obj) else (selfv.ci if isinstance(selfv, ClassVal) else fi.cls)
        mro = [c for c in self.model.mro(inst_cls)]
        idx = next((i for i, c in enumerate(mro) if c is fi.cls), None)
        rest = mro[idx + 1:] if idx is not None else []
        for c in rest:
            if isinstance(c, ClassInfo):
                if c.qualname == "caselessdict.CaselessDict":
                    return self._native_super("dict", meth, selfv, args, kwargs, env)
                if meth in c.methods:
                    return self._call_closure(Closure(c.methods[meth]), [selfv] + args, kwargs,
                                              new_obj=env.new_obj)
            else:
                base = str(c).split(".")[-1]
                return self._native_super(base, meth, selfv, args, kwargs, env)
        return self._native_super("object", meth, selfv, args, kwargs, env)

    def _native_super(self, base, meth, selfv, args, kwargs, env):
        if meth == "__init__":
            if isinstance(selfv, Obj) and selfv.items is not None:
                self._mapping_init(selfv, args, kwargs)
            return None
        if meth == "__new__":
            o = env.new_obj
            if o is None:
                raise Unsupported("super().__new__ without object under construction")
            if base == "str" and len(args) >= 2:
                o.strval = self._str(args[1])
            elif base in ("int",) and len(args) >= 2:
                o.attrs["intval"] = self._int(self, [args[1]], {})
            elif base == "float":
                o.attrs["floatval"] = self._call_type(TypeTok("float"), list(args[1:2]), {})
            return o
        if meth == "__eq__" and isinstance(selfv, Obj) and selfv.items is not None:
            other = args[0]
            if isinstance(other, dict):
                oi = other
            elif isinstance(other, Obj) and other.items is not None:
                oi = other.items
            else:
                return False
            # dict equality: same keys, values equal by *their* == (the abstract one)
            if set(selfv.items) != set(oi):
                return False
            return all(self._equal(selfv.items[k], oi[k]) for k in selfv.items)
        if isinstance(selfv, Obj) and selfv.items is not None:
            # the builtin dict / OrderedDict under the CaselessDict family: raw keys
            it = selfv.items

            def K(k):
                if isinstance(k, Obj) and k.strval is not None:
                    k = k.strval
                try:
                    hash(k)
                except TypeError:
                    raise AbsRaise("TypeError", "unhashable key")
                return k
            a = list(args)
            if meth == "__setitem__":
                it[K(a[0])] = a[1]
                return None
            if meth == "__getitem__":
                if K(a[0]) not in it:
                    raise AbsRaise("KeyError", repr(a[0]))
                return it[K(a[0])]
            if meth == "__delitem__":
                if K(a[0]) not in it:
                    raise AbsRaise("KeyError", repr(a[0]))
                del it[K(a[0])]
                return None
            if meth == "__contains__":
                return K(a[0]) in it
            if meth == "get":
                return it.get(K(a[0]), a[1] if len(a) > 1 else kwargs.get("default"))
            if meth == "setdefault":
                return it.setdefault(K(a[0]), a[1] if len(a) > 1 else None)
            if meth == "pop":
                if len(a) > 1:
                    return it.pop(K(a[0]), a[1])
                if K(a[0]) not in it:
                    raise AbsRaise("KeyError", repr(a[0]))
                return it.pop(K(a[0]))
            if meth == "popitem":
                if not it:
                    raise AbsRaise("KeyError", "popitem(): dictionary is empty")
                return it.popitem()
            if meth == "copy":
                return dict(it)
            if meth == "clear":
                it.clear()
                return None
            if meth in ("keys", "__iter__"):
                return list(it.keys())
            if meth == "values":
                return list(it.values())
            if meth == "items":
                return list(it.items())
            if meth == "__len__":
                return len(it)
        raise Unsupported(f"super().{meth} into builtin {base}")

    def _wrap_resolved(self, r, name):
        if isinstance(r, ClassInfo):
            return ClassVal(r)
        if isinstance(r, FuncInfo):
            return Closure(r)
        if isinstance(r, tuple):
            if r[0] == "global":
                return self.module_global(r[1], r[2])
            if r[0] == "external":
                t = external_type(r[1])
                if t is not None:
                    return t
                if r[1] == "re":
                    return NativeObj("re")
                if r[1] == "copy":
                    return NativeObj("copy")
                if r[1] in ("collections.namedtuple",):
                    return Native("namedtuple", self._namedtuple)
                if r[1] == "datetime.timezone":
                    return NativeObj("datetime.timezone")
                if r[1] in ("base64", "binascii") or r[1].startswith(("base64.", "binascii.")):
                    mod, _, attr = r[1].partition(".")
                    return NativeObj(mod) if not attr else self._native_obj_attr(NativeObj(mod), attr)
                if r[1] == "pytz":
                    return NativeObj("pytz")
                if r[1] in ("pytz.utc", "pytz.UTC"):
                    return TZ("utc", "UTC", "pytz")
                if r[1] in ("zoneinfo", "backports.zoneinfo", "backports"):
                    return NativeObj("zoneinfo" if r[1] != "backports" else "backports")
                if r[1].startswith("codecs.BOM"):
                    import codecs as _codecs
                    v = getattr(_codecs, r[1].split(".", 1)[1], None)
                    if isinstance(v, bytes):
                        return v
                if r[1] == "collections.Counter":
                    return Native("Counter", self._counter)
                if r[1] == "collections.deque":
                    return Native("deque", self._deque)
                if r[1] in ("bisect.bisect_right", "bisect.bisect", "bisect.bisect_left"):
                    left = r[1].endswith("_left")
                    return Native(r[1], lambda i, a, k, left=left: self._bisect(a, k, left))
                if r[1] in ("itertools", "functools", "operator", "collections"):
                    return NativeObj(r[1])
                if r[1].startswith(("itertools.", "functools.", "operator.")):
                    mod, _, attr = r[1].partition(".")
                    return self._native_obj_attr(NativeObj(mod), attr)
                if r[1] in ("typing.NamedTuple",):
                    return TypeTok("NamedTuple")
                if r[1] in ("copy.copy", "copy.deepcopy"):
                    return Native(r[1], lambda i, a, k, deep=r[1].endswith("deepcopy"):
                                  self._copy(a[0], deep, {}))
                if r[1] == "re.compile":
                    return Native("re.compile", self._re_compile)
                return Unknown(f"external {r[1]}")
            if r[0] == "module":
                return Unknown(f"module {r[1].name}")
        return Unknown(f"name {name}")

    def module_global(self, module, name):
        key = ("global", module.name, name)
        if key in self.natives:
            return self.natives[key]
        expr = module.globals[name]
        # module singletons
        if isinstance(expr, ast.Call) and isinstance(expr.func, ast.Name):
            r = self.model.resolve_name(module, expr.func.id)
            if isinstance(r, ClassInfo):
                if r.qualname == "timezone.tzp.TZP":
                    v = NativeObj("tzp")
                    self.natives[key] = v
                    return v
                if r.qualname == "prop.TypesFactory":
                    v = NativeObj("types_factory")
                    self.natives[key] = v
                    return v
                if r.qualname == "cal.ComponentFactory":
                    v = NativeObj("component_factory")
                    self.natives[key] = v
                    return v
        v = self.eval(expr, Env(self, module, {}))
        self.natives[key] = v
        return v


class Env:
    def __init__(self, interp, module, closure, func=None, new_obj=None, cls_scope=None):
        self.interp = interp
        self.module = module
        self.closure = closure
        self.locals = {}
        self.func = func
        self.new_obj = new_obj
        self.current_exc = None
        self.yields = None
        self.cls_scope = cls_scope
        self.parent = None

    def child(self):
        e = Env(self.interp, self.module, self.closure, self.func, self.new_obj, self.cls_scope)
        e.parent = self
        e.yields = self.yields
        e.current_exc = self.current_exc
        return e

    def lookup(self, name):
        e = self
        while e is not None:
            if name in e.locals:
                return e.locals[name]
            e = e.parent
        if name in self.closure:
            return self.closure[name]
        it = self.interp
        if self.cls_scope is not None and name in self.cls_scope.attrs:
            return it.class_level_value(self.cls_scope, name)
        if self.cls_scope is not None and name in self.cls_scope.properties:
            return it._class_attr(self.cls_scope, name, None)
        if self.cls_scope is not None and name in self.cls_scope.methods:
            return Closure(self.cls_scope.methods[name])
        r = it.model.resolve_name(self.module, name)
        if r is not None:
            return it._wrap_resolved(r, name)
        if name in it.natives:
            return it.natives[name]
        if name in ("True", "False", "None"):
            return {"True": True, "False": False, "None": None}[name]
        raise Unsupported(f"name {name} in {self.module.name}")


_GEN_CACHE = {}


def _walk_fn(node):
    todo = list(node.body) if hasattr(node, "body") and isinstance(node.body, list) else [node.body]
    while todo:
        n = todo.pop()
        yield n
        if isinstance(n, (ast.FunctionDef, ast.Lambda, ast.ClassDef)):
            continue
        todo.extend(ast.iter_child_nodes(n))


def _load(t):
    import copy
    n = copy.deepcopy(t)
    for x in ast.walk(n):
        if hasattr(x, "ctx"):
            x.ctx = ast.Load()
    return n
