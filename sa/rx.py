"""E5 - regex automata.  Patterns are read from the repository's AST
(`X = re.compile(<literal>)`), parsed with re._parser, turned into a Thompson
NFA over an exact character-class partition and compared by on-the-fly
subset/product construction.  Nothing is matched with the `re` engine.
"""
from __future__ import annotations

import ast
import re
import re._parser as sre_parse
import re._constants as C

from .core import AnalysisError


# ---------------------------------------------------------------------------
# character sets
class CharSet:
    def __init__(self, items, negate=False, is_bytes=False):
        self.items = items          # ('lit', cp) | ('range', lo, hi) | ('cat', name)
        self.negate = negate
        self.is_bytes = is_bytes

    def contains(self, cp: int) -> bool:
        r = False
        ch = chr(cp)
        for it in self.items:
            if it[0] == "lit":
                r = cp == it[1]
            elif it[0] == "range":
                r = it[1] <= cp <= it[2]
            elif it[0] == "cat":
                r = _category(it[1], ch, self.is_bytes)
            elif it[0] == "any":
                r = cp != 10
            if r:
                break
        return r != self.negate

    def boundaries(self):
        out = set()
        for it in self.items:
            if it[0] == "lit":
                out |= {it[1] - 1, it[1], it[1] + 1}
            elif it[0] == "range":
                out |= {it[1] - 1, it[1], it[2], it[2] + 1, (it[1] + it[2]) // 2}
        return {c for c in out if 0 <= c <= 0x10FFFF}

    def __repr__(self):
        return f"CharSet({'^' if self.negate else ''}{self.items})"


def _category(name, ch, is_bytes):
    asc = ord(ch) < 128
    if name == "digit":
        return ch.isdigit() if not is_bytes else (asc and ch.isdigit())
    if name == "not_digit":
        return not _category("digit", ch, is_bytes)
    if name == "word":
        if is_bytes and not asc:
            return False
        return ch.isalnum() or ch == "_"
    if name == "not_word":
        return not _category("word", ch, is_bytes)
    if name == "space":
        if is_bytes:
            return ch in " \t\n\r\f\v"
        return ch.isspace()
    if name == "not_space":
        return not _category("space", ch, is_bytes)
    raise AnalysisError(f"regex category {name} not supported")


_CAT = {
    C.CATEGORY_DIGIT: "digit", C.CATEGORY_NOT_DIGIT: "not_digit",
    C.CATEGORY_WORD: "word", C.CATEGORY_NOT_WORD: "not_word",
    C.CATEGORY_SPACE: "space", C.CATEGORY_NOT_SPACE: "not_space",
}

# non-ASCII probes: one per category signature (digit ⊂ word, space, other)
_NONASCII_PROBES = [0x0663, 0x00E9, 0x00A0, 0x20AC, 0x1F600]


# ---------------------------------------------------------------------------
class NFA:
    def __init__(self):
        self.eps = []       # state -> set of states
        self.trans = []     # state -> list of (CharSet, target)
        self.at_end = set()  # states from which only `$`-style ending is allowed

    def new(self):
        self.eps.append(set())
        self.trans.append([])
        return len(self.eps) - 1


class Rx:
    """A parsed regex.  `mode`:
       full   - language of fullmatch
       match  - re.match: anchored at the start, anything may follow unless `$`
    """

    def __init__(self, pattern, flags=0, name="<rx>"):
        self.pattern = pattern
        self.name = name
        self.is_bytes = isinstance(pattern, bytes)
        if flags & ~(re.UNICODE | re.ASCII):
            raise AnalysisError(f"{name}: regex flags {flags} not supported")
        self.ascii = bool(flags & re.ASCII) or self.is_bytes
        try:
            self.tree = sre_parse.parse(pattern, flags)
        except Exception as e:
            raise AnalysisError(f"{name}: cannot parse regex: {e}")
        self.sets: list[CharSet] = []
        self.nfa = NFA()
        self.start = self.nfa.new()
        self.groups = dict(self.tree.state.groupdict)
        end = self._build(list(self.tree), self.start)
        self.final = end

    # -- construction -------------------------------------------------------
    def _cs(self, items, negate=False):
        cs = CharSet(items, negate, self.ascii)
        self.sets.append(cs)
        return cs

    def _build(self, seq, s):
        for op, arg in seq:
            s = self._item(op, arg, s)
        return s

    def _item(self, op, arg, s):
        n = self.nfa
        if op is C.LITERAL:
            t = n.new()
            n.trans[s].append((self._cs([("lit", arg)]), t))
            return t
        if op is C.NOT_LITERAL:
            t = n.new()
            n.trans[s].append((self._cs([("lit", arg)], True), t))
            return t
        if op is C.ANY:
            t = n.new()
            n.trans[s].append((self._cs([("any",)]), t))
            return t
        if op is C.IN:
            items, neg = [], False
            for iop, iarg in arg:
                if iop is C.NEGATE:
                    neg = True
                elif iop is C.LITERAL:
                    items.append(("lit", iarg))
                elif iop is C.RANGE:
                    items.append(("range", iarg[0], iarg[1]))
                elif iop is C.CATEGORY:
                    items.append(("cat", _CAT[iarg]))
                else:
                    raise AnalysisError(f"{self.name}: set item {iop} unsupported")
            t = n.new()
            n.trans[s].append((self._cs(items, neg), t))
            return t
        if op is C.CATEGORY:
            t = n.new()
            n.trans[s].append((self._cs([("cat", _CAT[arg])]), t))
            return t
        if op is C.SUBPATTERN:
            group, add_flags, del_flags, sub = arg
            if add_flags or del_flags:
                raise AnalysisError(f"{self.name}: inline flags unsupported")
            return self._build(list(sub), s)
        if op is C.BRANCH:
            _, alts = arg
            out = n.new()
            for alt in alts:
                a = n.new()
                n.eps[s].add(a)
                e = self._build(list(alt), a)
                n.eps[e].add(out)
            return out
        if op in (C.MAX_REPEAT, C.MIN_REPEAT):
            lo, hi, sub = arg
            cur = s
            for _ in range(lo):
                cur = self._build(list(sub), cur)
            if hi is C.MAXREPEAT:
                loop = n.new()
                n.eps[cur].add(loop)
                e = self._build(list(sub), loop)
                n.eps[e].add(loop)
                return loop
            if hi - lo > 64:
                raise AnalysisError(f"{self.name}: repeat bound too large")
            out = n.new()
            n.eps[cur].add(out)
            for _ in range(hi - lo):
                cur = self._build(list(sub), cur)
                n.eps[cur].add(out)
            return out
        if op is C.AT:
            if arg in (C.AT_END,):
                # `$`: end of string, or just before a final newline
                t = n.new()
                n.eps[s].add(t)
                n.at_end.add(t)
                return t
            if arg in (C.AT_END_STRING,):
                t = n.new()
                n.eps[s].add(t)
                n.at_end.add(("strict", t))
                n.at_end.add(t)
                return t
            if arg in (C.AT_BEGINNING, C.AT_BEGINNING_STRING):
                if s != self.start:
                    raise AnalysisError(f"{self.name}: ^ inside pattern unsupported")
                return s
            raise AnalysisError(f"{self.name}: anchor {arg} unsupported")
        raise AnalysisError(f"{self.name}: regex op {op} unsupported")

    # -- simulation helpers -----------------------------------------------
    def closure(self, states):
        todo = list(states)
        seen = set(states)
        while todo:
            s = todo.pop()
            for t in self.nfa.eps[s]:
                if t not in seen:
                    seen.add(t)
                    todo.append(t)
        return frozenset(seen)

    def step(self, states, cp):
        out = set()
        for s in states:
            if s in self.nfa.at_end:
                # after `$` only a single final "\n" may follow
                if cp == 10 and ("strict", s) not in self.nfa.at_end:
                    out.add(("nl", s))
                continue
            if isinstance(s, tuple):
                continue
            for cs, t in self.nfa.trans[s]:
                if cs.contains(cp):
                    out.add(t)
        plain = {s for s in out if not isinstance(s, tuple)}
        marks = {s for s in out if isinstance(s, tuple)}
        return frozenset(self.closure(plain) | marks)

    def accepting(self, states, mode):
        for s in states:
            if isinstance(s, tuple):
                if s[0] == "nl" and s[1] == self.final and mode != "full":
                    return True
                continue
            if s == self.final:
                return True
        return False

    def init(self):
        return self.closure({self.start})


class Lang:
    """A regular language given by an Rx and a mode."""

    def __init__(self, rx: Rx, mode="full"):
        self.rx = rx
        self.mode = mode
        ends_anchored = self.rx.final in self.rx.nfa.at_end
        self.open_tail = mode == "match" and not ends_anchored

    def init(self):
        return (self.rx.init(), False)

    def step(self, st, cp):
        states, done = st
        if done:
            return (frozenset(), True)
        if self.open_tail and self.rx.accepting(states, self.mode):
            return (frozenset(), True)
        return (self.rx.step(states, cp), False)

    def accepting(self, st):
        states, done = st
        return done or self.rx.accepting(states, self.mode)

    def dead(self, st):
        states, done = st
        return not done and not states

    def sets(self):
        return self.rx.sets


def alphabet(langs, extra=""):
    """Exact partition representatives for the given languages."""
    sets = [cs for l in langs for cs in l.sets()]
    cands = set(range(128))
    for cs in sets:
        cands |= cs.boundaries()
    cands |= set(_NONASCII_PROBES)
    cands |= {ord(c) for c in extra}
    if any(l.rx.is_bytes for l in langs):
        cands = {c for c in cands if c < 256} | set(range(256))
    reps = {}
    for cp in sorted(cands):
        sig = tuple(cs.contains(cp) for cs in sets)
        reps.setdefault(sig, cp)
    return sorted(reps.values())


def accepts(lang: Lang, text) -> bool:
    st = lang.init()
    if lang.open_tail and lang.accepting(st):
        return True
    for ch in text:
        cp = ch if isinstance(ch, int) else ord(ch)
        st = lang.step(st, cp)
    return lang.accepting(st)


def included(a: Lang, b: Lang, limit=200000):
    """L(a) ⊆ L(b)?  Returns (True, None, nstates) or (False, witness, n)."""
    alpha = alphabet([a, b])
    start = (a.init(), b.init())
    seen = {start: None}
    todo = [start]
    i = 0
    while i < len(todo):
        cur = todo[i]
        i += 1
        sa, sb = cur
        if a.accepting(sa) and not b.accepting(sb):
            return False, _path(seen, cur), len(seen)
        for cp in alpha:
            na = a.step(sa, cp)
            if a.dead(na):
                continue
            nb = b.step(sb, cp)
            nxt = (na, nb)
            if nxt not in seen:
                seen[nxt] = (cur, cp)
                todo.append(nxt)
                if len(seen) > limit:
                    raise AnalysisError("regex inclusion: state limit exceeded")
    return True, None, len(seen)


def _path(seen, st):
    out = []
    while seen[st] is not None:
        st, cp = seen[st]
        out.append(chr(cp))
    return "".join(reversed(out))


def all_contain(lang: Lang, cp_required: int, limit=100000):
    """Every string of the language contains character cp_required."""
    alpha = alphabet([lang], chr(cp_required))
    start = lang.init()
    seen = {start: None}
    todo = [start]
    i = 0
    while i < len(todo):
        cur = todo[i]
        i += 1
        if lang.accepting(cur):
            return False, _path(seen, cur)
        for cp in alpha:
            if cp == cp_required:
                continue
            n = lang.step(cur, cp)
            if lang.dead(n) or n in seen:
                continue
            seen[n] = (cur, cp)
            todo.append(n)
    return True, None


def class_members(rx: Rx, universe):
    """For a pattern that is a single character class: the members among
    `universe` (iterable of chars)."""
    seq = list(rx.tree)
    if len(seq) != 1 or seq[0][0] not in (C.IN, C.LITERAL):
        raise AnalysisError(f"{rx.name}: not a single character class")
    lang = Lang(rx, "full")
    return {c for c in universe if accepts(lang, c)}


# ---------------------------------------------------------------------------
def compiled_regexes(model, short_mod):
    """name -> (pattern, flags, node) for `NAME = re.compile(...)` at module level."""
    m = model.module(short_mod)
    out = {}
    for name, e in m.globals.items():
        if (isinstance(e, ast.Call) and isinstance(e.func, ast.Attribute)
                and e.func.attr == "compile" and isinstance(e.func.value, ast.Name)
                and e.func.value.id == "re" and e.args):
            pat = model.const(e.args[0], m)
            if not isinstance(pat, (str, bytes)):
                raise AnalysisError(f"{short_mod}.{name}: pattern is not a literal")
            flags = 0
            if len(e.args) > 1 or e.keywords:
                raise AnalysisError(f"{short_mod}.{name}: regex flags not supported")
            out[name] = (pat, flags, m.global_nodes[name])
    return out


def repo_rx(model, short_mod, name) -> Rx:
    regs = compiled_regexes(model, short_mod)
    if name not in regs:
        raise AnalysisError(f"anchor vanished: regex {short_mod}.{name}")
    pat, flags, node = regs[name]
    return Rx(pat, flags, f"{short_mod}.{name}")
