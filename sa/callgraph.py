"""E1 - call graph over the repository's functions.

Callee resolution, in decreasing precision: plain names through imports;
self./cls./super(). through the repo MRO (plus overriding subclasses);
calls on module singletons; registry dispatch (types_factory.for_property ->
every registered codec class, component_factory.get -> every component class,
the TZP proxy -> both providers); descriptor access; finally class-hierarchy
analysis by method name restricted to the family the receiver can belong to.
Calls that leave the repository are classified by `external_kind`.
"""
from __future__ import annotations

import ast

from .core import AnalysisError
from .flow import SymEnv, is_param, dump
from .model import ClassInfo, FuncInfo, walk_no_nested, is_super_call

CODEC_METHODS = {"to_ical", "from_ical"}

OPAQUE_EXTERNAL = {
    # dotted-name prefix -> what it may raise
    "dateutil": {"Exception"}, "pytz": {"Exception"}, "zoneinfo": {"Exception"},
    "backports": {"Exception"}, "tzical": {"Exception"}, "rrulestr": {"Exception"},
}


class Site:
    """One call site."""
    __slots__ = ("node", "callees", "kind", "external")

    def __init__(self, node, callees, kind, external=None):
        self.node = node
        self.callees = callees      # list[FuncInfo]
        self.kind = kind            # resolved | registry | cha | external | builtin | unknown
        self.external = external


class CallGraph:
    def __init__(self, model):
        self.model = model
        self.funcs = {}                     # qualname -> FuncInfo
        for f in model.all_functions():
            self.funcs.setdefault(f.qualname, f)
        self._sites = {}
        self._codec_classes = None
        self._component_classes = None
        self.stats = {"resolved": 0, "registry": 0, "cha": 0, "external": 0,
                      "builtin": 0, "unknown": 0}

    # ---- families ---------------------------------------------------------
    def codec_classes(self):
        if self._codec_classes is None:
            reg = self.model.types_registry()
            seen = {}
            for key, (ci, _) in reg.items():
                seen[ci.qualname] = ci
            # codecs reachable only through other codecs
            for extra in ("prop.vDate", "prop.vDatetime", "prop.vDuration", "prop.vWeekday",
                          "prop.vFrequency", "prop.vMonth", "prop.vSkip"):
                c = self.model.cls(extra, required=False)
                if c is not None:
                    seen[c.qualname] = c
            self._codec_classes = list(seen.values())
        return self._codec_classes

    def component_classes(self):
        if self._component_classes is None:
            self._component_classes = self.model.component_classes()
        return self._component_classes

    def provider_classes(self):
        base = self.model.cls("timezone.provider.TZProvider")
        return self.model.subclasses(base)

    def methods_named(self, classes, name):
        out = []
        for c in classes:
            f = self.model.lookup_method(c, name)
            if f is not None and f not in out:
                out.append(f)
        return out

    # ---- constructor ------------------------------------------------------
    def ctor(self, ci):
        out = []
        for n in ("__new__", "__init__"):
            f = self.model.lookup_method(ci, n)
            if f is not None:
                out.append(f)
        return out

    # ---- per-function sites ------------------------------------------------
    def sites(self, f: FuncInfo):
        if f.qualname in self._sites:
            return self._sites[f.qualname]
        env = SymEnv(f.node)
        out = []
        for call in [n for n in walk_no_nested(f.node) if isinstance(n, ast.Call)]:
            out.append(self._resolve(f, call, env))
        # descriptor reads: self.X / <name>.X where X is a descriptor of a component class
        self._sites[f.qualname] = out
        for s in out:
            self.stats[s.kind] = self.stats.get(s.kind, 0) + 1
        return out

    def _local_class_of(self, f, name_node, env):
        """Class of a local name when it is evident: self, cls, a constructor
        call, a module singleton."""
        m = self.model
        if isinstance(name_node, ast.Name):
            if f.cls is not None and f.params and name_node.id == f.params[0] \
                    and f.kind in ("instance", "class"):
                return f.cls
            r = m.resolve_name(f.module, name_node.id)
            if isinstance(r, tuple) and r[0] == "global":
                expr = r[1].globals[r[2]]
                if isinstance(expr, ast.Call) and isinstance(expr.func, ast.Name):
                    rr = m.resolve_name(r[1], expr.func.id)
                    if isinstance(rr, ClassInfo):
                        return rr
            try:
                e = env.expand_at(name_node)
            except Exception:
                e = None
            if isinstance(e, ast.Call) and isinstance(e.func, ast.Name):
                rr = m.resolve_name(f.module, e.func.id)
                if isinstance(rr, ClassInfo):
                    return rr
            # assert isinstance(x, C) / if isinstance(x, C) in this function
            for n in ast.walk(f.node):
                if isinstance(n, ast.Call) and isinstance(n.func, ast.Name) and n.func.id == "isinstance" \
                        and len(n.args) == 2 and isinstance(n.args[0], ast.Name) \
                        and n.args[0].id == name_node.id and isinstance(n.args[1], ast.Name):
                    rr = m.resolve_name(f.module, n.args[1].id)
                    if isinstance(rr, ClassInfo):
                        return rr
            # x = self.m(...) / x = g(...) where the callee returns a freshly built object
            if isinstance(e, ast.Call):
                callee = None
                if isinstance(e.func, ast.Attribute) and isinstance(e.func.value, ast.Name) \
                        and getattr(e.func.value, "_param", False) and f.cls is not None \
                        and f.params and e.func.value.id == f.params[0]:
                    callee = m.lookup_method(f.cls, e.func.attr)
                elif isinstance(e.func, ast.Name):
                    rr = m.resolve_name(f.module, e.func.id)
                    callee = rr if isinstance(rr, FuncInfo) else None
                if callee is not None:
                    rets = [r for r in walk_no_nested(callee.node) if isinstance(r, ast.Return)]
                    if len(rets) == 1 and isinstance(rets[0].value, ast.Name):
                        cenv = SymEnv(callee.node)
                        for st in ast.walk(callee.node):
                            if isinstance(st, ast.Assign) and isinstance(st.targets[0], ast.Name) \
                                    and st.targets[0].id == rets[0].value.id \
                                    and isinstance(st.value, ast.Call) and isinstance(st.value.func, ast.Name):
                                rr = m.resolve_name(callee.module, st.value.func.id)
                                if isinstance(rr, ClassInfo):
                                    return rr
            # annotated parameter
            for a in f.node.args.args:
                if a.arg == name_node.id and a.annotation is not None:
                    ann = a.annotation
                    s = ann.value if isinstance(ann, ast.Constant) else dump(ann)
                    s = str(s).split("|")[0].split("[")[-1].strip(" ]")
                    rr = m.resolve_name(f.module, s.split(".")[-1])
                    if isinstance(rr, ClassInfo):
                        return rr
        return None

    def _builtin_kind(self, f, recv):
        if not isinstance(recv, ast.Name):
            if isinstance(recv, (ast.List, ast.Dict, ast.Set, ast.Constant, ast.JoinedStr,
                                 ast.ListComp, ast.Tuple)):
                return "literal"
            return None
        for n in ast.walk(f.node):
            if isinstance(n, ast.Assign) and len(n.targets) == 1 \
                    and isinstance(n.targets[0], ast.Name) and n.targets[0].id == recv.id:
                v = n.value
                if isinstance(v, (ast.List, ast.Dict, ast.Set, ast.ListComp, ast.SetComp,
                                  ast.DictComp, ast.JoinedStr)):
                    return "literal"
                if isinstance(v, ast.Constant) and isinstance(v.value, (str, bytes)):
                    return "literal"
                if isinstance(v, ast.Call) and isinstance(v.func, ast.Name) \
                        and v.func.id in ("set", "list", "dict", "sorted", "tuple", "str", "defaultdict"):
                    return "literal"
        return None

    def _resolve(self, f, call, env):
        m = self.model
        fn = call.func
        # ---- plain names
        if isinstance(fn, ast.Name):
            # local function / lambda assigned in the enclosing function?
            r = m.resolve_name(f.module, fn.id)
            if isinstance(r, FuncInfo):
                return Site(call, [r], "resolved")
            if isinstance(r, ClassInfo):
                return Site(call, self.ctor(r), "resolved")
            if isinstance(r, tuple) and r[0] == "external":
                return Site(call, [], "external", r[1])
            # local names holding classes from registries
            try:
                e = env.expand_at(fn)
            except Exception:
                e = None
            if e is not None:
                d = dump(e)
                if "for_property" in d or "types_factory[" in d:
                    cs = self.codec_classes()
                    return Site(call, [x for c in cs for x in self.ctor(c)], "registry")
                if "component_factory" in d:
                    cs = self.component_classes()
                    return Site(call, [x for c in cs for x in self.ctor(c)], "registry")
                if isinstance(e, ast.Name) and getattr(e, "_param", False) and f.kind == "class" \
                        and e.id == f.params[0]:
                    cs = [f.cls] + m.subclasses(f.cls)
                    return Site(call, [x for c in cs for x in self.ctor(c)], "resolved")
            # nested function defined in f
            for st in ast.walk(f.node):
                if isinstance(st, ast.FunctionDef) and st is not f.node and st.name == fn.id:
                    return Site(call, [FuncInfo(f.module, f.cls, st, f"{f.qualname}.<{st.name}>", outer=f)],
                                "resolved")
            return Site(call, [], "builtin", fn.id)
        # ---- attribute calls
        if isinstance(fn, ast.Attribute):
            name = fn.attr
            if is_super_call(call):
                if f.cls is not None:
                    mro = [c for c in m.mro(f.cls) if isinstance(c, ClassInfo)]
                    for c in mro[1:]:
                        if name in c.methods:
                            return Site(call, [c.methods[name]], "resolved")
                return Site(call, [], "builtin", f"super().{name}")
            recv = fn.value
            # module.attr(...) for external modules
            if isinstance(recv, ast.Name):
                r = m.resolve_name(f.module, recv.id)
                if isinstance(r, tuple) and r[0] == "external":
                    return Site(call, [], "external", f"{r[1]}.{name}")
                if isinstance(r, ClassInfo):
                    g = m.lookup_method(r, name)
                    if g is not None:
                        return Site(call, [g], "resolved")
                if isinstance(r, tuple) and r[0] == "module":
                    g = r[1].functions.get(name)
                    if g is not None:
                        return Site(call, [g], "resolved")
            if isinstance(recv, ast.Attribute) and isinstance(recv.value, ast.Name):
                r = m.resolve_name(f.module, recv.value.id)
                if isinstance(r, tuple) and r[0] == "external":
                    return Site(call, [], "external", f"{r[1]}.{recv.attr}.{name}")
            # receiver is a freshly built builtin container / string
            bk = self._builtin_kind(f, recv)
            if bk is not None:
                return Site(call, [], "unknown", name)
            cls = self._local_class_of(f, recv, env)
            if cls is None and isinstance(recv, ast.Call) and isinstance(recv.func, ast.Name):
                rr = m.resolve_name(f.module, recv.func.id)
                if isinstance(rr, ClassInfo):
                    cls = rr
                else:
                    try:
                        ee = env.expand_at(recv.func)
                    except Exception:
                        ee = None
                    if isinstance(ee, ast.Subscript) and isinstance(ee.value, ast.Name) \
                            and ee.value.id == "types_factory" and isinstance(ee.slice, ast.Constant):
                        ent = m.types_registry().get(str(ee.slice.value).upper())
                        if ent:
                            cls = ent[0]
            if cls is not None:
                # TZP proxy: self.__provider.m -> both providers
                targets = [cls] + m.subclasses(cls)
                fs = self.methods_named(targets, name)
                if fs:
                    return Site(call, fs, "resolved")
            # self.__provider.x(...)
            if isinstance(recv, ast.Attribute) and "provider" in recv.attr:
                fs = self.methods_named(self.provider_classes(), name)
                if fs:
                    return Site(call, fs, "registry")
            # registry dispatch
            try:
                e = env.expand_at(recv)
            except Exception:
                e = None
            d = dump(e) if e is not None else ""
            if "for_property" in d or "types_factory[" in d or ".types.get(" in d or ".types[" in d:
                fs = self.methods_named(self.codec_classes(), name)
                return Site(call, fs, "registry")
            # family-restricted CHA
            if name in CODEC_METHODS:
                fam = self.codec_classes()
                if name == "to_ical":
                    fam = fam + [m.cls("parser.Parameters"), m.cls("parser.Contentline"),
                                 m.cls("parser.Contentlines")]
                    if "value" not in d.lower() and "dt" not in d.lower():
                        fam = fam + self.component_classes()[:1]
                fs = self.methods_named(fam, name)
                return Site(call, fs, "cha")
            comp_methods = {"add", "add_component", "walk", "_walk", "property_items",
                            "content_line", "content_lines", "decoded", "is_thunderbird",
                            "get_transitions", "to_tz", "sorted_keys", "sorted_items",
                            "get_used_tzids", "get_missing_tzids", "from_tzid", "from_tzinfo"}
            if name in comp_methods:
                fs = self.methods_named(self.component_classes(), name)
                if fs:
                    return Site(call, fs, "cha")
            tz_methods = {"cache_timezone_component", "create_timezone", "fix_rrule_until",
                          "clean_timezone_id", "knows_timezone_id"}
            if name in tz_methods or (name in ("timezone", "localize", "localize_utc")
                                      and isinstance(recv, ast.Name) and recv.id == "tzp"):
                tzp_c = m.cls("timezone.tzp.TZP")
                fs = self.methods_named([tzp_c], name) or self.methods_named(self.provider_classes(), name)
                if fs:
                    return Site(call, fs, "resolved")
            if name in ("parts",):
                return Site(call, self.methods_named([m.cls("parser.Contentline")], name), "cha")
            return Site(call, [], "unknown", name)
        # call of a call result etc.
        if isinstance(fn, ast.Call):
            inner = dump(fn)
            if "tzical" in inner or "rrulestr" in inner:
                return Site(call, [], "external", inner[:40])
        return Site(call, [], "unknown", dump(fn)[:30])

    # ---- descriptor reads ---------------------------------------------------
    def descriptor_reads(self, f):
        """Attribute loads X.NAME where NAME is a descriptor of some component
        class -> getter FuncInfos (closures analysed through their factory)."""
        m = self.model
        out = []
        names = {}
        for c in self.component_classes():
            for n, rec in m.descriptors(c).items():
                names.setdefault(n, []).append(rec)
        ambiguous = {"start", "end", "duration", "name"}
        env = None
        for n in walk_no_nested(f.node):
            if isinstance(n, ast.Attribute) and isinstance(n.ctx, ast.Load) and n.attr in names:
                recs = names[n.attr]
                if n.attr in ambiguous or (n.attr != n.attr.upper() and len({id(r["owner"]) for r in recs}) > 1):
                    if env is None:
                        env = SymEnv(f.node)
                    cls = self._local_class_of(f, n.value, env)
                    if cls is None:
                        continue
                    recs = [r for r in recs if r["owner"] in m.mro(cls) or cls in m.mro(r["owner"])]
                for rec in recs:
                    if rec["kind"] in ("single", "utc"):
                        fac = rec["factory"]
                        for st in ast.walk(fac.node):
                            if isinstance(st, ast.FunctionDef) and st.name == "p_get":
                                out.append((n, FuncInfo(fac.module, None, st,
                                                        f"{fac.qualname}.<p_get>", outer=fac)))
                    elif rec["kind"] == "property" and "get" in rec["acc"]:
                        out.append((n, rec["acc"]["get"]))
                    elif rec["kind"] == "decorated" and "get" in rec["acc"]:
                        out.append((n, rec["acc"]["get"]))
        return out

    # ---- reachability -------------------------------------------------------
    def cone(self, roots, prune=None):
        """Functions reachable from roots; prune(f, site) -> False stops descent."""
        seen = {}
        todo = [(r, None) for r in roots]
        while todo:
            f, parent = todo.pop()
            if f.qualname in seen:
                continue
            seen[f.qualname] = (f, parent)
            for s in self.sites(f):
                if prune is not None and not prune(f, s):
                    continue
                for g in s.callees:
                    if g.qualname not in seen:
                        todo.append((g, f))
            for node, g in self.descriptor_reads(f):
                if g.qualname not in seen:
                    todo.append((g, f))
        return seen

    def path_to(self, cone, qualname):
        out = []
        cur = qualname
        while cur is not None and cur in cone:
            f, parent = cone[cur]
            out.append(f.qualname)
            cur = parent.qualname if parent is not None else None
        return list(reversed(out))
