"""Both-ways test of the rules: breaking mutants must make the named rule fire,
refactor twins must stay silent.  Each variant is a scratch copy of the
current /repo/src/icalendar (non-test modules) under $TMPDIR, created and
removed inside the run; the analyser is pointed at it with --root.

Only the verdict on the analysed tree decides a check's exit code; these
results go into the evidence file (thorough tier) and are what
`./check selftest` prints.
"""
from __future__ import annotations

import os
import shutil
import sys
import tempfile
import time
from multiprocessing import Pool

import warnings

from .core import DEFAULT_ROOT, run_property

with warnings.catch_warnings():
    warnings.simplefilter("ignore", SyntaxWarning)
    from .mutants import MUTANTS

SKIP = {"tests", "fuzzing", "__pycache__"}


def _copy_tree(root, dst):
    src = os.path.join(root, "src", "icalendar")
    for dirpath, dirnames, filenames in os.walk(src):
        dirnames[:] = [d for d in dirnames if d not in SKIP]
        rel = os.path.relpath(dirpath, root)
        os.makedirs(os.path.join(dst, rel), exist_ok=True)
        for fn in filenames:
            if fn.endswith(".py"):
                shutil.copy(os.path.join(dirpath, fn), os.path.join(dst, rel, fn))


def _apply(dst, edits):
    """edits: list of (relative file, old, new[, count]).  Returns None or
    reason why it does not apply."""
    for ed in edits:
        rel, old, new = ed[0], ed[1], ed[2]
        want = ed[3] if len(ed) > 3 else 1
        p = os.path.join(dst, "src", "icalendar", rel)
        if not os.path.exists(p):
            return f"{rel} missing"
        s = open(p, encoding="utf-8").read()
        n = s.count(old)
        if n != want:
            return f"{rel}: anchor text occurs {n}x, expected {want}"
        s = s.replace(old, new)
        try:
            compile(s, p, "exec")
        except SyntaxError as e:
            return f"mutant does not compile: {e}"
        open(p, "w", encoding="utf-8").write(s)
    return None


def _run_one(args):
    mid, root = args
    mu = MUTANTS[mid]
    tmp = tempfile.mkdtemp(prefix="sa-mut-")
    try:
        _copy_tree(root, tmp)
        why = _apply(tmp, mu["edits"])
        if why:
            return mid, "skipped", why, []
        rc, ctx = run_property(mu["prop"], "quick", tmp, quiet=True,
                               write_evidence=False)
        fired = sorted({o.rule for o in ctx.obligations if o.status == "fail"})
        # known findings are not counted as firing
        from .core import load_known
        known = {(k["rule"], k["key"]) for k in load_known()
                 if k.get("status") == "known" and k["property"] == mu["prop"]}
        fired_new = sorted({o.rule for o in ctx.obligations
                            if o.status == "fail" and (o.rule, o.key) not in known})
        exp = mu["expect"]
        if exp == "silent":
            ok = rc == 0 or (rc == 1 and not fired_new)
            verdict = "ok" if ok and rc != 2 else "FALSE-ALARM" if rc != 2 else "analysis-error"
        else:
            if rc == 2:
                verdict = "analysis-error"      # not silent, but not a named report
            elif any(r.startswith(exp) or exp in r for r in fired_new):
                verdict = "ok"
            elif fired_new:
                verdict = "other-rule"
            else:
                verdict = "MISSED"
        return mid, verdict, f"rc={rc}", fired_new
    finally:
        shutil.rmtree(tmp, ignore_errors=True)


def run_mutants(prop=None, root=None, jobs=None):
    root = root or DEFAULT_ROOT
    ids = [k for k, v in MUTANTS.items() if prop is None or v["prop"] == prop]
    jobs = jobs or min(16, max(1, len(ids)))
    if not ids:
        return []
    if jobs == 1:
        res = [_run_one((i, root)) for i in ids]
    else:
        with Pool(jobs) as pool:
            res = pool.map(_run_one, [(i, root) for i in ids])
    return res


def summarise(res):
    out = {"variants": len(res), "breaking_detected": 0, "breaking_missed": [],
           "breaking_other_rule": [], "analysis_error": [], "twins_silent": 0,
           "twins_false_alarm": [], "skipped": []}
    for mid, verdict, info, fired in res:
        mu = MUTANTS[mid]
        if verdict == "skipped":
            out["skipped"].append(f"{mid}: {info}")
        elif mu["expect"] == "silent":
            if verdict == "ok":
                out["twins_silent"] += 1
            else:
                out["twins_false_alarm"].append(f"{mid}: {verdict} {fired}")
        else:
            if verdict == "ok":
                out["breaking_detected"] += 1
            elif verdict == "other-rule":
                out["breaking_other_rule"].append(f"{mid}: {fired}")
                out["breaking_detected"] += 1
            elif verdict == "analysis-error":
                out["analysis_error"].append(mid)
            else:
                out["breaking_missed"].append(mid)
    return out


def attach(ctx):
    """Thorough tier: run this property's variants and record the outcome."""
    t0 = time.time()
    res = run_mutants(ctx.prop_id, ctx.root)
    s = summarise(res)
    s["wall_s"] = round(time.time() - t0, 2)
    ctx.extra["selftest"] = s
    if s["breaking_missed"] or s["twins_false_alarm"]:
        ctx.note(f"selftest: missed={s['breaking_missed']} "
                 f"false_alarms={s['twins_false_alarm']}")


def main(a):
    t0 = time.time()
    prop = os.environ.get("SELFTEST_PROP")
    res = run_mutants(prop, a.root)
    for mid, verdict, info, fired in sorted(res):
        mu = MUTANTS[mid]
        print(f"{verdict:15s} {mid:40s} expect={mu['expect']:18s} {info} {fired}")
    s = summarise(res)
    print({k: v for k, v in s.items()})
    print(f"selftest wall={time.time() - t0:.1f}s")
    bad = s["breaking_missed"] or s["twins_false_alarm"]
    return 1 if bad else 0
