"""AST canonicalisation applied to every module before it is indexed.

Shape rules would otherwise take a behaviour-preserving cleanup for a change
of behaviour.  Each rewrite is semantics-preserving; locations of the original
nodes are kept so reports still point at the source line.

 T1  x = A if c else B          ->  if c: x = A  else: x = B   (also `return`)
 T2  L.extend(<genexp/listcomp>) ->  for ...: L.append(elt);  L.extend(E) -> L += E
 T3  'a{}b{}'.format(x, y)      ->  f'a{x}b{y}'
 T4  if a: (if b: BODY)         ->  if a and b: BODY           (no else on either)
 T5  if not c: A else: B        ->  if c: B else: A
 T6  not (a and b) -> not a or not b; not (x == y) -> x != y; not not x -> x
 T10 map(f, X) / filter(f|None, X) -> generator expressions
 INL private single-use straight-line helpers are inlined at their call site
"""
from __future__ import annotations

import ast
import copy
import re

# private functions the rules refer to by name: never inlined
ANCHORED = {
    "_walk", "_encode", "_decode", "_get_start_end_duration", "_extract_offsets",
    "_make_unique_tzname", "_create_timezone", "_add", "_repeat", "_alarm_time",
    "_get_absolute_alarm_times", "_get_start_alarm_times", "_get_end_alarm_times",
    "_format_error", "_use", "_get_duration", "_set_duration", "_del_duration",
    "_tzicalvtz",
}


def _loc(new, old):
    ast.copy_location(new, old)
    for n in ast.walk(new):
        if not hasattr(n, "lineno"):
            ast.copy_location(n, old)
    ast.fix_missing_locations(new)
    return new


class Canon(ast.NodeTransformer):
    # ---- expressions -------------------------------------------------------
    def visit_UnaryOp(self, node):
        self.generic_visit(node)
        if isinstance(node.op, ast.Not):
            x = node.operand
            if isinstance(x, ast.UnaryOp) and isinstance(x.op, ast.Not):
                return x.operand
            if isinstance(x, ast.BoolOp):
                op = ast.Or() if isinstance(x.op, ast.And) else ast.And()
                vals = [self.visit(_loc(ast.UnaryOp(op=ast.Not(), operand=v), v)) for v in x.values]
                return _loc(ast.BoolOp(op=op, values=vals), node)
            if isinstance(x, ast.Compare) and len(x.ops) == 1:
                flip = {ast.Eq: ast.NotEq, ast.NotEq: ast.Eq, ast.In: ast.NotIn, ast.NotIn: ast.In,
                        ast.Is: ast.IsNot, ast.IsNot: ast.Is}
                t = type(x.ops[0])
                if t in flip:
                    return _loc(ast.Compare(left=x.left, ops=[flip[t]()], comparators=x.comparators), node)
        return node

    def visit_Call(self, node):
        self.generic_visit(node)
        f = node.func
        # T3 'fmt'.format(...)
        if isinstance(f, ast.Attribute) and f.attr == "format" and isinstance(f.value, ast.Constant) \
                and isinstance(f.value.value, str) and not any(isinstance(a, ast.Starred) for a in node.args) \
                and all(k.arg for k in node.keywords):
            js = _format_to_fstring(f.value.value, node.args, {k.arg: k.value for k in node.keywords})
            if js is not None:
                return _loc(js, node)
        # T10 map / filter
        if isinstance(f, ast.Name) and f.id == "map" and len(node.args) == 2 and not node.keywords:
            v = ast.Name(id="_m", ctx=ast.Load())
            call = ast.Call(func=node.args[0], args=[v], keywords=[])
            g = ast.GeneratorExp(elt=call, generators=[ast.comprehension(
                target=ast.Name(id="_m", ctx=ast.Store()), iter=node.args[1], ifs=[], is_async=0)])
            return _loc(g, node)
        if isinstance(f, ast.Name) and f.id == "filter" and len(node.args) == 2 and not node.keywords:
            v = ast.Name(id="_f", ctx=ast.Load())
            pred = node.args[0]
            cond = v if (isinstance(pred, ast.Constant) and pred.value is None) else \
                ast.Call(func=pred, args=[ast.Name(id="_f", ctx=ast.Load())], keywords=[])
            g = ast.GeneratorExp(elt=ast.Name(id="_f", ctx=ast.Load()), generators=[ast.comprehension(
                target=ast.Name(id="_f", ctx=ast.Store()), iter=node.args[1], ifs=[cond], is_async=0)])
            return _loc(g, node)
        return node

    # ---- statements --------------------------------------------------------
    def _stmts(self, body):
        out = []
        for st in body:
            r = self.visit(st)
            if isinstance(r, list):
                out.extend(r)
            elif r is not None:
                out.append(r)
        return out

    def visit_Assign(self, node):
        self.generic_visit(node)
        if isinstance(node.value, ast.IfExp) and len(node.targets) == 1 \
                and isinstance(node.targets[0], ast.Name):
            v = node.value
            a = _loc(ast.Assign(targets=[copy.deepcopy(node.targets[0])], value=v.body), node)
            b = _loc(ast.Assign(targets=[copy.deepcopy(node.targets[0])], value=v.orelse), node)
            return self.visit(_loc(ast.If(test=v.test, body=[a], orelse=[b]), node))
        return node

    def visit_Return(self, node):
        self.generic_visit(node)
        if isinstance(node.value, ast.IfExp):
            v = node.value
            a = _loc(ast.Return(value=v.body), node)
            b = _loc(ast.Return(value=v.orelse), node)
            return self.visit(_loc(ast.If(test=v.test, body=[a], orelse=[b]), node))
        return node

    def visit_Expr(self, node):
        self.generic_visit(node)
        c = node.value
        if isinstance(c, ast.Call) and isinstance(c.func, ast.Attribute) and c.func.attr == "extend" \
                and len(c.args) == 1 and not c.keywords and isinstance(c.func.value, ast.Name):
            arg = c.args[0]
            if isinstance(arg, (ast.GeneratorExp, ast.ListComp)):
                app = _loc(ast.Expr(value=ast.Call(
                    func=ast.Attribute(value=copy.deepcopy(c.func.value), attr="append", ctx=ast.Load()),
                    args=[arg.elt], keywords=[])), node)
                body = [app]
                for g in reversed(arg.generators):
                    for cond in reversed(g.ifs):
                        body = [_loc(ast.If(test=cond, body=body, orelse=[]), node)]
                    body = [_loc(ast.For(target=g.target, iter=g.iter, body=body, orelse=[]), node)]
                return body[0]
            return _loc(ast.AugAssign(target=ast.Name(id=c.func.value.id, ctx=ast.Store()),
                                      op=ast.Add(), value=arg), node)
        return node

    def visit_If(self, node):
        self.generic_visit(node)
        # T5
        if node.orelse and isinstance(node.test, ast.UnaryOp) and isinstance(node.test.op, ast.Not) \
                and not (len(node.orelse) == 1 and isinstance(node.orelse[0], ast.If)):
            node = _loc(ast.If(test=node.test.operand, body=node.orelse, orelse=node.body), node)
        # T4
        if not node.orelse and len(node.body) == 1 and isinstance(node.body[0], ast.If) \
                and not node.body[0].orelse:
            inner = node.body[0]
            vals = []
            for t in (node.test, inner.test):
                if isinstance(t, ast.BoolOp) and isinstance(t.op, ast.And):
                    vals.extend(t.values)
                else:
                    vals.append(t)
            node = _loc(ast.If(test=ast.BoolOp(op=ast.And(), values=vals), body=inner.body, orelse=[]), node)
        return node


def _format_to_fstring(fmt, args, kwargs):
    parts = []
    pos = 0
    auto = 0
    for m in re.finditer(r"\{\{|\}\}|\{([^{}!:]*)(![rsa])?(:[^{}]*)?\}", fmt):
        lit = fmt[pos:m.start()]
        if lit:
            parts.append(ast.Constant(value=lit))
        pos = m.end()
        if m.group(0) == "{{":
            parts.append(ast.Constant(value="{"))
            continue
        if m.group(0) == "}}":
            parts.append(ast.Constant(value="}"))
            continue
        field, conv, spec = m.group(1), m.group(2), m.group(3)
        if field == "":
            if auto >= len(args):
                return None
            val = args[auto]
            auto += 1
        elif field.isdigit():
            if int(field) >= len(args):
                return None
            val = args[int(field)]
        elif field in kwargs:
            val = kwargs[field]
        else:
            return None
        parts.append(ast.FormattedValue(
            value=val, conversion={None: -1, "!r": 114, "!s": 115, "!a": 97}[conv],
            format_spec=ast.JoinedStr(values=[ast.Constant(value=spec[1:])]) if spec and len(spec) > 1 else None))
    if "{" in fmt[pos:] or "}" in fmt[pos:]:
        return None
    if fmt[pos:]:
        parts.append(ast.Constant(value=fmt[pos:]))
    # merge adjacent constants
    merged = []
    for p in parts:
        if merged and isinstance(p, ast.Constant) and isinstance(merged[-1], ast.Constant):
            merged[-1] = ast.Constant(value=merged[-1].value + p.value)
        else:
            merged.append(p)
    return ast.JoinedStr(values=merged)


# ---------------------------------------------------------------------------
# helper inlining
def _straight(fn):
    """Body is statements followed by at most one final return; no nested
    defs, no yield, no other return."""
    body = list(fn.body)
    if body and isinstance(body[0], ast.Expr) and isinstance(body[0].value, ast.Constant) \
            and isinstance(body[0].value.value, str):
        body = body[1:]
    if not body:
        return None
    rets = [n for n in ast.walk(fn) if isinstance(n, ast.Return)]
    if len(rets) > 1 or (rets and rets[0] is not body[-1]):
        return None
    if any(isinstance(n, (ast.Yield, ast.YieldFrom, ast.FunctionDef, ast.Lambda, ast.ClassDef,
                          ast.Global, ast.Nonlocal, ast.Try)) for n in ast.walk(fn) if n is not fn):
        return None
    a = fn.args
    if a.vararg or a.kwarg or a.kwonlyargs or a.posonlyargs:
        return None
    return body


class _Rename(ast.NodeTransformer):
    def __init__(self, mapping, subst):
        self.mapping, self.subst = mapping, subst

    def visit_Name(self, node):
        if node.id in self.subst and isinstance(node.ctx, ast.Load):
            return copy.deepcopy(self.subst[node.id])
        if node.id in self.mapping:
            return ast.copy_location(ast.Name(id=self.mapping[node.id], ctx=node.ctx), node)
        return node


def inline_helpers(tree):
    """Inline private, single-use, straight-line helpers of this module."""
    helpers = {}
    for st in tree.body:
        if isinstance(st, ast.FunctionDef) and st.name.startswith("_") and not st.name.startswith("__") \
                and st.name not in ANCHORED and not st.decorator_list:
            helpers[("", st.name)] = st
        if isinstance(st, ast.ClassDef):
            for m in st.body:
                if isinstance(m, ast.FunctionDef) and m.name.startswith("_") and not m.name.startswith("__") \
                        and m.name not in ANCHORED:
                    decs = [ast.unparse(d) for d in m.decorator_list]
                    if all(d in ("staticmethod", "classmethod") for d in decs):
                        helpers[(st.name, m.name)] = m
    if not helpers:
        return tree, []
    # count uses by bare name
    uses = {}
    for n in ast.walk(tree):
        if isinstance(n, ast.Call):
            f = n.func
            nm = f.id if isinstance(f, ast.Name) else f.attr if isinstance(f, ast.Attribute) else None
            if nm:
                uses[nm] = uses.get(nm, 0) + 1
        elif isinstance(n, ast.Name) and isinstance(n.ctx, ast.Load):
            uses.setdefault("ref:" + n.id, 0)
            uses["ref:" + n.id] += 1
    inlined = []

    def eligible(call, owner_cls):
        f = call.func
        if isinstance(f, ast.Name) and ("", f.id) in helpers:
            key = ("", f.id)
            skip = 0
        elif isinstance(f, ast.Attribute) and isinstance(f.value, ast.Name) \
                and f.value.id in ("self", "cls", owner_cls) and (owner_cls, f.attr) in helpers:
            key = (owner_cls, f.attr)
            h = helpers[key]
            decs = [ast.unparse(d) for d in h.decorator_list]
            skip = 0 if "staticmethod" in decs else 1
        else:
            return None
        h = helpers[key]
        if uses.get(key[1], 0) != 1:
            return None
        body = _straight(h)
        if body is None:
            return None
        params = [a.arg for a in h.args.args][skip:]
        if call.keywords and any(k.arg is None for k in call.keywords):
            return None
        actual = {}
        for p, a in zip(params, call.args):
            actual[p] = a
        for k in call.keywords:
            if k.arg in params:
                actual[k.arg] = k.value
        dflt = dict(zip(params[len(params) - len(h.args.defaults):], h.args.defaults))
        for p in params:
            if p not in actual:
                if p in dflt:
                    actual[p] = dflt[p]
                else:
                    return None
        if skip and isinstance(f, ast.Attribute):
            actual[h.args.args[0].arg] = f.value
        return key, h, body, actual

    def expand(stmt, owner_cls):
        """stmt is Expr(call) | Assign(call) | Return(call): -> list of stmts or None"""
        call = stmt.value if isinstance(stmt, (ast.Expr, ast.Assign, ast.Return)) else None
        if not isinstance(call, ast.Call):
            return None
        el = eligible(call, owner_cls)
        if el is None:
            return None
        key, h, body, actual = el
        stored = {n.id for x in body for n in ast.walk(x) if isinstance(n, ast.Name)
                  and isinstance(n.ctx, ast.Store)}
        subst, pre, mapping = {}, [], {}
        for p, a in actual.items():
            simple = isinstance(a, (ast.Name, ast.Constant)) or (
                isinstance(a, ast.Attribute) and isinstance(a.value, ast.Name))
            if simple and p not in stored:
                subst[p] = a
            else:
                newn = f"{p}__{key[1].strip('_')}"
                mapping[p] = newn
                pre.append(ast.copy_location(ast.Assign(
                    targets=[ast.Name(id=newn, ctx=ast.Store())], value=a), stmt))
        for nme in stored:
            if nme not in mapping and nme not in subst:
                mapping[nme] = f"{nme}__{key[1].strip('_')}"
        rn = _Rename(mapping, subst)
        new_body = [rn.visit(copy.deepcopy(x)) for x in body]
        out = list(pre)
        last = new_body[-1]
        if isinstance(last, ast.Return):
            out.extend(new_body[:-1])
            val = last.value if last.value is not None else ast.Constant(value=None)
            if isinstance(stmt, ast.Expr):
                out.append(ast.copy_location(ast.Expr(value=val), stmt))
            elif isinstance(stmt, ast.Assign):
                out.append(ast.copy_location(ast.Assign(targets=stmt.targets, value=val), stmt))
            else:
                out.append(ast.copy_location(ast.Return(value=val), stmt))
        else:
            out.extend(new_body)
            if isinstance(stmt, ast.Assign):
                out.append(ast.copy_location(ast.Assign(targets=stmt.targets,
                                                        value=ast.Constant(value=None)), stmt))
            elif isinstance(stmt, ast.Return):
                out.append(ast.copy_location(ast.Return(value=ast.Constant(value=None)), stmt))
        for o in out:
            ast.fix_missing_locations(o)
        inlined.append(f"{key[0] + '.' if key[0] else ''}{key[1]}")
        return out

    def walk_block(stmts, owner_cls):
        out = []
        for st in stmts:
            for fld in ("body", "orelse", "finalbody"):
                if hasattr(st, fld) and isinstance(getattr(st, fld), list) and not isinstance(st, ast.ClassDef):
                    setattr(st, fld, walk_block(getattr(st, fld), owner_cls))
            if isinstance(st, ast.Try):
                for h in st.handlers:
                    h.body = walk_block(h.body, owner_cls)
            r = expand(st, owner_cls) if isinstance(st, (ast.Expr, ast.Assign, ast.Return)) else None
            if r is not None:
                out.extend(r)
            else:
                out.append(st)
        return out

    for st in tree.body:
        if isinstance(st, ast.FunctionDef) and ("", st.name) not in helpers:
            st.body = walk_block(st.body, "")
        elif isinstance(st, ast.FunctionDef):
            st.body = walk_block(st.body, "")
        elif isinstance(st, ast.ClassDef):
            for m in st.body:
                if isinstance(m, ast.FunctionDef):
                    m.body = walk_block(m.body, st.name)
    return tree, inlined


class _DropLocalAnnotations(ast.NodeTransformer):
    """T11: `x: T = e` inside a function is `x = e`; `x: T` alone is nothing.
    (Class-level annotated assignments are kept: the model reads them.)"""

    def __init__(self):
        self.depth = 0

    def visit_FunctionDef(self, node):
        self.depth += 1
        self.generic_visit(node)
        self.depth -= 1
        return node

    visit_AsyncFunctionDef = visit_FunctionDef

    def visit_AnnAssign(self, node):
        if self.depth == 0 or not isinstance(node.target, ast.Name):
            return node
        if node.value is None:
            return ast.copy_location(ast.Pass(), node)
        return ast.copy_location(ast.Assign(targets=[node.target], value=node.value), node)


def normalize(tree):
    tree = _DropLocalAnnotations().visit(tree)
    tree, inl1 = inline_helpers(tree)
    tree = Canon().visit(tree)
    ast.fix_missing_locations(tree)
    # a second round: helpers that became straight after canonicalisation
    tree, inl2 = inline_helpers(tree)
    ast.fix_missing_locations(tree)
    return tree, inl1 + inl2
