"""General abstract execution of parser.foldline for C06.

The function is executed by the checker's own interpreter on *abstract lines*
  line = A^n . R      A^n: n ASCII characters (1 octet each, content unknown),
                      R:   empty, or an arbitrary non-empty sequence of
                           characters that starts with a non-ASCII one
with n enumerated over three fold periods and R explored to closure by the loop
explorer (E6).  Strings are token lists (ASCII runs, literals, the unknown
rest); integers are concrete.  The ghost octet meter is obtained by rendering
the produced tokens.  Any construct outside the small supported subset stops
the analysis (exit 2) - never a guess.
"""
from __future__ import annotations

import ast

from .core import AnalysisError
from .loops import LoopExplorer, utf8_width, _Continue


class Unsupported(AnalysisError):
    pass


class AbsRaise(Exception):
    def __init__(self, name):
        self.name = name


class _Ret(Exception):
    def __init__(self, v):
        self.v = v


class AStr:
    """tokens: ('a', k) ASCII run | ('lit', text) | ('rest',) | ('ch', octets)"""

    def __init__(self, tokens):
        self.tokens = [t for t in tokens if not (t[0] == "a" and t[1] == 0)
                       and not (t[0] == "lit" and t[1] == "")]

    @property
    def has_rest(self):
        return any(t[0] == "rest" for t in self.tokens)

    def nchars(self):
        n = 0
        for t in self.tokens:
            if t[0] == "a":
                n += t[1]
            elif t[0] == "lit":
                n += len(t[1])
            elif t[0] == "ch":
                n += 1
            else:
                raise Unsupported("length of a string with an unknown tail")
        return n

    def __repr__(self):
        return "AStr(%r)" % (self.tokens,)


def as_tokens(v):
    if isinstance(v, AStr):
        return list(v.tokens)
    if isinstance(v, str):
        return [("lit", v)]
    if isinstance(v, AChar):
        return [("ch", v.octets)]
    raise Unsupported(f"string value expected, got {v!r}")


class AChar:
    def __init__(self, cp):
        self.cp = cp
        self.octets = utf8_width(cp)


class ABytes:
    def __init__(self, n):
        self.n = n


class Match:
    def __init__(self, start):
        self.start_ = start


def render(tokens, meter=0):
    """-> (max octets of any completed or current physical line, meter after).
    A physical line ends at LF; CR counts as an octet of the line it ends
    (conservative: the RFC bound excludes the line break)."""
    mx = meter
    for t in tokens:
        if t[0] == "a":
            meter += t[1]
        elif t[0] == "ch":
            meter += t[1]
        elif t[0] == "lit":
            for ch in t[1]:
                if ch == "\n":
                    meter = 0
                elif ch == "\r":
                    pass
                else:
                    meter += len(ch.encode("utf-8"))
                mx = max(mx, meter)
        elif t[0] == "rest":
            raise Unsupported("unknown tail copied without per-character counting")
        mx = max(mx, meter)
    return mx, meter


class FoldRun:
    def __init__(self, model, f, n, has_rest, limit, sep, nonascii_regexes):
        self.model = model
        self.f = f
        self.n = n
        self.has_rest = has_rest
        self.limit = limit
        self.sep = sep
        self.nonascii = nonascii_regexes
        self.max_line = 0
        self.loop_reports = []
        self.ascii_out = 0
        self.result = None
        a = f.node.args
        names = [x.arg for x in a.args]
        self.env = {names[0]: AStr([("a", n)] + ([("rest",)] if has_rest else [])),
                    names[1]: limit, names[2]: sep}
        self.line_name, self.limit_name, self.sep_name = names[:3]

    # ---- expressions -------------------------------------------------------
    def ev(self, e):
        if isinstance(e, ast.Constant):
            return e.value
        if isinstance(e, ast.Name):
            if e.id in self.env:
                return self.env[e.id]
            if e.id in self.nonascii:
                return ("regex", e.id)
            r = self.model.resolve_name(self.f.module, e.id)
            if isinstance(r, tuple) and r[0] == "global":
                try:
                    return self.model.const(r[1].globals[r[2]], r[1])
                except AnalysisError:
                    pass
            if e.id in ("UnicodeEncodeError", "UnicodeDecodeError", "str", "len", "range", "ord"):
                return ("builtin", e.id)
            raise Unsupported(f"name {e.id}")
        if isinstance(e, ast.BinOp):
            a, b = self.ev(e.left), self.ev(e.right)
            if isinstance(a, int) and isinstance(b, int):
                if isinstance(e.op, ast.Add):
                    return a + b
                if isinstance(e.op, ast.Sub):
                    return a - b
                if isinstance(e.op, ast.Mult):
                    return a * b
                if isinstance(e.op, ast.Mod):
                    if b == 0:
                        raise AbsRaise("ZeroDivisionError")
                    return a % b
                if isinstance(e.op, ast.FloorDiv):
                    if b == 0:
                        raise AbsRaise("ZeroDivisionError")
                    return a // b
            if isinstance(e.op, ast.Add) and isinstance(a, (AStr, str)) and isinstance(b, (AStr, str)):
                return AStr(as_tokens(a) + as_tokens(b))
            if isinstance(e.op, ast.Add) and isinstance(a, list) and isinstance(b, list):
                return a + b
            raise Unsupported(f"operator on {a!r}, {b!r}")
        if isinstance(e, ast.UnaryOp):
            v = self.ev(e.operand)
            if isinstance(e.op, ast.Not):
                return not self.truth(v)
            if isinstance(e.op, ast.USub) and isinstance(v, int):
                return -v
            raise Unsupported("unary operator")
        if isinstance(e, ast.BoolOp):
            v = None
            for x in e.values:
                v = self.ev(x)
                t = self.truth(v)
                if isinstance(e.op, ast.And) and not t:
                    return v
                if isinstance(e.op, ast.Or) and t:
                    return v
            return v
        if isinstance(e, ast.IfExp):
            return self.ev(e.body if self.truth(self.ev(e.test)) else e.orelse)
        if isinstance(e, ast.Compare) and len(e.ops) == 1:
            a, b = self.ev(e.left), self.ev(e.comparators[0])
            op = e.ops[0]
            if isinstance(op, (ast.In, ast.NotIn)):
                if isinstance(a, str) and isinstance(b, AStr):
                    # content lines contain no LF (precondition, C05/LF-GATE)
                    if a == "\n":
                        r = False
                    else:
                        raise Unsupported("membership test on unknown characters")
                    return r if isinstance(op, ast.In) else not r
                raise Unsupported("membership test")
            if isinstance(op, (ast.Is, ast.IsNot)):
                r = a is b or (a is None and b is None)
                return r if isinstance(op, ast.Is) else not r
            if isinstance(a, int) and isinstance(b, int):
                return {ast.Lt: a < b, ast.LtE: a <= b, ast.Gt: a > b, ast.GtE: a >= b,
                        ast.Eq: a == b, ast.NotEq: a != b}[type(op)]
            raise Unsupported(f"comparison of {a!r} and {b!r}")
        if isinstance(e, ast.Subscript):
            base = self.ev(e.value)
            if isinstance(e.slice, ast.Slice):
                lo = self.ev(e.slice.lower) if e.slice.lower else None
                hi = self.ev(e.slice.upper) if e.slice.upper else None
                if e.slice.step is not None:
                    raise Unsupported("slice step")
                return self.slice(base, lo, hi)
            raise Unsupported("indexing")
        if isinstance(e, ast.List):
            return [self.ev(x) for x in e.elts]
        if isinstance(e, ast.Tuple):
            return tuple(self.ev(x) for x in e.elts)
        if isinstance(e, (ast.GeneratorExp, ast.ListComp)):
            return self.comp(e)
        if isinstance(e, ast.Call):
            return self.call(e)
        if isinstance(e, ast.Attribute):
            raise Unsupported(f"attribute {e.attr}")
        raise Unsupported(f"expression {type(e).__name__}")

    def truth(self, v):
        if v is None or isinstance(v, (bool, int, str, list, tuple)):
            return bool(v)
        if isinstance(v, AStr):
            return bool(v.tokens)
        if isinstance(v, Match):
            return True
        raise Unsupported(f"truth of {v!r}")

    def slice(self, base, lo, hi):
        if isinstance(base, str):
            return base[lo:hi]
        if not isinstance(base, AStr):
            raise Unsupported("slice of non-string")
        lo = 0 if lo is None else lo
        if lo < 0 or (hi is not None and hi < 0):
            raise Unsupported("negative slice bound")
        out = []
        pos = 0
        for t in base.tokens:
            if t[0] == "rest":
                if hi is None and lo <= pos:
                    out.append(t)
                elif hi is not None and hi <= pos:
                    pass
                elif hi is None and lo > pos:
                    raise Unsupported("slice starts inside the unknown tail")
                else:
                    raise Unsupported("slice ends inside the unknown tail")
                pos = float("inf")
                continue
            ln = t[1] if t[0] in ("a",) else len(t[1]) if t[0] == "lit" else 1
            s, epos = pos, pos + ln
            a = max(lo, s)
            b = epos if hi is None else min(hi, epos)
            if b > a:
                if t[0] == "a":
                    out.append(("a", b - a))
                elif t[0] == "lit":
                    out.append(("lit", t[1][a - s:b - s]))
                else:
                    out.append(t)
            pos = epos
        return AStr(out)

    def comp(self, e):
        if len(e.generators) != 1 or e.generators[0].ifs:
            raise Unsupported("comprehension shape")
        g = e.generators[0]
        it = self.ev(g.iter)
        if not isinstance(it, range):
            raise Unsupported("comprehension over a non-range")
        if not isinstance(g.target, ast.Name):
            raise Unsupported("comprehension target")
        out = []
        saved = self.env.get(g.target.id)
        for i in it:
            self.env[g.target.id] = i
            out.append(self.ev(e.elt))
            if len(out) > 10000:
                raise Unsupported("comprehension too long")
        if saved is None:
            self.env.pop(g.target.id, None)
        else:
            self.env[g.target.id] = saved
        return out

    def call(self, e):
        fn = e.func
        if isinstance(fn, ast.Name):
            args = [self.ev(a) for a in e.args]
            if fn.id == "len":
                v = args[0]
                if isinstance(v, AStr):
                    return v.nchars()
                if isinstance(v, (str, list)):
                    return len(v)
                if isinstance(v, ABytes):
                    return v.n
                raise Unsupported("len of unknown value")
            if fn.id == "range":
                if not all(isinstance(a, int) for a in args):
                    raise Unsupported("range of non-integers")
                try:
                    return range(*args)
                except ValueError:
                    raise AbsRaise("ValueError")
            if fn.id == "isinstance":
                return True
            if fn.id == "ord" and isinstance(args[0], AChar):
                return args[0].cp
            if fn.id in ("min", "max") and all(isinstance(a, int) for a in args):
                return (min if fn.id == "min" else max)(*args)
            raise Unsupported(f"call of {fn.id}")
        if isinstance(fn, ast.Attribute):
            recv = self.ev(fn.value)
            name = fn.attr
            args = [self.ev(a) for a in e.args]
            if name == "join":
                items = args[0]
                if not isinstance(items, list):
                    raise Unsupported("join of a non-list")
                toks = []
                for k, it in enumerate(items):
                    if k:
                        toks += as_tokens(recv)
                    toks += as_tokens(it)
                return AStr(toks)
            if name == "encode":
                if isinstance(recv, AChar):
                    return ABytes(recv.octets)
                if isinstance(recv, AStr):
                    codec = args[0] if args else "utf-8"
                    if str(codec).lower() == "ascii":
                        if recv.has_rest or any(t[0] == "ch" and t[1] > 1 for t in recv.tokens):
                            raise AbsRaise("UnicodeEncodeError")
                        return ABytes(recv.nchars())
                    raise Unsupported("encode of a whole abstract string")
                raise Unsupported("encode")
            if name in ("search", "match") and isinstance(recv, tuple) and recv[0] == "regex":
                s = args[0]
                if not isinstance(s, AStr):
                    raise Unsupported("regex on a concrete string")
                pos = 0
                for t in s.tokens:
                    if t[0] == "rest":
                        return Match(pos)
                    if t[0] == "ch" and t[1] > 1:
                        return Match(pos)
                    pos += t[1] if t[0] == "a" else len(t[1]) if t[0] == "lit" else 1
                return None
            if name == "start" and isinstance(recv, Match):
                return recv.start_
            if name == "isascii" and isinstance(recv, AStr):
                return not recv.has_rest
            if name == "append" and isinstance(recv, list):
                recv.append(args[0])
                return None
            if name == "extend" and isinstance(recv, list):
                recv.extend(args[0])
                return None
            raise Unsupported(f"method {name}")
        raise Unsupported("call shape")

    # ---- statements --------------------------------------------------------
    def run(self):
        try:
            self.block(self.f.node.body)
        except _Ret as r:
            self.result = r.v
        if self.result is None:
            raise Unsupported("foldline returned nothing on an abstract line")
        toks = as_tokens(self.result)
        if getattr(self, "explored", False) and toks:
            raise Unsupported("output is extended after the character loop over the unknown tail")
        mx, _ = render(toks)
        self.max_line = max(self.max_line, mx)
        self.ascii_out = sum(t[1] for t in toks if t[0] == "a")
        return self

    def block(self, stmts):
        for st in stmts:
            self.stmt(st)

    def stmt(self, st):
        if isinstance(st, ast.Expr):
            if isinstance(st.value, ast.Constant):
                return
            self.ev(st.value)
        elif isinstance(st, ast.Assign):
            v = self.ev(st.value)
            for t in st.targets:
                if not isinstance(t, ast.Name):
                    raise Unsupported("assignment target")
                self.env[t.id] = v
        elif isinstance(st, ast.AugAssign) and isinstance(st.target, ast.Name):
            cur = self.env[st.target.id]
            v = self.ev(st.value)
            if isinstance(cur, int) and isinstance(v, int):
                self.env[st.target.id] = cur + v if isinstance(st.op, ast.Add) else cur - v \
                    if isinstance(st.op, ast.Sub) else None
                if self.env[st.target.id] is None:
                    raise Unsupported("augmented operator")
            elif isinstance(cur, list) and isinstance(st.op, ast.Add):
                cur.extend(v)
            elif isinstance(cur, (AStr, str)) and isinstance(st.op, ast.Add):
                self.env[st.target.id] = AStr(as_tokens(cur) + as_tokens(v))
            else:
                raise Unsupported("augmented assignment")
        elif isinstance(st, ast.Assert):
            if not self.truth(self.ev(st.test)):
                raise AbsRaise("AssertionError")
        elif isinstance(st, ast.If):
            self.block(st.body if self.truth(self.ev(st.test)) else st.orelse)
        elif isinstance(st, ast.Return):
            raise _Ret(self.ev(st.value) if st.value is not None else None)
        elif isinstance(st, ast.Try):
            try:
                self.block(st.body)
            except AbsRaise as ex:
                for h in st.handlers:
                    names = [n.id for n in ast.walk(h.type) if isinstance(n, ast.Name)] if h.type else None
                    if names is None or ex.name in names or "Exception" in names \
                            or (ex.name == "UnicodeEncodeError" and "UnicodeError" in names) \
                            or (ex.name == "UnicodeEncodeError" and "ValueError" in names):
                        self.block(h.body)
                        break
                else:
                    raise
            else:
                self.block(st.orelse)
            self.block(st.finalbody)
        elif isinstance(st, ast.For):
            self.for_loop(st)
        elif isinstance(st, ast.Pass):
            pass
        else:
            raise Unsupported(f"statement {type(st).__name__}")

    def for_loop(self, st):
        it = self.ev(st.iter)
        if isinstance(it, range) or isinstance(it, list):
            if not isinstance(st.target, ast.Name):
                raise Unsupported("loop target")
            for x in it:
                self.env[st.target.id] = x
                self.block(st.body)
            return
        if not isinstance(it, AStr):
            raise Unsupported("loop over unknown iterable")
        if not isinstance(st.target, ast.Name):
            raise Unsupported("loop target")
        # which list does the body append to, and which name is the separator?
        bufs = {c.func.value.id for c in ast.walk(st) if isinstance(c, ast.Call)
                and isinstance(c.func, ast.Attribute) and c.func.attr == "append"
                and isinstance(c.func.value, ast.Name)}
        if len(bufs) != 1:
            raise Unsupported("character loop must append to exactly one buffer")
        buf = next(iter(bufs))
        if not isinstance(self.env.get(buf), list):
            raise Unsupported("buffer is not a list")
        sep_names = [k for k, v in self.env.items() if isinstance(v, str) and v == self.sep]
        if self.sep_name not in sep_names:
            raise Unsupported("separator name lost")
        ints = {k: v for k, v in self.env.items()
                if isinstance(v, int) and not isinstance(v, bool)}
        assigned = {n.id for x in ast.walk(st) for n in ast.walk(x)
                    if isinstance(n, ast.Name) and isinstance(n.ctx, ast.Store)}
        carried = {k: v for k, v in ints.items() if k in assigned}
        consts = {k: v for k, v in ints.items() if k not in assigned}
        tail = self.sep[self.sep.rfind("\n") + 1:] if "\n" in self.sep else self.sep
        mx, meter = render([t for item in self.env[buf] for t in as_tokens(item)])
        self.max_line = max(self.max_line, mx)
        ex = LoopExplorer(st, consts, buf, self.sep_name, len(tail.encode("utf-8")),
                          self.limit, (1, 2, 3, 4), carried)
        # concrete prefix of the iterated string
        state = dict(carried)
        for t in it.tokens:
            if t[0] == "rest":
                break
            reps = t[1] if t[0] == "a" else len(t[1]) if t[0] == "lit" else 1
            for k in range(reps):
                cp = 0x41 if t[0] != "lit" else ord(t[1][k])
                ex.cp = cp
                log = []
                try:
                    meter = ex.run_body(st.body, state, utf8_width(cp), meter, log)
                except _Continue as c:
                    meter = c.meter
                for x in log:
                    if isinstance(x, tuple):
                        self.max_line = max(self.max_line, x[1])
                        self.env[buf].append(self.sep)
                    else:
                        self.env[buf].append(AStr([("a", 1)]) if cp < 0x80 else AChar(cp))
                if sum(1 for x in log if x == "elem") != 1:
                    self.loop_reports.append(("appends", dict(state), 1, 0))
                self.max_line = max(self.max_line, meter)
                state = {k: v for k, v in state.items() if k in carried}
        if it.has_rest:
            ex.init = dict(state)
            ex.explore(meter0=meter, first_nonascii=True)
            self.max_line = max(self.max_line, ex.max_meter)
            self.loop_reports += ex.violations
            if ex.appends_per_iter - {1}:
                self.loop_reports.append(("appends", {}, 0, 0))
            self.loop_states = ex.states
            # after an explored loop only `return ''.join(buf)` may follow
            self.env[buf] = [AStr([])]
            for k in carried:
                self.env[k] = 0
            self.explored = True
        else:
            # rebuild buffer meter: replace buffer by its rendering summary
            for k, v in state.items():
                self.env[k] = v
            self.env["__meter__"] = meter
