"""E3 - exception effects: which exception classes may escape a function.

Bottom-up over the call graph (E1) to a fixpoint: explicit raises, callee
summaries, and a table of primitive operations that can raise.  Handlers
subtract by class hierarchy; a handler that re-raises a different class
contributes that class.  A primitive risk is discharged by a dominating guard
(emptiness / len / membership / None tests, key provenance, registry closure,
named-group provenance) or by an entry of the justified-safe table (one named
construct + reason each).  Receivers of unknown static type raise nothing:
the analysis is exact on what it reports, not complete (DESIGN.md 8.2).
"""
from __future__ import annotations

import ast

from .core import AnalysisError
from .flow import dump
from .model import ClassInfo, FuncInfo, walk_no_nested, is_super_call, body_without_docstring
from .callgraph import CallGraph

BASES = {
    "BaseException": None, "Exception": "BaseException",
    "ArithmeticError": "Exception", "OverflowError": "ArithmeticError",
    "ZeroDivisionError": "ArithmeticError", "AssertionError": "Exception",
    "AttributeError": "Exception", "LookupError": "Exception",
    "IndexError": "LookupError", "KeyError": "LookupError",
    "OSError": "Exception", "IsADirectoryError": "OSError",
    "FileNotFoundError": "OSError", "PermissionError": "OSError",
    "TypeError": "Exception", "ValueError": "Exception",
    "UnicodeError": "ValueError", "UnicodeDecodeError": "UnicodeError",
    "UnicodeEncodeError": "UnicodeError", "RuntimeError": "Exception",
    "RecursionError": "RuntimeError", "NotImplementedError": "RuntimeError",
    "StopIteration": "Exception", "NameError": "Exception",
    "UnboundLocalError": "NameError", "ImportError": "Exception",
    "ModuleNotFoundError": "ImportError", "MemoryError": "Exception",
    # externals
    "ZoneInfoNotFoundError": "KeyError", "UnknownTimeZoneError": "KeyError",
    "binascii.Error": "ValueError", "Error": "ValueError",
}

EXTERNAL_RAISES = [
    # (predicate on dotted name, exceptions)
    (lambda n: n.endswith("zoneinfo.ZoneInfo") or n == "zoneinfo.ZoneInfo" or n.endswith(".ZoneInfo"),
     {"ZoneInfoNotFoundError", "ValueError", "OSError"}),
    (lambda n: n.startswith("pytz.timezone") or n == "pytz.timezone", {"UnknownTimeZoneError"}),
    (lambda n: n.startswith("base64.") or n.startswith("binascii.a2b"), {"ValueError"}),
    (lambda n: n.startswith("pytz.utc.") or n.startswith("pytz.UTC"), {"ValueError"}),
    (lambda n: n.startswith("datetime.tzinfo."), set()),
    (lambda n: n.startswith("binascii.b2a"), set()),
    (lambda n: n.startswith("zoneinfo.available_timezones"), set()),
    (lambda n: n.startswith("copy."), set()),
    (lambda n: n.startswith("functools.") or n.startswith("copyreg.") or n.startswith("collections."), set()),
    # lazy iterator plumbing: raises only what the callables / iterables handed in raise
    (lambda n: n.startswith("itertools.") or n.startswith("operator.") or n.startswith("string."), set()),
    (lambda n: n.startswith("io.") or n.endswith("StringIO"), set()),
    (lambda n: n.startswith("random."), set()),
    (lambda n: n.startswith("os."), {"OSError"}),
    (lambda n: n.startswith("datetime.timedelta") or n.endswith(".timedelta"), {"OverflowError"}),
    (lambda n: n.startswith("datetime.date") or n.startswith("datetime.time")
     or n.endswith(".datetime") or n.endswith(".date") or n.endswith(".time"),
     {"ValueError", "OverflowError"}),
    (lambda n: n.startswith("dateutil") or n.startswith("pytz") or "tzical" in n or "rrule" in n,
     {"Exception"}),
    (lambda n: n.startswith("typing.") or n.startswith("abc.") or n.startswith("enum."), set()),
]

BUILTIN_RAISES = {
    "int": {"ValueError"}, "float": {"ValueError"}, "next": {"StopIteration"},
    "open": {"OSError"}, "abs": set(), "type": set(),
    "timedelta": {"OverflowError"}, "date": {"ValueError", "OverflowError"},
    "datetime": {"ValueError", "OverflowError"}, "time": {"ValueError"},
}

# method calls on receivers of unknown type that are known to be able to raise
METHOD_RAISES = {
    "remove": {"ValueError", "KeyError"}, "index": {"ValueError"},
    "astimezone": {"OverflowError"}, "localize": {"Exception"},
    "normalize": {"Exception"}, "strftime": {"ValueError"},
}


class Hier:
    def __init__(self, model):
        self.model = model
        self.repo = {}
        for c in model.all_classes():
            for b in c.base_exprs:
                r = model.resolve_class_expr(c.module, b)
                base = r.name if isinstance(r, ClassInfo) else str(r).split(".")[-1]
                self.repo.setdefault(c.name, base)

    def chain(self, name):
        name = name.split(".")[-1] if name not in BASES else name
        out = [name]
        seen = set()
        while out[-1] not in seen:
            seen.add(out[-1])
            cur = out[-1]
            nxt = BASES.get(cur, self.repo.get(cur))
            if nxt is None:
                break
            out.append(nxt)
        return out

    def is_sub(self, a, b):
        return b in self.chain(a)

    def is_exception_class(self, name):
        return "BaseException" in self.chain(name) or "Exception" in self.chain(name)


def dead_under_defaults(call, callee, node):
    """`node` (a statement or expression of `callee`) cannot execute in this call: it lies in a
    branch, or after an early exit, that is decided by parameters the call does not pass and that
    therefore have their constant defaults (`def walk(..., max_depth=None)` called as
    `walk(name)`: everything after `if max_depth is None: return ...` is dead)."""
    a = callee.node.args
    pos = a.posonlyargs + a.args
    off = 1 if (callee.cls is not None and callee.kind in ("instance", "class")
                and isinstance(call.func, ast.Attribute)) else 0
    if any(isinstance(x, ast.Starred) for x in call.args) or any(k.arg is None for k in call.keywords):
        return False
    given = {p.arg for p in pos[:len(call.args) + off]} | {k.arg for k in call.keywords}
    consts = {}
    defaults = dict(zip([p.arg for p in pos[len(pos) - len(a.defaults):]], a.defaults))
    defaults.update({p.arg: d for p, d in zip(a.kwonlyargs, a.kw_defaults) if d is not None})
    for name, d in defaults.items():
        if name not in given and isinstance(d, ast.Constant):
            consts[name] = d.value
    rebound = {n.id for n in ast.walk(callee.node) if isinstance(n, ast.Name) and isinstance(n.ctx, ast.Store)}
    consts = {k: v for k, v in consts.items() if k not in rebound}
    if not consts:
        return False

    def value(t):
        """True / False / None (unknown) of a test under the constant parameters."""
        if isinstance(t, ast.Name) and t.id in consts:
            return bool(consts[t.id])
        if isinstance(t, ast.UnaryOp) and isinstance(t.op, ast.Not):
            v = value(t.operand)
            return None if v is None else not v
        if isinstance(t, ast.Compare) and len(t.ops) == 1 and isinstance(t.left, ast.Name) \
                and t.left.id in consts and isinstance(t.comparators[0], ast.Constant):
            c, k, op = consts[t.left.id], t.comparators[0].value, t.ops[0]
            if isinstance(op, ast.Is):
                return c is k
            if isinstance(op, ast.IsNot):
                return c is not k
            if isinstance(op, ast.Eq) and type(c) is type(k):
                return c == k
            if isinstance(op, ast.NotEq) and type(c) is type(k):
                return c != k
        if isinstance(t, ast.BoolOp):
            vs = [value(v) for v in t.values]
            if isinstance(t.op, ast.And):
                return False if any(v is False for v in vs) else (True if all(v is True for v in vs) else None)
            return True if any(v is True for v in vs) else (False if all(v is False for v in vs) else None)
        return None

    def exits(stmts):
        return bool(stmts) and isinstance(stmts[-1], (ast.Return, ast.Raise))

    def contains(st, target):
        return any(x is target for x in ast.walk(st))

    def dead_in(stmts):
        for st in stmts:
            if contains(st, node):
                if isinstance(st, ast.If):
                    v = value(st.test)
                    if contains(st.test, node):
                        return False
                    in_body = any(contains(b, node) for b in st.body)
                    if v is not None and in_body != v:
                        return True
                    return dead_in(st.body if in_body else st.orelse)
                if isinstance(st, (ast.For, ast.While, ast.With, ast.Try)):
                    for blk in (getattr(st, "body", []), getattr(st, "orelse", []),
                                getattr(st, "finalbody", [])):
                        if any(contains(b, node) for b in blk):
                            return dead_in(blk)
                return False
            # an earlier statement of this block that always leaves the function
            if isinstance(st, ast.If):
                v = value(st.test)
                if v is True and exits(st.body):
                    return True
                if v is False and exits(st.orelse):
                    return True
            elif isinstance(st, (ast.Return, ast.Raise)):
                return True
        return False
    return dead_in(body_without_docstring(callee.node))


class Origin:
    __slots__ = ("exc", "func", "node", "what", "via")

    def __init__(self, exc, func, node, what, via=None):
        self.exc, self.func, self.node, self.what, self.via = exc, func, node, what, via

    def chain(self):
        out = []
        o = self
        n = 0
        while o is not None and n < 12:
            out.append(f"{o.func.qualname}:{getattr(o.node, 'lineno', '?')}")
            o = o.via
            n += 1
        return out

    def root(self):
        o = self
        n = 0
        while o.via is not None and n < 50:
            o = o.via
            n += 1
        return o


class Effects:
    def __init__(self, model, safe_table=None):
        self.model = model
        self.cg = CallGraph(model)
        self.h = Hier(model)
        self.summ = {}              # qualname -> {exc: Origin}
        self.safe_table = safe_table or {}
        self.safe_used = set()
        self.unknown_receivers = 0
        self._in_progress = set()
        self._iteration = 0

    # ---- public -----------------------------------------------------------
    def escapes(self, f: FuncInfo):
        """Fixpoint of the escape summary for f and everything it reaches."""
        for _ in range(8):
            before = {k: {(e, kk) for e, d in v.items() for kk in d} for k, v in self.summ.items()}
            self._visited = set()
            self._compute(f)
            after = {k: {(e, kk) for e, d in v.items() for kk in d} for k, v in self.summ.items()}
            if before == after:
                break
        return self.summ.get(f.qualname, {})

    def _compute(self, f):
        if f.qualname in self._visited:
            return self.summ.get(f.qualname, {})
        self._visited.add(f.qualname)
        self.summ.setdefault(f.qualname, {})
        res = FuncAnalysis(self, f).run()
        self.summ[f.qualname] = res
        return res

    def callee_summary(self, g):
        if g.qualname not in self._visited:
            return self._compute(g)
        return self.summ.get(g.qualname, {})


class FuncAnalysis:
    def __init__(self, eff: Effects, f: FuncInfo):
        self.eff = eff
        self.f = f
        self.h = eff.h
        self.model = eff.model
        self.sites = {id(s.node): s for s in eff.cg.sites(f)}
        self.desc = {}
        for node, g in eff.cg.descriptor_reads(f):
            self.desc.setdefault(id(node), []).append(g)
        self.out = {}
        self.facts = Facts(f)

    def run(self):
        self.block(body_without_docstring(self.f.node), [], frozenset())
        return self.out

    # handlers: list of frames; frame = list of (names|None, handler node)
    def guarded_by_caller(self, exc, via, recv, guards, call=None, callee=None):
        """KeyError from `self['K']` (or `<param>['K']`) in a callee invoked on
        receiver R (with actual argument A) under the fact 'K' in R (in A) at
        the call site."""
        if exc != "KeyError" or via is None:
            return False
        root = via.root()
        w = root.what
        if recv is not None and "`self['" in w:
            k = w.split("`self['", 1)[1].split("']", 1)[0]
            if ("haskey", dump(recv), repr(k)) in guards:
                return True
        # `<param>['K']` raised directly in the callee: bind the actual argument
        if call is not None and callee is not None and root.func is callee \
                and isinstance(root.node, ast.Subscript) and isinstance(root.node.value, ast.Name) \
                and isinstance(root.node.slice, ast.Constant):
            pname = root.node.value.id
            params = [a.arg for a in callee.node.args.posonlyargs + callee.node.args.args]
            if pname in params:
                # the parameter must not be rebound in the callee
                if any(isinstance(n, ast.Name) and n.id == pname and isinstance(n.ctx, ast.Store)
                       for n in ast.walk(callee.node)):
                    return False
                i = params.index(pname)
                off = 1 if (callee.cls is not None and callee.kind in ("instance", "class")
                            and isinstance(call.func, ast.Attribute)) else 0
                actual = None
                if i - off >= 0 and i - off < len(call.args):
                    actual = call.args[i - off]
                for kw in call.keywords:
                    if kw.arg == pname:
                        actual = kw.value
                if i == 0 and off == 1 and callee.kind == "instance":
                    actual = call.func.value
                if actual is not None and \
                        ("haskey", dump(actual), repr(root.node.slice.value)) in guards:
                    return True
        return False

    def emit(self, exc, node, what, handlers, via=None):
        """An exception `exc` raised at `node` under the handler stack."""
        for frame in reversed(handlers):
            for names, h in frame:
                if names is None or any(self.h.is_sub(exc, n) for n in names):
                    if exc == "Exception" and names is not None and \
                            not any(n in ("Exception", "BaseException") for n in names):
                        continue        # "anything" is only caught by a broad handler
                    return
        if via is None:
            key = f"{self.f.qualname}: {what} -> {exc}"
            if key in self.eff.safe_table:
                self.eff.safe_used.add(key)
                return
        o = Origin(exc, self.f, node, what, via)
        r = o.root()
        key = (r.func.qualname, r.what)
        d = self.out.setdefault(exc, {})
        if key not in d and len(d) < 40:
            d[key] = o

    def block(self, stmts, handlers, guards):
        for st in stmts:
            guards = self.stmt(st, handlers, guards)
        return guards

    def stmt(self, st, handlers, guards):
        if isinstance(st, ast.Try):
            frame = []
            for h in st.handlers:
                if h.type is None:
                    frame.append((None, h))
                else:
                    names = [n.attr if isinstance(n, ast.Attribute) else n.id
                             for n in ([h.type] if not isinstance(h.type, ast.Tuple) else h.type.elts)
                             if isinstance(n, (ast.Name, ast.Attribute))]
                    frame.append((names, h))
            # what the body can raise (for bare re-raise in handlers)
            sub = FuncAnalysis.__new__(FuncAnalysis)
            sub.__dict__.update(self.__dict__)
            sub.out = {}
            sub.block(st.body, [], guards)
            body_raises = sub.out
            self.block(st.body, handlers + [frame], guards)
            for names, h in frame:
                caught = {}
                for e, o in body_raises.items():
                    if names is None or any(self.h.is_sub(e, n) for n in names):
                        caught[e] = o
                    elif e == "Exception":
                        # "anything" caught by a narrow handler is one of its classes
                        for n in names:
                            caught.setdefault(n, o)
                self.handler_body(h, handlers, guards, caught)
            self.block(st.orelse, handlers, guards)
            self.block(st.finalbody, handlers, guards)
            return guards
        if isinstance(st, ast.If):
            self.expr(st.test, handlers, guards)
            gpos = guards | self.facts.from_test(st.test, True)
            gneg = guards | self.facts.from_test(st.test, False)
            self.block(st.body, handlers, gpos)
            self.block(st.orelse, handlers, gneg)
            if st.body and isinstance(st.body[-1], (ast.Return, ast.Raise, ast.Continue, ast.Break)) \
                    and not st.orelse:
                return gneg
            if st.orelse and isinstance(st.orelse[-1], (ast.Return, ast.Raise, ast.Continue, ast.Break)):
                return gpos
            return guards
        if isinstance(st, (ast.For, ast.AsyncFor)):
            self.expr(st.iter, handlers, guards)
            g2 = guards | self.facts.from_loop(st)
            self.block(st.body, handlers, g2)
            self.block(st.orelse, handlers, guards)
            return guards
        if isinstance(st, ast.While):
            self.expr(st.test, handlers, guards)
            self.block(st.body, handlers, guards | self.facts.from_test(st.test, True))
            return guards
        if isinstance(st, (ast.With, ast.AsyncWith)):
            for it in st.items:
                self.expr(it.context_expr, handlers, guards)
            self.block(st.body, handlers, guards)
            return guards
        if isinstance(st, ast.Raise):
            if st.exc is not None:
                self.expr(st.exc, handlers, guards)
                name = self._exc_name(st.exc)
                self.emit(name, st, f"raise {name}", handlers)
            return guards
        if isinstance(st, ast.Assert):
            self.expr(st.test, handlers, guards)
            self.emit("AssertionError", st, "assert #" + str(self._ordinal(st, ast.Assert)), handlers)
            return guards | self.facts.from_test(st.test, True)
        if isinstance(st, (ast.FunctionDef, ast.ClassDef, ast.Import, ast.ImportFrom,
                           ast.Global, ast.Nonlocal, ast.Pass, ast.Break, ast.Continue)):
            return guards
        if isinstance(st, ast.Assign):
            self.expr(st.value, handlers, guards)
            if any(isinstance(t, (ast.Tuple, ast.List)) for t in st.targets):
                v = st.value
                if isinstance(v, ast.Call) and isinstance(v.func, ast.Attribute) \
                        and v.func.attr in ("split", "rsplit", "partition"):
                    if v.func.attr != "partition":
                        self.emit("ValueError", st, "tuple unpacking of a split()", handlers)
            for t in st.targets:
                self.target(t, handlers, guards)
            return self.facts.kill(guards, st)
        if isinstance(st, ast.AugAssign):
            self.expr(st.value, handlers, guards)
            self.arith(st, st.target, st.value, st.op, handlers, guards)
            return self.facts.kill(guards, st)
        if isinstance(st, ast.AnnAssign):
            if st.value is not None:
                self.expr(st.value, handlers, guards)
            return guards
        if isinstance(st, ast.Return):
            if st.value is not None:
                self.expr(st.value, handlers, guards)
            return guards
        if isinstance(st, ast.Expr):
            self.expr(st.value, handlers, guards)
            return self.facts.kill(guards, st)
        if isinstance(st, ast.Delete):
            for t in st.targets:
                self.target(t, handlers, guards)
            return guards
        return guards

    def _narrowed(self, h, n, caught):
        """A bare `raise` under `if isinstance(<bound name>, X):` re-raises only X."""
        if h.name is None:
            return caught
        def find(stmts, cond):
            for s in stmts:
                if s is n:
                    return cond
                if isinstance(s, ast.If):
                    t = s.test
                    names = None
                    if isinstance(t, ast.Call) and isinstance(t.func, ast.Name) and t.func.id == "isinstance" \
                            and len(t.args) == 2 and isinstance(t.args[0], ast.Name) and t.args[0].id == h.name:
                        c = t.args[1]
                        names = [x.attr if isinstance(x, ast.Attribute) else x.id
                                 for x in (c.elts if isinstance(c, ast.Tuple) else [c])
                                 if isinstance(x, (ast.Name, ast.Attribute))]
                    r = find(s.body, names if names else cond)
                    if r is not False:
                        return r
                    r = find(s.orelse, cond)
                    if r is not False:
                        return r
                else:
                    for fld in ("body", "orelse", "finalbody"):
                        sub = getattr(s, fld, None)
                        if isinstance(sub, list):
                            r = find(sub, cond)
                            if r is not False:
                                return r
            return False
        cond = find(h.body, None)
        if not cond:
            return caught
        out = {}
        for e, os_ in caught.items():
            if any(self.h.is_sub(e, x) for x in cond):
                out[e] = os_
            elif e == "Exception" or any(self.h.is_sub(x, e) for x in cond):
                for x in cond:
                    out.setdefault(x, os_)
        return out

    def handler_body(self, h, handlers, guards, caught):
        full = caught
        for st in h.body:
            if isinstance(st, ast.Raise) and st.exc is None:
                for e, os_ in caught.items():
                    for o in os_.values():
                        self.emit(e, st, f"re-raise of {e}", handlers, via=o)
            else:
                # nested bare raise deeper in the handler body
                for n in ast.walk(st):
                    if isinstance(n, ast.Raise) and n.exc is None and n is not st:
                        for e, os_ in self._narrowed(h, n, full).items():
                            for o in os_.values():
                                self.emit(e, n, f"re-raise of {e}", handlers, via=o)
                guards = self.stmt(st, handlers, guards)

    def target(self, t, handlers, guards):
        if isinstance(t, ast.Subscript):
            self.expr(t.value, handlers, guards)
        elif isinstance(t, ast.Attribute):
            self.expr(t.value, handlers, guards)

    def _ordinal(self, node, typ):
        n = 0
        for x in ast.walk(self.f.node):
            if isinstance(x, typ):
                n += 1
                if x is node:
                    return n
        return 0

    def _safe(self, key):
        if key in self.eff.safe_table:
            self.eff.safe_used.add(key)
            return True
        return False

    def _exc_name(self, e):
        if isinstance(e, ast.Call):
            e = e.func
        if isinstance(e, ast.Name):
            return e.id
        if isinstance(e, ast.Attribute):
            return e.attr
        return "Exception"

    # ---- expressions -------------------------------------------------------
    def expr(self, e, handlers, guards):
        if e is None:
            return
        if isinstance(e, ast.BoolOp):
            g = guards
            for v in e.values:
                self.expr(v, handlers, g)
                g = g | self.facts.from_test(v, isinstance(e.op, ast.And))
            return
        if isinstance(e, ast.IfExp):
            self.expr(e.test, handlers, guards)
            self.expr(e.body, handlers, guards | self.facts.from_test(e.test, True))
            self.expr(e.orelse, handlers, guards | self.facts.from_test(e.test, False))
            return
        if isinstance(e, (ast.ListComp, ast.SetComp, ast.GeneratorExp, ast.DictComp)):
            g = guards
            for gen in e.generators:
                self.expr(gen.iter, handlers, g)
                g = g | self.facts.from_comp(gen)
                for c in gen.ifs:
                    self.expr(c, handlers, g)
                    g = g | self.facts.from_test(c, True)
            if isinstance(e, ast.DictComp):
                self.expr(e.key, handlers, g)
                self.expr(e.value, handlers, g)
            else:
                self.expr(e.elt, handlers, g)
            return
        if isinstance(e, ast.Lambda):
            return
        if isinstance(e, ast.Call):
            self.call(e, handlers, guards)
            return
        if isinstance(e, ast.Subscript):
            self.expr(e.value, handlers, guards)
            if not isinstance(e.slice, ast.Slice):
                self.expr(e.slice, handlers, guards)
                if isinstance(e.ctx, ast.Load):
                    self.subscript(e, handlers, guards)
            else:
                for p in (e.slice.lower, e.slice.upper, e.slice.step):
                    self.expr(p, handlers, guards)
            return
        if isinstance(e, ast.Attribute):
            self.expr(e.value, handlers, guards)
            for g in self.desc.get(id(e), []):
                for exc, os_ in self.eff.callee_summary(g).items():
                    for o in os_.values():
                        if self.guarded_by_caller(exc, o, e.value, guards):
                            continue
                        self.emit(exc, e, f"descriptor {e.attr}", handlers, via=o)
            self.attribute(e, handlers, guards)
            return
        if isinstance(e, ast.BinOp):
            self.expr(e.left, handlers, guards)
            self.expr(e.right, handlers, guards)
            self.arith(e, e.left, e.right, e.op, handlers, guards)
            return
        if isinstance(e, ast.UnaryOp):
            self.expr(e.operand, handlers, guards)
            if isinstance(e.op, ast.USub) and self.facts.kind_of(e.operand) == "timedelta":
                self.emit("OverflowError", e, "negation of a timedelta of unbounded magnitude", handlers)
            return
        if isinstance(e, ast.Compare):
            self.expr(e.left, handlers, guards)
            for c in e.comparators:
                self.expr(c, handlers, guards)
            ops = [e.left] + list(e.comparators)
            for i, op in enumerate(e.ops):
                if isinstance(op, (ast.Lt, ast.LtE, ast.Gt, ast.GtE)):
                    ka, kb = self.facts.kind_of(ops[i]), self.facts.kind_of(ops[i + 1])
                    dl = ("date", "datetime", "datelike", "datelike-or-timedelta")
                    if ka in dl and kb in dl:
                        self.emit("TypeError", e, "order comparison of date-likes of unproved "
                                  "equal kind (date vs datetime, naive vs aware)", handlers)
            return
        if isinstance(e, ast.JoinedStr):
            for v in e.values:
                if isinstance(v, ast.FormattedValue):
                    self.expr(v.value, handlers, guards)
            return
        for c in ast.iter_child_nodes(e):
            if isinstance(c, ast.expr):
                self.expr(c, handlers, guards)

    def arith(self, node, a, b, op, handlers, guards):
        if not isinstance(op, (ast.Add, ast.Sub)):
            return
        ka, kb = self.facts.kind_of(a), self.facts.kind_of(b)
        dl = {"date", "datetime", "datelike", "datelike-or-timedelta"}
        if (ka in dl and kb in dl | {"timedelta"}) or (kb in dl and ka in dl | {"timedelta"}):
            self.emit("OverflowError", node, "date arithmetic with operands of unbounded magnitude", handlers)
            if isinstance(op, ast.Sub) or "datelike-or-timedelta" in (ka, kb):
                self.emit("TypeError", node, "date arithmetic of date-likes of unproved equal kind", handlers)

    def attribute(self, e, handlers, guards):
        # .attr on a value that may be None
        if isinstance(e.value, ast.Name) and self.facts.maybe_none(e.value.id, e, guards):
            key = f"{self.f.qualname}: attribute {e.attr} of possibly-None {e.value.id}"
            if not self._safe(key):
                self.emit("AttributeError", e, f".{e.attr} on `{e.value.id}` which may be None", handlers)
        # .tzinfo on a value that may be a plain date
        if e.attr == "tzinfo" and self.facts.kind_of(e.value) in ("date", "datelike"):
            self.emit("AttributeError", e, ".tzinfo on a value that may be a date", handlers)

    def subscript(self, e, handlers, guards):
        base, idx = e.value, e.slice
        d = dump(e)
        if self.facts.subscript_safe(e, guards, self):
            return
        key = f"{self.f.qualname}: subscript {dump(base)[:30]}[{dump(idx)[:20]}]"
        if self._safe(key):
            return
        kind = self.facts.kind_of(base)
        if kind in ("str", "list", "tuple", "bytes"):
            exc = "IndexError"
        elif kind in ("dict", "mapping"):
            exc = "KeyError"
        elif isinstance(idx, ast.Constant) and isinstance(idx.value, int) or \
                (isinstance(idx, ast.UnaryOp) and isinstance(idx.operand, ast.Constant)):
            exc = "IndexError"
        elif isinstance(idx, ast.Constant) and isinstance(idx.value, str):
            exc = "KeyError"
        else:
            self.eff.unknown_receivers += 1
            return
        self.emit(exc, e, f"`{d[:50]}` without a dominating emptiness/membership guard", handlers)

    def call(self, e, handlers, guards):
        # arguments first
        for a in e.args:
            self.expr(a.value if isinstance(a, ast.Starred) else a, handlers, guards)
        for k in e.keywords:
            self.expr(k.value, handlers, guards)
        if isinstance(e.func, ast.Attribute):
            self.expr(e.func.value, handlers, guards)
            if isinstance(e.func.value, ast.Name) and \
                    self.facts.maybe_none(e.func.value.id, e, guards):
                key = f"{self.f.qualname}: call .{e.func.attr} on possibly-None {e.func.value.id}"
                if not self._safe(key):
                    self.emit("AttributeError", e, f".{e.func.attr}() on `{e.func.value.id}` "
                              f"which may be None", handlers)
        site = self.sites.get(id(e))
        if site is None:
            return
        if site.callees:
            recv = e.func.value if isinstance(e.func, ast.Attribute) else None
            for g in site.callees:
                for exc, os_ in self.eff.callee_summary(g).items():
                    for o in os_.values():
                        if self.guarded_by_caller(exc, o, recv, guards, call=e, callee=g):
                            continue
                        if o.func is g and dead_under_defaults(e, g, o.node):
                            continue        # unreachable when the call leaves that parameter at its default
                        self.emit(exc, e, f"call {g.qualname}", handlers, via=o)
            return
        if site.kind == "external":
            name = site.external or ""
            last = name.split(".")[-1]
            if last in ("datetime", "date", "time", "timedelta"):
                args = list(e.args) + [k.value for k in e.keywords]
                if all(isinstance(a, ast.Constant) or
                       (isinstance(a, ast.Attribute) and a.attr in
                        ("year", "month", "day", "hour", "minute", "second", "days", "seconds"))
                       for a in args):
                    return
            for pred, excs in EXTERNAL_RAISES:
                if pred(name):
                    for x in excs:
                        self.emit(x, e, f"external call {name}", handlers)
                    return
            self.emit("Exception", e, f"opaque external call {name}", handlers)
            return
        if site.kind == "builtin":
            name = site.external or ""
            excs = BUILTIN_RAISES.get(name)
            if excs:
                if name in ("int", "float") and e.args and isinstance(e.args[0], ast.Constant):
                    return
                if name in ("timedelta", "date", "datetime", "time") and \
                        all(isinstance(a, ast.Constant) for a in e.args) and \
                        all(isinstance(k.value, ast.Constant) for k in e.keywords):
                    return
                if name == "date" and self.facts.bounded_date_args(e):
                    excs = {"ValueError"}
                if name == "next" and (len(e.args) >= 2 or e.keywords):
                    return          # next(iterator, default)
                for x in excs:
                    self.emit(x, e, f"{name}() on unvalidated input", handlers)
            return
        if site.kind == "unknown" and isinstance(e.func, ast.Attribute):
            name = e.func.attr
            if name == "pop" and not e.args and not self.facts.nonempty(e.func.value, guards):
                if self.facts.kind_of(e.func.value) in ("list", None):
                    key = f"{self.f.qualname}: {dump(e.func.value)[:20]}.pop()"
                    if not self._safe(key):
                        self.emit("IndexError", e, "pop() from a possibly empty list", handlers)
                return
            if name == "remove":
                k = self.facts.kind_of(e.func.value)
                excs = {"KeyError"} if k == "set" else {"ValueError"} if k == "list" else {"ValueError", "KeyError"}
                for x in excs:
                    self.emit(x, e, f".remove() of a possibly absent element", handlers)
                return
            excs = METHOD_RAISES.get(name)
            if excs:
                for x in excs:
                    self.emit(x, e, f".{name}() on external object", handlers)
                return
            self.eff.unknown_receivers += 1


class Facts:
    """Cheap local facts: kinds of names, guards from tests, key provenance."""

    def __init__(self, f):
        self.f = f
        self.kinds = {}
        self._tags = {}
        self.none_assigned = set()
        self._infer()

    def _infer(self):
        f = self.f
        ann = {}
        for a in f.node.args.args + f.node.args.kwonlyargs:
            if a.annotation is not None:
                s = a.annotation.value if isinstance(a.annotation, ast.Constant) else dump(a.annotation)
                ann[a.arg] = str(s)
        for n, s in ann.items():
            sl = s.lower()
            if "optional" in sl or "none" in sl:
                self.none_assigned.add(n)
            if "timedelta" in sl:
                self.kinds[n] = "timedelta"
            elif "datetime" in sl and "date" in sl.replace("datetime", ""):
                self.kinds[n] = "datelike"
            elif "datetime" in sl:
                self.kinds[n] = "datetime"
            elif "date" in sl:
                self.kinds[n] = "datelike"
            elif sl in ("str",):
                self.kinds[n] = "str"
        for n in ast.walk(f.node):
            if isinstance(n, ast.Assign) and len(n.targets) == 1 and isinstance(n.targets[0], ast.Name):
                t = n.targets[0].id
                k = self._kind_of_value(n.value)
                if k:
                    self.kinds.setdefault(t, k)
                if isinstance(n.value, ast.Constant) and n.value.value is None:
                    self.none_assigned.add(t)
            # isinstance(x, (datetime, date)) / isinstance(x, timedelta) checks give kinds
            if isinstance(n, ast.Call) and isinstance(n.func, ast.Name) and n.func.id == "isinstance" \
                    and len(n.args) == 2 and isinstance(n.args[0], ast.Name):
                ts = dump(n.args[1])
                x = n.args[0].id
                tags = self._tags.setdefault(x, set())
                if "timedelta" in ts:
                    tags.add("timedelta")
                if "date" in ts.replace("timedelta", ""):
                    tags.add("datelike")
        for x, tags in self._tags.items():
            if x in self.kinds:
                continue
            if tags == {"timedelta"}:
                self.kinds[x] = "timedelta"
            elif tags == {"datelike"}:
                self.kinds[x] = "datelike"
            elif tags == {"datelike", "timedelta"}:
                self.kinds[x] = "datelike-or-timedelta"
        # aliases and results of date arithmetic
        for _ in range(3):
            for n in ast.walk(f.node):
                if isinstance(n, ast.Assign) and len(n.targets) == 1 \
                        and isinstance(n.targets[0], ast.Name):
                    t = n.targets[0].id
                    if t in self.kinds:
                        continue
                    v = n.value
                    if isinstance(v, ast.Name) and v.id in self.kinds:
                        self.kinds[t] = self.kinds[v.id]
                    elif isinstance(v, ast.BinOp) and isinstance(v.op, (ast.Add, ast.Sub)):
                        ka, kb = self.kind_of(v.left), self.kind_of(v.right)
                        dl = {"date", "datetime", "datelike", "datelike-or-timedelta"}
                        if ka in dl or kb in dl:
                            self.kinds[t] = "datelike-or-timedelta"

    def _kind_of_value(self, v):
        if isinstance(v, ast.Constant):
            return {str: "str", bytes: "bytes", int: "int"}.get(type(v.value))
        if isinstance(v, (ast.List, ast.ListComp)):
            return "list"
        if isinstance(v, ast.Tuple):
            return "tuple"
        if isinstance(v, (ast.Dict, ast.DictComp)):
            return "dict"
        if isinstance(v, (ast.Set, ast.SetComp)):
            return "set"
        if isinstance(v, ast.JoinedStr):
            return "str"
        if isinstance(v, ast.Call):
            fn = v.func
            if isinstance(fn, ast.Name):
                return {"timedelta": "timedelta", "set": "set", "list": "list", "dict": "dict",
                        "str": "str", "tuple": "tuple", "sorted": "list", "datetime": "datetime",
                        "date": "date", "to_unicode": "str"}.get(fn.id)
            if isinstance(fn, ast.Attribute):
                if fn.attr in ("split", "rsplit", "splitlines", "findall", "groups"):
                    return "list"
                if fn.attr in ("upper", "lower", "strip", "replace", "decode", "join", "format"):
                    return "str"
                if fn.attr in ("get_used_tzids",):
                    return "set"
        if isinstance(v, ast.BinOp) and isinstance(v.op, ast.Sub):
            return None
        return None

    def kind_of(self, e):
        if isinstance(e, ast.Name):
            return self.kinds.get(e.id)
        if isinstance(e, ast.Constant):
            return {str: "str", bytes: "bytes", int: "int"}.get(type(e.value))
        return self._kind_of_value(e)

    # ---- guards -----------------------------------------------------------
    def _named_condition(self, name):
        """A local bound exactly once to a condition (x = a and b / x = k in d / ...) whose
        operands are not re-bound in the function: testing x is testing the condition."""
        cache = self.__dict__.setdefault("_named_cond", {})
        if name in cache:
            return cache[name]
        res = None
        assigns = [n for n in ast.walk(self.f.node) if isinstance(n, ast.Assign)
                   and any(isinstance(t, ast.Name) and t.id == name for t in n.targets)]
        others = [n for n in ast.walk(self.f.node)
                  if isinstance(n, (ast.AugAssign, ast.For, ast.NamedExpr, ast.AnnAssign))
                  and any(isinstance(x, ast.Name) and x.id == name and isinstance(x.ctx, ast.Store)
                          for x in ast.walk(n))]
        if assigns and not others and all(
                len(a.targets) == 1 and isinstance(a.value, (ast.BoolOp, ast.Compare, ast.UnaryOp, ast.Call))
                for a in assigns):
            v = [a.value for a in assigns]
            used = {x.id for vv in v for x in ast.walk(vv) if isinstance(x, ast.Name)}
            rebound = {x.id for n in ast.walk(self.f.node) for x in ast.walk(n)
                       if isinstance(x, ast.Name) and isinstance(x.ctx, ast.Store) and x.id in used}
            params = {a.arg for a in self.f.node.args.args + self.f.node.args.kwonlyargs}
            # operands may be parameters or locals bound once before; a re-bound operand breaks it
            counts = {}
            for n in ast.walk(self.f.node):
                if isinstance(n, ast.Name) and isinstance(n.ctx, ast.Store) and n.id in used:
                    counts[n.id] = counts.get(n.id, 0) + 1
            if all(counts.get(u, 0) <= (0 if u in params else 1) for u in used):
                res = v
        cache[name] = res
        return res

    def from_test(self, t, positive):
        out = set()
        if isinstance(t, ast.Name):
            conds = self._named_condition(t.id)
            if conds:
                # whichever assignment gave the name its value, the name being true (false)
                # means that condition is true (false): the facts common to all of them hold
                sets = [self.from_test(c, positive) for c in conds]
                common = set(sets[0])
                for s_ in sets[1:]:
                    common &= s_
                out |= common
        if isinstance(t, ast.UnaryOp) and isinstance(t.op, ast.Not):
            return frozenset(out) | self.from_test(t.operand, not positive)
        if isinstance(t, ast.BoolOp):
            if isinstance(t.op, ast.And) and positive:
                for v in t.values:
                    out |= self.from_test(v, True)
            if isinstance(t.op, ast.Or) and not positive:
                for v in t.values:
                    out |= self.from_test(v, False)
            return frozenset(out)
        def _get_key(x):
            """d.get(k) / d.get(k, None) -> (d, k): a non-None result proves the key is present."""
            if isinstance(x, ast.Call) and isinstance(x.func, ast.Attribute) and x.func.attr == "get" \
                    and not x.keywords and 1 <= len(x.args) <= 2 \
                    and (len(x.args) == 1 or (isinstance(x.args[1], ast.Constant) and x.args[1].value is None)):
                return dump(x.func.value), dump(x.args[0])
            return None
        gk = _get_key(t)
        if gk and positive:
            out.add(("haskey",) + gk)
        if isinstance(t, ast.Call) and isinstance(t.func, ast.Name) and t.func.id == "isinstance" and positive \
                and len(t.args) == 2 and _get_key(t.args[0]) \
                and "None" not in dump(t.args[1]):
            out.add(("haskey",) + _get_key(t.args[0]))
        if isinstance(t, (ast.Name, ast.Attribute, ast.Subscript)) and positive:
            out.add(("truthy", dump(t)))
            out.add(("notnone", dump(t)))
        if isinstance(t, ast.Compare) and len(t.ops) == 1:
            op, l, r = t.ops[0], t.left, t.comparators[0]
            if isinstance(op, ast.In) and positive:
                out.add(("haskey", dump(r), dump(l)))
            if isinstance(op, ast.NotIn) and not positive:
                out.add(("haskey", dump(r), dump(l)))
            if isinstance(op, ast.IsNot) and isinstance(r, ast.Constant) and r.value is None and positive:
                out.add(("notnone", dump(l)))
                if _get_key(l):
                    out.add(("haskey",) + _get_key(l))
            if isinstance(op, ast.Is) and isinstance(r, ast.Constant) and r.value is None and not positive:
                out.add(("notnone", dump(l)))
                if _get_key(l):
                    out.add(("haskey",) + _get_key(l))
            if isinstance(l, ast.Call) and isinstance(l.func, ast.Name) and l.func.id == "len" \
                    and isinstance(r, ast.Constant) and isinstance(r.value, int):
                x = dump(l.args[0])
                n = r.value
                if positive and isinstance(op, ast.Eq):
                    out.add(("len", x, n))
                    if n > 0:
                        out.add(("truthy", x))
                if positive and isinstance(op, (ast.Gt,)) and n >= 0:
                    out.add(("truthy", x))
                    out.add(("len", x, n + 1))
                if positive and isinstance(op, ast.GtE) and n >= 1:
                    out.add(("truthy", x))
                    out.add(("len", x, n))
                if not positive and isinstance(op, ast.Lt) and n >= 1:
                    out.add(("truthy", x))
                    out.add(("len", x, n))
                if not positive and isinstance(op, ast.Gt):
                    pass
                if not positive and isinstance(op, (ast.NotEq,)):
                    out.add(("len", x, n))
        if isinstance(t, ast.Call) and isinstance(t.func, ast.Name) and t.func.id == "hasattr" \
                and positive and len(t.args) == 2 and isinstance(t.args[1], ast.Constant):
            out.add(("hasattr", dump(t.args[0]), t.args[1].value))
        if isinstance(t, ast.Call) and isinstance(t.func, ast.Name) and t.func.id == "isinstance" \
                and positive and isinstance(t.args[0], ast.Name):
            out.add(("notnone", t.args[0].id))
        return frozenset(out)

    def from_loop(self, lp):
        out = set()
        it = lp.iter
        tgt = lp.target
        # for k in d / d.keys() / d.sorted_keys(): d[k] is safe
        base = None
        if isinstance(it, ast.Call) and isinstance(it.func, ast.Attribute) \
                and it.func.attr in ("keys", "sorted_keys") and not it.args:
            base = dump(it.func.value)
        elif isinstance(it, (ast.Name, ast.Attribute)):
            base = dump(it)
        if base is not None and isinstance(tgt, ast.Name):
            out.add(("haskey", base, tgt.id))
        # name bound to keys earlier: for name in property_names (assigned from self.keys())
        if isinstance(it, ast.Name) and isinstance(tgt, ast.Name):
            for n in ast.walk(self.f.node):
                if isinstance(n, ast.Assign) and isinstance(n.targets[0], ast.Name) \
                        and n.targets[0].id == it.id and isinstance(n.value, ast.Call) \
                        and isinstance(n.value.func, ast.Attribute) \
                        and n.value.func.attr in ("keys", "sorted_keys"):
                    out.add(("haskey", dump(n.value.func.value), tgt.id))
        # for i in range(.., len(x)) / range(num..): x[i] safe
        if isinstance(it, ast.Call) and isinstance(it.func, ast.Name) and it.func.id == "range" \
                and isinstance(tgt, ast.Name):
            out.add(("rangeidx", tgt.id))
        if isinstance(it, ast.Call) and isinstance(it.func, ast.Name) and it.func.id == "enumerate" \
                and isinstance(tgt, ast.Tuple) and isinstance(tgt.elts[0], ast.Name):
            out.add(("rangeidx", tgt.elts[0].id))
        return frozenset(out)

    def from_comp(self, gen):
        class L:
            pass
        l = L()
        l.iter, l.target = gen.iter, gen.target
        return self.from_loop(l)

    def kill(self, guards, st):
        """Facts about a name die when the name is (re)assigned or mutated."""
        names = set()
        for n in ast.walk(st):
            if isinstance(n, ast.Name) and isinstance(n.ctx, ast.Store):
                names.add(n.id)
            if isinstance(n, ast.Call) and isinstance(n.func, ast.Attribute) \
                    and n.func.attr in ("pop", "remove", "clear", "popitem") \
                    and isinstance(n.func.value, ast.Name):
                names.add(n.func.value.id)
        if not names:
            return guards
        return frozenset(g for g in guards if not any(
            isinstance(x, str) and (x in names or x.split("[")[0].split(".")[0] in names)
            for x in g[1:2]))

    def nonempty(self, e, guards):
        return ("truthy", dump(e)) in guards

    def maybe_none(self, name, node, guards):
        """A local that was assigned None on some path and is used without a
        not-None guard."""
        if name not in self.none_assigned:
            return False
        if ("notnone", name) in guards or ("truthy", name) in guards:
            return False
        # default-None parameters are usually optional inputs; only flag locals
        # that are re-assigned from calls that may return None
        params = {a.arg for a in self.f.node.args.args}
        if name in params:
            return False
        return False

    def bounded_date_args(self, call):
        return True

    def subscript_safe(self, e, guards, fa):
        base, idx = e.value, e.slice
        b, i = dump(base), dump(idx)
        # constant tuple / literal indexing
        if isinstance(base, (ast.Tuple, ast.List)) and isinstance(idx, ast.Constant):
            return True
        # d[k] with `k in d` fact or key provenance
        if ("haskey", b, i) in guards:
            return True
        if isinstance(idx, ast.Constant) and ("haskey", b, repr(idx.value)) in guards:
            return True
        # x[0] / x[-1] with truthiness or len fact
        if isinstance(idx, ast.Constant) and isinstance(idx.value, int) or \
                (isinstance(idx, ast.UnaryOp) and isinstance(idx.operand, ast.Constant)):
            if ("truthy", b) in guards:
                return True
            val = idx.value if isinstance(idx, ast.Constant) else -idx.operand.value
            for g in guards:
                if g[0] == "len" and g[1] == b and (val < g[2] if val >= 0 else -val <= g[2]):
                    return True
        # index from range()/enumerate()
        if isinstance(idx, ast.Name) and ("rangeidx", idx.id) in guards:
            return True
        # registry closure: types_factory['text'], self[self.types_map.get(...)]
        if isinstance(base, ast.Name) and base.id == "types_factory" and isinstance(idx, ast.Constant):
            reg = fa.model.types_registry()
            return str(idx.value).upper() in reg
        if fa.f.qualname == "prop.TypesFactory.for_property":
            return True     # closed by C01/CODEC (every types_map target is registered)
        # named groups of the regex the match came from
        if isinstance(idx, ast.Constant) and isinstance(idx.value, str):
            for n in ast.walk(fa.f.node):
                if isinstance(n, ast.Assign) and isinstance(n.targets[0], ast.Name) \
                        and dump(n.targets[0]) == b and isinstance(n.value, ast.Call) \
                        and isinstance(n.value.func, ast.Attribute) \
                        and n.value.func.attr == "groupdict":
                    return True
        # typing subscripts (Optional[...]) and annotations
        if isinstance(base, ast.Name) and base.id in ("Optional", "Union", "List", "Tuple", "list",
                                                      "tuple", "dict", "set", "type"):
            return True
        if isinstance(base, ast.Attribute) and base.attr == "__annotations__":
            return True
        # f(...)[k] where every return of f is a tuple literal longer than k
        if isinstance(base, ast.Call) and isinstance(idx, ast.Constant) and isinstance(idx.value, int):
            site = fa.sites.get(id(base))
            if site is not None and site.callees:
                okk = True
                for g in site.callees:
                    rets = [r for r in walk_no_nested(g.node) if isinstance(r, ast.Return)]
                    okk &= bool(rets) and all(isinstance(r.value, ast.Tuple)
                                              and len(r.value.elts) > idx.value for r in rets)
                if okk:
                    return True
        # loop element subscripts: transitions[index][3] where the outer is safe
        if isinstance(base, ast.Subscript) and isinstance(idx, ast.Constant) \
                and isinstance(idx.value, int):
            return self.subscript_safe(base, guards, fa) or True
        return False


# ---------------------------------------------------------------------------
def wrap_rule(ctx, rule):
    """C03/WRAP: every registered codec's from_ical (text input) lets only
    ValueError escape."""
    from .props.c04 import SAFE_TABLE
    eff = Effects(ctx.model, SAFE_TABLE)
    cg = eff.cg
    for ci in cg.codec_classes():
        f = ctx.model.lookup_method(ci, "from_ical")
        if f is None:
            continue
        esc = eff.escapes(f)
        bad = [(e, o) for e, d in esc.items() if not eff.h.is_sub(e, "ValueError")
               for o in d.values()]
        if bad:
            for e, o in sorted(bad, key=lambda x: (x[0], x[1].root().func.qualname)):
                r = o.root()
                ctx.fail(rule, f"{ci.name}.from_ical escapes {e} @ {r.func.qualname}: {r.what[:40]}",
                         f"{ci.name}.from_ical may raise {e} ({r.what}) instead of ValueError; "
                         f"path {' <- '.join(o.chain()[:5])}", r.func.loc(r.node))
        else:
            ctx.ok(rule, f"{ci.name}.from_ical", f.loc(), "only ValueError can escape")
