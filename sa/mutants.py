"""Both-ways corpus.  Each entry: property, edits [(file rel. to src/icalendar,
old text, new text[, expected count])], expect = rule-id prefix that must fire
or "silent" for refactor twins.  An edit whose anchor text no longer occurs in
the analysed tree is skipped and counted (the tree moved on)."""

MUTANTS = {}


def M(mid, prop, expect, *edits, note=""):
    assert mid not in MUTANTS, mid
    MUTANTS[mid] = {"prop": prop, "expect": expect, "edits": list(edits),
                    "note": note}


P, C, K, PR, A = "parser.py", "cal.py", "caselessdict.py", "prop.py", "alarms.py"

# ---------------------------------------------------------------- C06
M("c06-limit-off-by-one", "C06", "C06/BOUND-ASCII",
  (P, "line[i:i + limit - 1] for i in range(0, len(line), limit - 1)",
      "line[i:i + limit] for i in range(0, len(line), limit)"))
M("c06-width-ne-stride", "C06", "C06/BOUND-ASCII",
  (P, "line[i:i + limit - 1] for i in range(0, len(line), limit - 1)",
      "line[i:i + limit - 2] for i in range(0, len(line), limit - 1)"))
M("c06-ge-to-gt", "C06", "C06/BOUND-UTF8",
  (P, "if byte_count >= limit:", "if byte_count > limit:"))
M("c06-counter-reset-zero", "C06", "C06/BOUND-UTF8",
  (P, "            byte_count = char_byte_len\n", "            byte_count = 0\n"))
M("c06-sep-two-spaces", "C06", "C06/",
  (P, "def foldline(line, limit=75, fold_sep='\\r\\n '):",
      "def foldline(line, limit=75, fold_sep='\\r\\n  '):"))
M("c06-ufold-star", "C06", "C06/UNFOLD",
  (P, "uFOLD = re.compile('(\\r?\\n)+[ \\t]')", "uFOLD = re.compile('(\\r?\\n)+[ \\t]*')"))
M("c06-ufold-plus", "C06", "C06/UNFOLD",
  (P, "uFOLD = re.compile('(\\r?\\n)+[ \\t]')", "uFOLD = re.compile('(\\r?\\n)+[ \\t]+')"))
M("c06-encode-before-fold", "C06", "C06/PHYS-MODEL",
  (P, "return foldline(self).encode(DEFAULT_ENCODING)",
      "return foldline(self.encode(DEFAULT_ENCODING).decode('latin-1')).encode('latin-1')"))
M("c06-char-dropped-on-fold", "C06", "C06/WHOLE-CHARS",
  (P, "            byte_count = char_byte_len\n        ret_chars.append(char)",
      "            byte_count = char_byte_len\n            continue\n        ret_chars.append(char)"))
M("c06-join-lf-only", "C06", "C06/PHYS-MODEL",
  (P, "return b'\\r\\n'.join(line.to_ical() for line in self if line) + b'\\r\\n'",
      "return b'\\n'.join(line.to_ical() for line in self if line) + b'\\r\\n'"))
M("c06-twin-rename-locals", "C06", "silent",
  (P, "byte_count", "octets", 4), (P, "char_byte_len", "width", 3))
M("c06-twin-width-hoisted", "C06", "silent",
  (P, "line[i:i + limit - 1] for i in range(0, len(line), limit - 1)",
      "line[i:i - 1 + limit] for i in range(0, len(line), -1 + limit)"))

# ---------------------------------------------------------------- C09
M("c09-revert-freebusy", "C09", "C09/CASE-TAINT",
  (C, "if uname == 'FREEBUSY':", "if name == 'FREEBUSY':"))
M("c09-revert-datetime-names", "C09", "C09/CASE-TAINT",
  (C, "elif uname in datetime_names and 'TZID' in params:",
      "elif name in datetime_names and 'TZID' in params:"))
M("c09-revert-vtimezone", "C09", "C09/CASE-TAINT",
  (C, "if vals.upper() == 'VTIMEZONE' and 'TZID' in component:",
      "if vals == 'VTIMEZONE' and 'TZID' in component:"))
M("c09-begin-raw", "C09", "C09/CASE-TAINT",
  (C, "if uname == 'BEGIN':", "if name == 'BEGIN':"))
M("c09-cname-raw", "C09", "C09/CASE-MODEL",
  (C, "c_name = vals.upper()", "c_name = vals"))
M("c09-newline-crlf-only", "C09", "C09/EOL-FOLD",
  (P, "NEWLINE = re.compile(r'\\r?\\n')", "NEWLINE = re.compile(r'\\r\\n')"))
M("c09-split-before-unfold", "C09", "C09/PHYS-MODEL",
  (P, "line in NEWLINE.split(unfolded) if line)", "line in NEWLINE.split(st) if line)"))
M("c09-codec-utf8", "C09", "C09/PHYS-MODEL",
  ("parser_tools.py", "def to_unicode(value: ICAL_TYPE, encoding='utf-8-sig') -> str:",
   "def to_unicode(value: ICAL_TYPE, encoding='utf-8') -> str:"))
M("c09-blank-lines-kept", "C09", "C09/PHYS-MODEL",
  (P, "line in NEWLINE.split(unfolded) if line)", "line in NEWLINE.split(unfolded))"))
M("c09-add-raw-compare", "C09", "C09/CASE-TAINT",
  (C, "name.lower() in ('dtstamp', 'created', 'last-modified', 'acknowledged')",
      "name in ('dtstamp', 'created', 'last-modified', 'acknowledged')"))
M("c09-twin-rename-uname", "C09", "silent", (C, "uname", "upper_name", 7))

# ---------------------------------------------------------------- C17
M("c17-getitem-no-upper", "C17", "C17/MAP-MODEL",
  (K, "return super().__getitem__(key.upper())", "return super().__getitem__(key)"))
M("c17-contains-no-upper", "C17", "C17/MAP-MODEL",
  (K, "        key = to_unicode(key)\n        return super().__contains__(key.upper())\n\n    def get",
      "        key = to_unicode(key)\n        return super().__contains__(key)\n\n    def get"))
# equivalent under CPython (OrderedDict.setdefault/update/copy go through the overridden dunders / __class__;
# confirmed by running both versions): the former shape rule C17/OVERRIDES fired on it
M("c17-setdefault-no-unicode", "C17", "silent",
  (K, "        key = to_unicode(key)\n        return super().setdefault(key.upper(), value)",
      "        return super().setdefault(key.upper(), value)"))
M("c17-delete-get-override", "C17", "C17/MAP-MODEL",
  (K, "    def get(self, key, default=None):\n        key = to_unicode(key)\n        return super().get(key.upper(), default)\n\n", ""))
# equivalent under CPython (OrderedDict.setdefault/update/copy go through the overridden dunders / __class__;
# confirmed by running both versions): the former shape rule C17/OVERRIDES fired on it
M("c17-update-bypass", "C17", "silent",
  (K, "            for key, value in mapping:\n                self[key] = value",
      "            super().update(mapping)"))
# equivalent under CPython (OrderedDict.setdefault/update/copy go through the overridden dunders / __class__;
# confirmed by running both versions): the former shape rule C17/OVERRIDES fired on it
M("c17-copy-plain-dict", "C17", "silent",
  (K, "return type(self)(super().copy())", "return super().copy()"))
M("c17-parameters-get-bypass", "C17", "C17/MAP-MODEL",
  (P, "    def params(self):", "    def get(self, key, default=None):\n        return dict.get(self, key, default)\n\n    def params(self):"))
M("c17-eq-unfolded-other", "C17", "C17/MAP-MODEL",
  (K, "dict(CaselessDict(other).items())", "dict(other.items())"))
M("c17-canon-tail-unsorted", "C17", "C17/MAP-MODEL",
  (K, "+ sorted(tail)", "+ tail"))
M("c17-canon-head-reverse", "C17", "C17/MAP-MODEL",
  (K, "sorted(head, key=lambda k: canonical_map[k])", "sorted(head, key=lambda k: canonical_map[k], reverse=True)"))
M("c17-canon-lowercase-order", "C17", "C17/CANON",
  (C, "canonical_order = ('TZID',)", "canonical_order = ('tzid',)"))
M("c17-twin-rename-key", "C17", "silent",
  (K, "    def __getitem__(self, key):\n        key = to_unicode(key)\n        return super().__getitem__(key.upper())",
      "    def __getitem__(self, name):\n        folded = to_unicode(name).upper()\n        return super().__getitem__(folded)"))

# ---------------------------------------------------------------- C19
M("c19-freq-last", "C19", "C19/ORDER",
  (PR, 'canonical_order = ("RSCALE", "FREQ", "UNTIL",', 'canonical_order = ("RSCALE", "UNTIL",'),
  (PR, '"BYSETPOS", "WKST", "SKIP")', '"BYSETPOS", "WKST", "SKIP", "FREQ")'))
M("c19-bymonth-vint", "C19", "C19/TYPES", (PR, "'BYMONTH': vMonth,", "'BYMONTH': vInt,"))
M("c19-until-vint", "C19", "C19/TYPES", (PR, "'UNTIL': vDDDTypes,", "'UNTIL': vText,"))
M("c19-join-semicolon", "C19", "C19/RECUR-MODEL",
  (PR, "vals = b','.join(from_unicode(typ(val).to_ical()) for val in vals)",
       "vals = b';'.join(from_unicode(typ(val).to_ical()) for val in vals)"))
M("c19-reader-default-differs", "C19", "C19/RECUR-MODEL",
  (PR, "parser = cls.types.get(key, vText)", "parser = cls.types.get(key, vInt)"))
M("c19-insertion-order", "C19", "C19/RECUR-MODEL",
  (PR, "for key, vals in self.sorted_items():", "for key, vals in self.items():"))
M("c19-weekday-no-sign", "C19", "C19/GRAMMAR",
  (PR, "(?P<signal>[+-]?)", "(?P<signal>[-]?)"))
M("c19-weekday-one-digit", "C19", "C19/GRAMMAR",
  (PR, "(?P<relative>[\\d]{0,2})", "(?P<relative>[\\d]{0,1})"))
M("c19-month-int-format", "C19", "C19/RECUR-MODEL",
  (PR, '        """The ical representation."""\n        return str(self).encode(\'utf-8\')',
       '        """The ical representation."""\n        return b"%d" % int(self)'))
M("c19-drop-byweekno-from-order", "C19", "C19/ORDER",
  (PR, '"BYMONTHDAY", "BYYEARDAY", "BYWEEKNO", "BYMONTH",', '"BYMONTHDAY", "BYYEARDAY", "BYMONTH",'))

# ---------------------------------------------------------------- C20
M("c20-postorder", "C20", "C20/WALK",
  (C, "        result = []\n        if (name is None or self.name == name) and select(self):\n            result.append(self)\n        for subcomponent in self.subcomponents:\n            result += subcomponent._walk(name, select)\n        return result",
      "        result = []\n        for subcomponent in self.subcomponents:\n            result += subcomponent._walk(name, select)\n        if (name is None or self.name == name) and select(self):\n            result.append(self)\n        return result"))
M("c20-skip-first-sub", "C20", "C20/WALK",
  (C, "        for subcomponent in self.subcomponents:\n            result += subcomponent._walk(name, select)",
      "        for subcomponent in self.subcomponents[1:]:\n            result += subcomponent._walk(name, select)"))
M("c20-select-not-passed", "C20", "C20/WALK",
  (C, "result += subcomponent._walk(name, select)", "result += subcomponent._walk(name, lambda c: True)"))
M("c20-walk-no-upper", "C20", "C20/WALK",
  (C, "        if name is not None:\n            name = name.upper()\n        return self._walk(name, select)",
      "        return self._walk(name, select)"))
M("c20-events-wrong-literal", "C20", "C20/WALK",
  (C, 'return self.walk("VEVENT")', 'return self.walk("VTODO")'))
M("c20-component-eq-unguarded", "C20", "C20/EQ-TOTAL",
  (C, "        if not isinstance(other, Component):\n            return False\n", ""))
M("c20-vgeo-eq-unguarded", "C20", "C20/EQ-TOTAL",
  (PR, "        if not isinstance(other, vGeo):\n            return False\n", ""))
M("c20-utcoffset-eq-unguarded", "C20", "C20/EQ-TOTAL",
  (PR, "        if not isinstance(other, vUTCOffset):\n            return False\n        return self.td == other.td",
       "        return self.td == other.td"))
M("c20-eq-ignores-subcomponents", "C20", "C20/EQ-LAWS",
  (C, "        for subcomponent in self.subcomponents:\n            if subcomponent not in unmatched:\n                return False\n            unmatched.remove(subcomponent)\n\n        return True",
      "        return True"),
  (C, "        if len(self.subcomponents) != len(other.subcomponents):\n            return False\n", ""))
M("c20-unregister-pickle", "C20", "C20/PICKLE",
  ("timezone/zoneinfo.py", "copyreg.pickle(rrule, pickle_rrule_with_cache)", "pass"))
M("c20-twin-extend", "C20", "silent",
  (C, "result += subcomponent._walk(name, select)", "result.extend(subcomponent._walk(name, select))"))

# ---------------------------------------------------------------- C07
M("c07-escape-swap-backslash-semicolon", "C07", "C07/FST",
  (P, "               .replace('\\\\', '\\\\\\\\')\\\n               .replace(';', r'\;')\\\n",
      "               .replace(';', r'\;')\\\n               .replace('\\\\', '\\\\\\\\')\\\n"))
M("c07-escape-drop-comma", "C07", "C07/FST",
  (P, "               .replace(',', r'\\,')\\\n", ""))
M("c07-escape-drop-lf", "C07", "C07/FST-RANGE",
  (P, "               .replace('\\r\\n', r'\\n')\\\n               .replace('\\n', r'\\n')",
      "               .replace('\\r\\n', r'\\n')"))
M("c07-unescape-swap-last-two", "C07", "C07/FST",
  (P, "                   .replace('\\\;', ';')\\\n                   .replace('\\\\\\\\', '\\\\')\n    elif",
      "                   .replace('\\\\\\\\', '\\\\')\\\n                   .replace('\\\;', ';')\n    elif"))
M("c07-unescape-bytes-differs", "C07", "C07/FST-CODEC",
  (P, "                   .replace(b'\\\\,', b',')\\\n", ""))
M("c07-placeholder-collision", "C07", "C07/FST",
  (P, ".replace(r'\;', '%3B').replace(r'\\\\', '%5C')", ".replace(r'\;', '%3B').replace(r'\\\\', '%3A')"))
M("c07-unescape-string-drop", "C07", "C07/FST",
  (P, "    return val.replace('%2C', ',').replace('%3A', ':')\\\n              .replace('%3B', ';').replace('%5C', '\\\\')",
      "    return val.replace('%2C', ',').replace('%3A', ':')\\\n              .replace('%3B', ';')"))
M("c07-category-join-semicolon", "C07", "C07/FST-LIST",
  (PR, '        return b",".join([c.to_ical() for c in self.cats])', '        return b";".join([c.to_ical() for c in self.cats])'))
M("c07-category-items-raw", "C07", "C07/FST-LIST",
  (PR, "        self.cats = [vText(c) for c in c_list]", "        self.cats = [vUri(c) for c in c_list]"))
M("c07-vtext-no-unescape", "C07", "C07/",
  (PR, "        ical_unesc = unescape_char(ical)\n        return cls(ical_unesc)", "        return cls(ical)"))
M("c07-twin-rename", "C07", "silent",
  (PR, "        ical_unesc = unescape_char(ical)\n        return cls(ical_unesc)", "        return cls(unescape_char(ical))"))

# ---------------------------------------------------------------- C08
M("c08-quotable-no-colon", "C08", "C08/QUOTE",
  (P, 'QUOTABLE = re.compile("[,;: ’\']")', 'QUOTABLE = re.compile("[,; ’\']")'))
M("c08-quotable-no-semicolon", "C08", "C08/QUOTE",
  (P, 'QUOTABLE = re.compile("[,;: ’\']")', 'QUOTABLE = re.compile("[,: ’\']")'))
M("c08-qjoin-plain-join", "C08", "C08/PARAM-MODEL",
  (P, "return sep.join(dquote(itm) for itm in lst)", "return sep.join(itm for itm in lst)"))
M("c08-dquote-keeps-dquote", "C08", "C08/PARAM-MODEL",
  (P, "    val = val.replace('\"', \"'\")\n", ""))
M("c08-reader-str-split", "C08", "C08/PARAM-MODEL",
  (P, "for v in q_split(val, ','):", "for v in val.split(','):"))
M("c08-reader-semicolon-values", "C08", "C08/PARAM-MODEL",
  (P, "for v in q_split(val, ','):", "for v in q_split(val, ';'):"))
# equivalent mutant: CaselessDict keys are upper-case already (C17), so key.upper() in
# Parameters.to_ical is redundant; the former shape rule C08/CASE fired on it (false alarm)
M("c08-writer-no-upper", "C08", "silent",
  (P, "key = key.upper().encode(DEFAULT_ENCODING)", "key = key.encode(DEFAULT_ENCODING)"))
M("c08-arity-first-only", "C08", "C08/PARAM-MODEL",
  (P, "                    if len(vals) == 1:\n                        result[key] = vals[0]\n                    else:\n                        result[key] = vals",
      "                    result[key] = vals[0]"))
M("c08-strict-drops-unquoted", "C08", "C08/PARAM-MODEL",
  (P, "                        if strict:\n                            vals.append(v.upper())\n                        else:\n                            vals.append(v)",
      "                        if strict:\n                            vals.append(v.upper())"))
M("c08-param-value-raw-str", "C08", "C08/PARAM-MODEL",
  (P, "    elif isinstance(value, str):\n        return dquote(value)", "    elif isinstance(value, str):\n        return value"))
M("c08-writer-colon-kv", "C08", "C08/PARAM-MODEL",
  (P, "result.append(key + b'=' + value)", "result.append(key + b':' + value)"))
M("c08-twin-rename", "C08", "silent",
  (P, "def dquote(val):", "def dquote(val, _unused=None):"))

# ---------------------------------------------------------------- C05
M("c05-second-construction-path", "C05", "C05/LF-GATE",
  (P, "    @classmethod\n    def from_parts(cls, name, params, values, sorted=True):",
      "    @classmethod\n    def _raw(cls, value):\n        return str.__new__(Contentline, value)\n\n    @classmethod\n    def from_parts(cls, name, params, values, sorted=True):"))
M("c05-gate-removed", "C05", "C05/LINE-MODEL",
  (P, "        assert '\\n' not in value, ('Content line can not contain unescaped '\n                                   'new line characters.')\n", ""))
M("c05-gate-after-construction", "C05", "C05/LINE-MODEL",
  (P, "        assert '\\n' not in value, ('Content line can not contain unescaped '\n                                   'new line characters.')\n        self = super().__new__(cls, value)\n",
      "        self = super().__new__(cls, value)\n        assert '\\n' not in self.strip(), ('Content line can not contain unescaped '\n                                   'new line characters.')\n"))
M("c05-from-parts-comma", "C05", "C05/LINE-MODEL",
  (P, "return cls(f'{name};{params}:{values}')", "return cls(f'{name},{params}:{values}')"))
M("c05-scanner-last-colon", "C05", "C05/LINE-MODEL",
  (P, "if ch == ':' and not value_split:", "if ch == ':':"))
M("c05-scanner-ignores-quotes", "C05", "C05/LINE-MODEL",
  (P, "                if not in_quotes:\n                    if ch in ':;' and not name_split:",
      "                if True:\n                    if ch in ':;' and not name_split:"))
M("c05-value-slice-off-by-one", "C05", "C05/LINE-MODEL",
  (P, "values = unescape_string(st[value_split + 1:])", "values = unescape_string(st[value_split:])"))
M("c05-quotable-no-colon", "C05", "C05/PARAM-MODEL",
  (P, 'QUOTABLE = re.compile("[,;: ’\']")', 'QUOTABLE = re.compile("[,; ’\']")'))
M("c05-dquote-keeps-quote", "C05", "C05/PARAM-MODEL",
  (P, "    val = val.replace('\"', \"'\")\n", ""))
# leniency only (the reader accepts more): no property requires rejection, so silence is right
M("c05-no-token-check", "C05", "silent",
  (P, "            validate_token(name)\n            if not value_split:", "            if not value_split:"))
# leniency only (the reader accepts more): no property requires rejection, so silence is right
M("c05-param-name-unvalidated", "C05", "silent",
  (P, "                validate_token(key)\n", ""))
M("c05-name-allows-colon", "C05", "C05/TOKEN",
  (P, "NAME = re.compile(r'[\\w.-]+')", "NAME = re.compile(r'[\\w.:-]+')"))
M("c05-unsafe-allows-semicolon", "C05", "C05/NEUTRALISE",
  (P, "UNSAFE_CHAR = re.compile('[\\x00-\\x08\\x0a-\\x1f\\x7F\",:;]')", "UNSAFE_CHAR = re.compile('[\\x00-\\x08\\x0a-\\x1f\\x7F\",:]')"))
M("c05-twin-if-raise-gate", "C05", "silent",
  (P, "        assert '\\n' not in value, ('Content line can not contain unescaped '\n                                   'new line characters.')\n",
      "        if not ('\\n' not in value):\n            raise ValueError('Content line can not contain unescaped new line characters.')\n"))

# ---------------------------------------------------------------- C01
M("c01-params-not-attached", "C01", "C01/PARSE-MODEL",
  (C, "                        parsed_component.params = params\n", ""))
M("c01-add-first-only", "C01", "C01/PARSE-MODEL",
  (C, "                    for parsed_component in parsed_components:\n                        parsed_component.params = params\n                        component.add(name, parsed_component, encode=0)",
      "                    for parsed_component in parsed_components[:1]:\n                        parsed_component.params = params\n                        component.add(name, parsed_component, encode=0)"))
M("c01-content-line-drops-params", "C01", "C01/EMIT-MODEL",
  (C, "        params = getattr(value, 'params', Parameters())\n        return Contentline.from_parts(name, params, value, sorted=sorted)",
      "        params = Parameters()\n        return Contentline.from_parts(name, params, value, sorted=sorted)"))
M("c01-attach-to-root", "C01", "C01/PARSE-MODEL",
  (C, "                    stack[-1].add_component(component)", "                    stack[0].add_component(component)"))
M("c01-end-no-guard", "C04", "C04/LENIENT",
  (C, "                if not stack:\n                    # The stack is currently empty, the input must be invalid\n                    raise ValueError('END encountered without an accompanying BEGIN!')\n", ""))
M("c01-nested-dropped", "C01", "C01/PARSE-MODEL",
  (C, "                if not stack:  # we are at the end\n                    comps.append(component)\n                else:\n                    stack[-1].add_component(component)",
      "                if not stack:  # we are at the end\n                    comps.append(component)"))
M("c01-unknown-name-lost", "C01", "C01/PARSE-MODEL",
  (C, "                if not getattr(component, 'name', ''):  # undefined components\n                    component.name = c_name\n", ""))
M("c01-registry-name-mismatch", "C01", "C01/NAME",
  (C, "        self['VJOURNAL'] = Journal", "        self['VJOURNAL'] = Todo"))
M("c01-types-map-typo", "C01", "C01/CODEC",
  (PR, "        'tzurl': 'uri',", "        'tzurl': 'url',"))
M("c01-codec-missing-from-ical", "C01", "C01/CODEC",
  (PR, "    @classmethod\n    def from_ical(cls, ical):\n        return cls(ical)\n\n\nclass TypesFactory", "\n\nclass TypesFactory"))
M("c01-unescape-N-late", "C01", "C01/TEXT-DECODE",
  (P, "        return text.replace('\\\\N', '\\\\n')\\\n                   .replace('\\r\\n', '\\n')\\\n                   .replace('\\\\n', '\\n')\\\n",
      "        return text.replace('\\r\\n', '\\n')\\\n                   .replace('\\\\n', '\\n')\\\n                   .replace('\\\\N', '\\\\n')\\\n"))
M("c01-wire-extra-rewrite", "C01", "C01/VALUE-WIRE",
  (P, "    return val.replace('%2C', ',').replace('%3A', ':')\\\n", "    return val.replace('+', ' ').replace('%2C', ',').replace('%3A', ':')\\\n"))
M("c01-date-unpadded", "C01", "C01/LAYOUT",
  (PR, 's = f"{self.dt.year:04}{self.dt.month:02}{self.dt.day:02}"', 's = f"{self.dt.year}{self.dt.month:02}{self.dt.day:02}"'))
M("c01-twin-rename-parsed", "C01", "silent",
  (C, "parsed_component", "decoded_value", 8))

# ---------------------------------------------------------------- C03
M("c03-date-slice-wide", "C03", "C03/LAYOUT",
  (PR, "                int(ical[4:6]),  # month\n                int(ical[6:8]),  # day\n            )\n            return date(*timetuple)",
       "                int(ical[4:7]),  # month\n                int(ical[6:8]),  # day\n            )\n            return date(*timetuple)"))
M("c03-day-unpadded", "C03", "C03/LAYOUT",
  (PR, 's = f"{self.dt.year:04}{self.dt.month:02}{self.dt.day:02}"', 's = f"{self.dt.year:04}{self.dt.month:02}{self.dt.day}"'))
M("c03-datetime-strftime", "C03", "C03/LAYOUT",
  (PR, 's = f"{dt.year:04}{dt.month:02}{dt.day:02}T{dt.hour:02}{dt.minute:02}{dt.second:02}"', 's = dt.strftime("%Y%m%dT%H%M%S")'))
M("c03-z-position", "C03", "C03/LAYOUT",
  (PR, "            elif ical[15:16] == 'Z':", "            elif ical[14:15] == 'Z':"))
M("c03-offset-seconds-slice", "C03", "C03/LAYOUT",
  (PR, "int(ical[5:7] or 0))", "int(ical[5:6] or 0))"))
M("c03-duration-single-digit-weeks", "C03", "C03/GRAMMAR-IN",
  (PR, "P(?:(\\d+)W)?", "P(?:(\\d)W)?"))
M("c03-duration-no-plus", "C03", "C03/GRAMMAR-IN",
  (PR, "r'([-+]?)P", "r'([-]?)P"))
M("c03-dispatch-length-15-only", "C03", "C03/",
  (PR, "        if len(ical) in (15, 16):", "        if len(ical) in (15,):"))
M("c03-dispatch-slash-after-length", "C03", "C03/DISPATCH",
  (PR, "        if '/' in u:\n            return vPeriod.from_ical(ical, timezone=timezone)\n\n        if len(ical) in (15, 16):\n            return vDatetime.from_ical(ical, timezone=timezone)",
       "        if len(ical) in (15, 16, 31, 33):\n            return vDatetime.from_ical(ical, timezone=timezone)\n        if '/' in u:\n            return vPeriod.from_ical(ical, timezone=timezone)\n"))
M("c03-dispatch-no-minus-p", "C03", "C03/DISPATCH",
  (PR, "if u.startswith(('P', '-P', '+P')):", "if u.startswith(('P', '+P')):"))
M("c03-period-no-timezone", "C03", "C03/DISPATCH",
  (PR, "end_or_duration = vDDDTypes.from_ical(end_or_duration, timezone=timezone)", "end_or_duration = vDDDTypes.from_ical(end_or_duration)"))
M("c03-twin-local-rename", "C03", "silent",
  (PR, "        u = ical.upper()\n        if u.startswith(('P', '-P', '+P')):\n            return vDuration.from_ical(ical)\n        if '/' in u:",
       "        upper = ical.upper()\n        if upper.startswith(('P', '-P', '+P')):\n            return vDuration.from_ical(ical)\n        if '/' in upper:"))

# ---------------------------------------------------------------- C15
M("c15-gt-to-ge-active", "C15", "C15/DT-ACTIVE",
  (A, "        return trigger > acknowledged", "        return trigger >= acknowledged"))
M("c15-snooze-ge", "C15", "C15/DT-ACTIVE",
  (A, "        if self._snooze_until is not None and self._snooze_until > acknowledged:", "        if self._snooze_until is not None and self._snooze_until >= acknowledged:"))
M("c15-max-to-min", "C15", "C15/DT-ACTIVE",
  (A, "        return max(ack, self._last_ack)", "        return min(ack, self._last_ack)"))
M("c15-ack-ignores-component", "C15", "C15/DT-ACTIVE",
  (A, "        if ack is None:\n            return self._last_ack\n", "        if ack is None:\n            return None\n"))
M("c15-drop-snooze-branch", "C15", "C15/DT-ACTIVE",
  (A, "        if self._snooze_until is not None and self._snooze_until > acknowledged:\n            return True\n", ""))
M("c15-trigger-ignores-snooze", "C15", "C15/DT-ACTIVE",
  (A, "            if self._snooze_until > self._trigger:\n                return self._snooze_until\n", ""))
M("c15-revert-date-guard", "C15", "C15/DT-ACTIVE",
  (A, '        if getattr(trigger, "tzinfo", None) is None:\n            raise LocalTimezoneMissing(\n                "A local timezone is required to check', '        if trigger.tzinfo is None:\n            raise LocalTimezoneMissing(\n                "A local timezone is required to check'))
M("c15-revert-to-datetime", "C15", "C15/DT-ACTIVE",
  (A, "normalize_pytz(to_datetime(trigger).replace(tzinfo=self._local_tzinfo))", "normalize_pytz(trigger.replace(tzinfo=self._local_tzinfo))"))
M("c15-active-not-filtered", "C15", "C15/SUBLIST",
  (A, "return [alarm_time for alarm_time in self.times if alarm_time.is_active()]", "return [alarm_time for alarm_time in self.times]"))
M("c15-thunderbird-uses-dtstamp", "C15", "C15/WIRING",
  (A, "                self.acknowledge_until(component.X_MOZ_LASTACK)", "                self.acknowledge_until(component.DTSTAMP)"))
M("c15-ack-not-utc", "C15", "C15/WIRING",
  (A, "        self._last_ack = tzp.localize_utc(dt) if dt is not None else None", "        self._last_ack = dt"))
M("c15-twin-rename", "C15", "silent",
  (A, "        acknowledged = self.acknowledged\n        if not acknowledged:", "        acknowledged = self.acknowledged\n        if acknowledged is None:"))

# ---------------------------------------------------------------- C16
M("c16-duration-keeps-dtend", "C16", "C16/MACHINE",
  (C, '    self["duration"] = vDuration(value)\n    self.pop("DTEND")\n', '    self["duration"] = vDuration(value)\n'))
M("c16-duration-keeps-due", "C16", "C16/MACHINE",
  (C, '    self.pop("DTEND")\n    self.pop("DUE")\n', '    self.pop("DTEND")\n'))
M("c16-exclusive-wrong-tuple", "C16", "C16/MACHINE",
  (C, "    exclusive = ('DTEND', 'DURATION',)\n    multiple = (\n        'ATTACH', 'ATTENDEE', 'COMMENT', 'CONTACT', 'EXDATE',\n        'RSTATUS'", "    exclusive = ('DTEND',)\n    multiple = (\n        'ATTACH', 'ATTENDEE', 'COMMENT', 'CONTACT', 'EXDATE',\n        'RSTATUS'"))
M("c16-store-before-typecheck", "C16", "C16/MACHINE",
  (C, "        if not isinstance(value, value_type):\n            raise TypeError(f\"Use {' or '.join(t.__name__ for t in value_type)}, not {type(value).__name__}.\")\n        self[prop] = vProp(value)",
      "        self[prop] = value\n        if not isinstance(value, value_type):\n            raise TypeError(f\"Use {' or '.join(t.__name__ for t in value_type)}, not {type(value).__name__}.\")\n        self[prop] = vProp(value)"))
M("c16-one-day-zero", "C16", "C16/DT-END",
  (C, "                return start + timedelta(days=1)\n            return start\n        if duration is not None:\n            if start is not None:\n                return start + duration\n            raise IncompleteComponent(\"No DTEND or DURATION+DTSTART given.\")",
      "                return start + timedelta(days=0)\n            return start\n        if duration is not None:\n            if start is not None:\n                return start + duration\n            raise IncompleteComponent(\"No DTEND or DURATION+DTSTART given.\")"))
M("c16-todo-swapped-date-branch", "C16", "C16/DT-END",
  (C, "                raise IncompleteComponent(\"No DUE or DURATION+DTSTART given.\")\n            if is_date(start):\n                return start + timedelta(days=1)\n            return start",
      "                raise IncompleteComponent(\"No DUE or DURATION+DTSTART given.\")\n            if not is_date(start):\n                return start + timedelta(days=1)\n            return start"))
M("c16-both-allowed", "C16", "C16/DT-END",
  (C, "        if duration is not None and end is not None:\n            raise InvalidCalendar(\"Only one of DTEND and DURATION may be in a VEVENT, not both.\")\n", ""))
M("c16-mismatch-allowed", "C16", "C16/DT-END",
  (C, "        if start is not None and end is not None and is_date(start) != is_date(end):\n            raise InvalidCalendar(\"DTSTART and DUE must be of the same type, either date or datetime.\")\n", ""))
M("c16-duration-sign", "C16", "C16/DT-END",
  (C, "        return self.end - self.start\n\n    X_MOZ_SNOOZE_TIME", "        return self.start - self.end\n\n    X_MOZ_SNOOZE_TIME"))
M("c16-journal-end-none", "C16", "C16/DT-END",
  (C, "        self.DTSTART = value\n\n    end = start\n", "        self.DTSTART = value\n\n    end = None\n"))
M("c16-twin-is-date", "C16", "silent",
  (C, "        if isinstance(start, date) and not isinstance(start, datetime) and duration is not None and duration.seconds != 0:\n            raise InvalidCalendar(\"When DTSTART is a date, DURATION must be of days or weeks.\")\n        if start is not None and end is not None and is_date(start) != is_date(end):\n            raise InvalidCalendar(\"DTSTART and DTEND",
      "        if start is not None and is_date(start) and duration is not None and duration.seconds != 0:\n            raise InvalidCalendar(\"When DTSTART is a date, DURATION must be of days or weeks.\")\n        if start is not None and end is not None and is_date(start) != is_date(end):\n            raise InvalidCalendar(\"DTSTART and DTEND"))

# ---------------------------------------------------------------- C14
M("c14-repeat-range-short", "C14", "C14/",
  (A, "            for i in range(1, repeat + 1):", "            for i in range(1, repeat):"))
M("c14-repeat-from-zero", "C14", "C14/",
  (A, "            for i in range(1, repeat + 1):", "            for i in range(0, repeat):"))
M("c14-multiplier-off", "C14", "C14/ANCHOR",
  (A, "yield self._add(first, duration * i)", "yield self._add(first, duration * (i - 1))"))
M("c14-triggers-extra-repeat", "C14", "C14/",
  (C, "                for _ in range(self.REPEAT):", "                for _ in range(self.REPEAT + 1):"))
M("c14-swap-start-end", "C14", "C14/ANCHOR",
  (A, "for trigger in self._repeat(self._add(self._end, alarm.TRIGGER), alarm)", "for trigger in self._repeat(self._add(self._start, alarm.TRIGGER), alarm)"))
M("c14-related-inverted", "C14", "C14/",
  (A, '        elif alarm.TRIGGER_RELATED == "START":\n            self._start_alarms.append(alarm)', '        elif alarm.TRIGGER_RELATED != "START":\n            self._start_alarms.append(alarm)'))
M("c14-absolute-needs-start", "C14", "C14/ANCHOR",
  (A, "        if self._start is None and self._start_alarms:", "        if self._start is None:"))
M("c14-repeat-without-duration", "C14", "C14/",
  (A, "        if repeat and duration:", "        if repeat:"))
M("c14-date-add-drops-time", "C14", "C14/ANCHOR",
  (A, "        if is_date(dt):\n            if td.seconds == 0:\n                return dt + td\n            dt = to_datetime(dt)\n        return normalize_pytz(dt + td)", "        return normalize_pytz(dt + td)"))
M("c14-set-end-uses-start", "C14", "C14/ANCHOR",
  (A, "            self.set_end(component.end)", "            self.set_end(component.start)"))
M("c14-related-default-end", "C14", "C14/",
  (C, '        return trigger.params.get("RELATED", "START")', '        return trigger.params.get("RELATED", "END")'))
M("c14-twin-rename", "C14", "silent",
  (A, "            for i in range(1, repeat + 1):\n                yield self._add(first, duration * i)", "            for k in range(1, 1 + repeat):\n                yield self._add(first, k * duration)"))

# ---------------------------------------------------------------- C02
M("c02-dtend-text", "C02", "C02/TYPE-TABLE", (PR, "        'dtend': 'date-time',", "        'dtend': 'text',"))
M("c02-rdate-not-list", "C02", "C02/TYPE-TABLE", (PR, "        'rdate': 'date-time-list',", "        'rdate': 'date-time',"))
M("c02-geo-text", "C02", "C02/TYPE-TABLE", (PR, "        'geo': 'geo',", "        'geo': 'text',"))
M("c02-date-before-datetime", "C02", "C02/VALUE-TAG",
  (PR, "        if isinstance(dt, (datetime, timedelta)):\n            self.params = Parameters()\n        elif isinstance(dt, date):\n            self.params = Parameters({'value': 'DATE'})",
       "        if isinstance(dt, date):\n            self.params = Parameters({'value': 'DATE'})\n        elif isinstance(dt, (datetime, timedelta)):\n            self.params = Parameters()"))
M("c02-no-date-tag", "C02", "C02/VALUE-TAG",
  (PR, "        elif isinstance(dt, date):\n            self.params = Parameters({'value': 'DATE'})\n        elif isinstance(dt, time):", "        elif isinstance(dt, date):\n            self.params = Parameters()\n        elif isinstance(dt, time):"))
M("c02-revert-list-value", "C02", "C02/",
  (PR, "            if value:\n                self.params['VALUE'] = value\n", ""))
M("c02-revert-trigger-tag", "C02", "C02/VALUE-TAG",
  (C, "            if isinstance(value, datetime) and types_factory.types_map.get(name) == 'duration':\n                # e.g. TRIGGER: DURATION is the default value type\n                obj.params['VALUE'] = 'DATE-TIME'\n", ""))
M("c02-revert-period-tzid", "C02", "C02/VALUE-TAG",
  (PR, "        if isinstance(dt, tuple) and dt and isinstance(dt[0], datetime):\n            tzid = tzid_from_dt(dt[0])  # the period is written in the zone of its start\n        else:\n            tzid = tzid_from_dt(dt) if isinstance(dt, (datetime, time)) else None",
       "        tzid = tzid_from_dt(dt) if isinstance(dt, (datetime, time)) else None"))
M("c02-accum-reversed", "C02", "C02/ACCUM",
  (C, "            elif isinstance(value, list):\n                value = [oldval] + value", "            elif isinstance(value, list):\n                value = value + [oldval]"))
M("c02-accum-nested", "C02", "C02/ACCUM",
  (C, "            elif isinstance(value, list):\n                value = [oldval] + value\n", ""))
M("c02-tzid-not-forwarded-due", "C02", "C02/TZID-READ",
  (C, "                datetime_names = ('DTSTART', 'DTEND', 'RECURRENCE-ID', 'DUE',", "                datetime_names = ('DTSTART', 'DTEND', 'RECURRENCE-ID',"))
M("c02-twin-rename", "C02", "silent", (C, "oldval", "previous", 7))

# ---------------------------------------------------------------- C11
M("c11-elif-to-if", "C11", "C11/TZ-TAG",
  (PR, "        if tzid == 'UTC':\n            s += \"Z\"\n        return s.encode('utf-8')", "        if tzid:\n            s += \"Z\"\n        return s.encode('utf-8')"))
M("c11-utc-gets-tzid-ddd", "C11", "C11/TZ-TAG",
  (PR, "        if tzid is not None and tzid != 'UTC':\n            self.params.update({'TZID': tzid})", "        if tzid is not None:\n            self.params.update({'TZID': tzid})", 2))
M("c11-revert-period-utc", "C11", "C11/TZ-TAG",
  (PR, "        if tzid and tzid != 'UTC':\n            self.params['TZID'] = tzid", "        if tzid:\n            self.params['TZID'] = tzid"))
M("c11-no-z", "C11", "C11/TZ-TAG", (PR, '            s += "Z"\n', '            pass\n'))
M("c11-revert-acknowledged", "C11", "C11/UTC-FORCED",
  (C, "('dtstamp', 'created', 'last-modified', 'acknowledged')", "('dtstamp', 'created', 'last-modified')"),
  (C, "        self.add(name, vDDDTypes(tzp.localize_utc(value)))", "        self.add(name, value)"))
M("c11-drop-created", "C11", "C11/UTC-FORCED",
  (C, "('dtstamp', 'created', 'last-modified', 'acknowledged')", "('dtstamp', 'last-modified', 'acknowledged')"))
M("c11-getter-no-utc", "C11", "C11/UTC-FORCED",
  (C, "        return tzp.localize_utc(value)\n\n    def p_set", "        return value\n\n    def p_set"))
M("c11-drop-recurrence-id", "C11", "C11/TZID-FORWARD",
  (C, "('DTSTART', 'DTEND', 'RECURRENCE-ID', 'DUE',", "('DTSTART', 'DTEND', 'DUE',"))
M("c11-decoder-ignores-tz", "C11", "C11/TZID-FORWARD",
  (PR, "            if tzinfo:\n                return tzp.localize(datetime(*timetuple), tzinfo)\n            elif not ical[15:]:", "            if not ical[15:]:"))
M("c11-astimezone-in-writer", "C11", "C11/",
  (PR, "        dt = self.dt\n        tzid = tzid_from_dt(dt)\n", "        dt = self.dt\n        tzid = tzid_from_dt(dt)\n        if tzid and tzid != 'UTC':\n            dt = dt.astimezone(dt.tzinfo)\n"))
M("c11-period-normalizes-end", "C11", "C11/TZ-TAG",
  (PR, "            else:\n                end = end_or_duration\n                duration = end - start", "            else:\n                end = normalize_pytz(end_or_duration)\n                duration = end - start"),
  (PR, "from .timezone import tzid_from_dt, tzid_from_tzinfo, tzp", "from .timezone import tzid_from_dt, tzid_from_tzinfo, tzp\nfrom .tools import normalize_pytz"))
M("c11-twin-rename", "C11", "silent", (PR, "        tzid = tzid_from_dt(start)\n        if tzid and tzid != 'UTC':", "        zone_id = tzid_from_dt(start)\n        tzid = zone_id\n        if tzid and tzid != 'UTC':"))

# ---------------------------------------------------------------- C04
Z, T = "timezone/zoneinfo.py", "timezone/tzp.py"
M("c04-vdate-narrow-handler", "C04", "C04/ESCAPE",
  (PR, "            return date(*timetuple)\n        except Exception:", "            return date(*timetuple)\n        except KeyError:"))
M("c04-vdatetime-narrow-handler", "C04", "C04/ESCAPE",
  (PR, "        except Exception as e:\n            raise ValueError(f'Wrong datetime format: {ical}') from e", "        except ValueError as e:\n            raise ValueError(f'Wrong datetime format: {ical}') from e"))
M("c04-stack-guard-removed", "C04", "C04/ESCAPE",
  (C, "                if not stack:\n                    # The stack is currently empty, the input must be invalid\n                    raise ValueError('END encountered without an accompanying BEGIN!')\n", ""))
M("c04-revert-duration-wrap", "C04", "C04/ESCAPE",
  (PR, "        except OverflowError:\n            raise ValueError(f'iCalendar duration out of range: {ical}')\n", "        except KeyError:\n            pass\n"))
M("c04-revert-period-wrap", "C04", "C04/ESCAPE",
  (PR, "        except (TypeError, OverflowError) as e:\n            # e.g. date and datetime mixed", "        except (KeyError,) as e:\n            # e.g. date and datetime mixed"))
M("c04-revert-oserror", "C04", "C04/",
  (Z, "        except OSError:\n            # e.g. IsADirectoryError for \"America\", OSError for over-long names\n            pass\n", ""))
M("c04-revert-vtimezone-wrap", "C04", "C04/ESCAPE",
  (C, "                    try:\n                        tzp.cache_timezone_component(component)\n                    except ValueError:\n                        raise\n                    except Exception as e:\n                        raise ValueError(f'Invalid VTIMEZONE {component[\"TZID\"]!r}: {e!r}') from e\n",
      "                    tzp.cache_timezone_component(component)\n"))
M("c04-lenient-break", "C04", "C04/LENIENT",
  (C, "                component.errors.append((None, str(e)))\n                continue", "                component.errors.append((None, str(e)))\n                break"))
M("c04-lenient-no-record", "C04", "C04/LENIENT",
  (C, "                    component.errors.append((uname, str(e)))\n", "                    pass\n"))
M("c04-todo-lenient", "C04", "C04/LENIENT",
  (C, "    name = 'VTODO'\n", "    name = 'VTODO'\n    ignore_exceptions = True\n"))
M("c04-tzid-guard-dropped", "C04", "C04/ESCAPE",
  (C, "if vals.upper() == 'VTIMEZONE' and 'TZID' in component:", "if vals.upper() == 'VTIMEZONE':"))
M("c04-new-unguarded-subscript", "C04", "C04/ESCAPE",
  (C, "            uname = name.upper()\n", "            uname = name.upper()\n            first = vals[0]\n"))
M("c04-while-added", "C04", "C04/",
  (C, "            uname = name.upper()\n", "            uname = name.upper()\n            while uname.startswith(' '):\n                uname = uname[1:]\n"))
M("c04-twin-rename-e", "C04", "silent",
  (C, "            except ValueError as e:\n                # if unable to parse a line within a component", "            except ValueError as e:\n                # (renamed comment) if unable to parse a line within a component"))

# ---------------------------------------------------------------- C10
M("c10-revert-to-ical-write", "C10", "C10/PURE",
  (PR, "        if tzid == 'UTC':\n            s += \"Z\"\n        return s.encode('utf-8')", "        if tzid == 'UTC':\n            s += \"Z\"\n        elif tzid:\n            self.params.update({'TZID': tzid})\n        return s.encode('utf-8')"))
M("c10-to-ical-caches-on-self", "C10", "C10/PURE",
  (C, "        content_lines = self.content_lines(sorted=sorted)\n        return content_lines.to_ical()", "        content_lines = self.content_lines(sorted=sorted)\n        self._last_ical = content_lines.to_ical()\n        return self._last_ical"))
M("c10-vtext-memo", "C10", "C10/PURE",
  (PR, "    def to_ical(self) -> bytes:\n        return escape_char(self).encode(self.encoding)", "    def to_ical(self) -> bytes:\n        self.params['X-SEEN'] = '1'\n        return escape_char(self).encode(self.encoding)"))
M("c10-revert-sorted-missing", "C10", "C10/HASHSEED",
  (C, "for tzid in sorted(self.get_missing_tzids()):", "for tzid in self.get_missing_tzids():"))
M("c10-list-of-set", "C10", "silent",
  (C, "        return result - {None}", "        return set(list(result - {None}))"), note="harmless: wrapped back into a set")
M("c10-used-tzids-as-list", "C10", "C10/HASHSEED",
  (C, "        tzids = self.get_used_tzids()\n        for timezone in self.timezones:", "        tzids = self.get_used_tzids()\n        ordered = [t for t in tzids]\n        for timezone in self.timezones:"))
M("c10-sort-unconditional-removed", "C10", "C10/SORT-FLAG",
  (P, "        if sorted:\n            items.sort()\n", ""))
M("c10-flag-not-passed-content-line", "C10", "C10/SORT-FLAG",
  (C, "            cl = self.content_line(name, value, sorted=sorted)", "            cl = self.content_line(name, value)"))
M("c10-flag-not-passed-recursion", "C10", "C10/SORT-FLAG",
  (C, "                properties += subcomponent.property_items(sorted=sorted)", "                properties += subcomponent.property_items()"))
M("c10-flag-not-passed-params", "C10", "C10/SORT-FLAG",
  (P, "            params = to_unicode(params.to_ical(sorted=sorted))", "            params = to_unicode(params.to_ical())"))
M("c10-end-before-subcomponents", "C10", "C10/TREE-EMIT",
  (C, "        if recursive:\n            # recursion is fun!\n            for subcomponent in self.subcomponents:\n                properties += subcomponent.property_items(sorted=sorted)\n        properties.append(('END', vText(self.name).to_ical()))",
      "        properties.append(('END', vText(self.name).to_ical()))\n        if recursive:\n            # recursion is fun!\n            for subcomponent in self.subcomponents:\n                properties += subcomponent.property_items(sorted=sorted)"))
M("c10-first-value-only", "C10", "C10/TREE-EMIT",
  (C, "                for value in values:\n                    properties.append((name, value))", "                for value in values[:1]:\n                    properties.append((name, value))"))
M("c10-lowercase-canonical", "C10", "C10/SORT-FLAG",
  (C, "    canonical_order = ('VERSION', 'PRODID', 'CALSCALE', 'METHOD',)", "    canonical_order = ('version', 'PRODID', 'CALSCALE', 'METHOD',)"))
M("c10-twin-rename-flag-kw", "C10", "silent",
  (C, "        content_lines = self.content_lines(sorted=sorted)", "        content_lines = self.content_lines(sorted)"))

# ---------------------------------------------------------------- C18
M("c18-revert-discard", "C18", "C18/TOTAL",
  (C, "            if 'TZID' in timezone:\n                tzids.discard(timezone.tz_name)", "            tzids.remove(timezone.tz_name)"))
M("c18-revert-tzid-guard", "C18", "C18/TOTAL",
  (C, "            if 'TZID' in timezone:\n                tzids.discard(timezone.tz_name)", "            tzids.discard(timezone.tz_name)"))
M("c18-not-recursive", "C18", "C18/MODEL",
  (C, "        for name, value in self.property_items(sorted=False):", "        for name, value in self.property_items(recursive=False, sorted=False):"))
M("c18-only-dt-names", "C18", "C18/MODEL",
  (C, "            if hasattr(value, \"params\"):\n                result.add(value.params.get(\"TZID\"))", "            if name.startswith('DT') and hasattr(value, \"params\"):\n                result.add(value.params.get(\"TZID\"))"))
M("c18-cleaned-id", "C18", "C18/MODEL",
  (C, "                timezone = Timezone.from_tzid(\n                    tzid,", "                timezone = Timezone.from_tzid(\n                    tzid.strip('/'),"))
M("c18-from-tzid-cleans", "C18", "C18/MODEL",
  (C, "        tz = tzp.timezone(tzid)\n        if tz is None:\n            raise ValueError(f\"Unkown timezone {tzid}.\")", "        tzid = tzp.clean_timezone_id(tzid)\n        tz = tzp.timezone(tzid)\n        if tz is None:\n            raise ValueError(f\"Unkown timezone {tzid}.\")"))
M("c18-unknown-aborts", "C18", "C18/MODEL",
  (C, "            except ValueError:\n                continue\n            self.add_component(timezone)", "            except ValueError:\n                break\n            self.add_component(timezone)"))
M("c18-first-list-value-only", "C18", "C18/COVER",
  (C, "                for value in values:\n                    properties.append((name, value))", "                for value in values[:1]:\n                    properties.append((name, value))"))
M("c18-twin-rename", "C18", "silent",
  (C, "        result = set()\n        for name, value in self.property_items(sorted=False):\n            if hasattr(value, \"params\"):\n                result.add(value.params.get(\"TZID\"))\n        return result - {None}",
      "        found = set()\n        for prop_name, prop_value in self.property_items(sorted=False):\n            if hasattr(prop_value, \"params\"):\n                found.add(prop_value.params.get(\"TZID\"))\n        return found - {None}"))

# ---------------------------------------------------------------- C12
M("c12-onset-minus-offsetto", "C12", "C12/ONSET-MODEL",
  (C, "            transtime - osfrom for transtime, osfrom, _, _ in transitions", "            transtime - osto for transtime, _, osto, _ in transitions"))
M("c12-tuple-swapped", "C12", "C12/ONSET-MODEL",
  (C, "        transitions = [(transtime, offsetfrom, offsetto, tzname) for", "        transitions = [(transtime, offsetto, offsetfrom, tzname) for"))
M("c12-offsets-swapped-at-read", "C12", "C12/ONSET-MODEL",
  (C, "        offsetfrom = component.TZOFFSETFROM\n        offsetto = component.TZOFFSETTO", "        offsetfrom = component.TZOFFSETTO\n        offsetto = component.TZOFFSETFROM"))
M("c12-rrule-anchored-utc", "C12", "C12/ONSET-MODEL",
  (C, '            tzi = dateutil.tz.tzoffset ("(offsetfrom)", offsetfrom)', '            tzi = dateutil.tz.UTC'))
M("c12-rrule-anchored-offsetto", "C12", "C12/ONSET-MODEL",
  (C, '            tzi = dateutil.tz.tzoffset ("(offsetfrom)", offsetfrom)', '            tzi = dateutil.tz.tzoffset ("(offsetto)", offsetto)'))
M("c12-info-uses-osfrom", "C12", "C12/ONSET-MODEL",
  (C, "            transition_info.append((osto, dst_offset, name))", "            transition_info.append((osfrom, dst_offset, name))"))
M("c12-unsorted", "C12", "C12/ONSET-MODEL",
  (C, "        transitions.sort()\n", ""))
M("c12-dst-from-daylight", "C12", "C12/ONSET-MODEL",
  (C, "                for index in range(num - 1, -1, -1):\n                    if not dst[transitions[index][3]]:  # [3] is the name", "                for index in range(num - 1, -1, -1):\n                    if dst[transitions[index][3]]:  # [3] is the name"))
M("c12-dst-uses-osfrom", "C12", "C12/ONSET-MODEL",
  (C, "                        dst_offset = osto - transitions[index][2]  # [2] is osto  # noqa\n                        break\n                # when", "                        dst_offset = osto - transitions[index][1]  # [2] is osto  # noqa\n                        break\n                # when"))
M("c12-standard-marked-dst", "C12", "C12/ONSET-MODEL",
  (C, "        if component.name == 'STANDARD':\n            is_dst = 0\n        elif component.name == 'DAYLIGHT':\n            is_dst = 1", "        if component.name == 'STANDARD':\n            is_dst = 1\n        elif component.name == 'DAYLIGHT':\n            is_dst = 0"))
M("c12-rdate-first-list-only", "C12", "C12/ONSET-MODEL",
  (C, "            transtimes = [dtstart] + [leaf.dt for tree in rdates for\n                                      leaf in tree.dts]", "            transtimes = [dtstart] + [leaf.dt for tree in rdates[:1] for\n                                      leaf in tree.dts]"))
M("c12-rdate-drops-dtstart", "C12", "C12/ONSET-MODEL",
  (C, "            transtimes = [dtstart] + [leaf.dt for tree in rdates for", "            transtimes = [leaf.dt for tree in rdates for"))
M("c12-rrule-onsets-stay-aware", "C12", "C12/ONSET-MODEL",
  (C, "            transtimes = [dt.replace (tzinfo=None) for dt in rrule]", "            transtimes = [dt for dt in rrule]"))
M("c12-pytz-drops-first-transition", "C12", "C12/ONSET-MODEL",
  ("timezone/pytz.py", "            '_utc_transition_times': transition_times,\n            '_transition_info': transition_info", "            '_utc_transition_times': transition_times[1:],\n            '_transition_info': transition_info[1:]"))
M("c12-pytz-zone-unclean-name", "C12", "C12/ONSET-MODEL",
  ("timezone/pytz.py", "            'zone': name,", "            'zone': name.lower(),"))
M("c12-twin-extract-round", "C12", "silent",
  (C, "        offsetto_s = int((offsetto.seconds + 30) / 60) * 60\n        offsetto = timedelta(days=offsetto.days, seconds=offsetto_s)", "        offsetto_m = int((offsetto.seconds + 30) / 60)\n        offsetto = timedelta(days=offsetto.days, minutes=offsetto_m)"))
M("c12-second-module-cache", "C12", "C12/HISTORY",
  (C, "_marker = []\n", "_marker = []\n_seen_tzids = {}\n"),
  (C, "            uname = name.upper()\n", "            uname = name.upper()\n            _seen_tzids[uname] = True\n"))
M("c12-lookup-writes-cache", "C12", "C12/HISTORY",
  (T, "self.__tz_cache.get(tz_id)", "self.__tz_cache.setdefault(tz_id)"))
M("c12-pytz-missing-method", "C12", "C12/PROVIDERS",
  ("timezone/pytz.py", "    def fix_rrule_until(self, rrule:rrule, ical_rrule:prop.vRecur) -> None:", "    def _fix_rrule_until(self, rrule:rrule, ical_rrule:prop.vRecur) -> None:"))
M("c12-cutoff-differs", "C12", "C12/PROVIDERS",
  ("timezone/pytz.py", "datetime(2038, 12, 31, tzinfo=pytz.UTC)", "datetime(2037, 12, 31, tzinfo=pytz.UTC)"))
M("c12-twin-rename-osfrom", "C12", "silent",
  (C, "            transtime - osfrom for transtime, osfrom, _, _ in transitions", "            local - before for local, before, _, _ in transitions"))
