"""E0 - source model of /repo/src/icalendar built from the AST on every run.

Nothing of the repository is imported or executed.  Everything a rule needs
is looked up by resolved name; a missing anchor raises AnalysisError (exit 2).
"""
from __future__ import annotations

import ast
import os

from .core import AnalysisError

PKG = "icalendar"
SKIP_DIRS = {"tests", "fuzzing", "__pycache__"}
DATA_MODULES = {"icalendar.timezone.equivalent_timezone_ids_result",
                "icalendar.timezone.windows_to_olson"}


class FuncInfo:
    def __init__(self, module, cls, node, qualname, outer=None):
        self.module = module
        self.cls = cls              # ClassInfo or None
        self.node = node
        self.qualname = qualname    # e.g. cal.Component.from_ical
        self.name = node.name
        self.outer = outer          # enclosing FuncInfo for closures
        self.decorators = [ast.unparse(d) for d in node.decorator_list]

    @property
    def params(self):
        a = self.node.args
        return [x.arg for x in a.posonlyargs + a.args]

    @property
    def kind(self):
        if "staticmethod" in self.decorators:
            return "static"
        if "classmethod" in self.decorators:
            return "class"
        return "instance" if self.cls else "function"

    def loc(self, node=None):
        n = node if node is not None else self.node
        return f"{self.module.rel}:{getattr(n, 'lineno', '?')} {self.qualname}"

    def __repr__(self):
        return f"<func {self.qualname}>"


class ClassInfo:
    def __init__(self, module, node, qualname):
        self.module = module
        self.node = node
        self.name = node.name
        self.qualname = qualname    # cal.Component
        self.base_exprs = list(node.bases)
        self.methods: dict[str, FuncInfo] = {}
        self.attrs: dict[str, ast.AST] = {}     # class-level assignments
        self.attr_nodes: dict[str, ast.stmt] = {}
        self.properties: dict[str, dict] = {}   # name -> {get,set,del: FuncInfo}

    def loc(self, node=None):
        n = node if node is not None else self.node
        return f"{self.module.rel}:{getattr(n, 'lineno', '?')} {self.qualname}"

    def __repr__(self):
        return f"<class {self.qualname}>"


class Module:
    def __init__(self, name, path, rel, src):
        self.name = name            # icalendar.cal
        self.short = name[len(PKG) + 1:] if name != PKG else ""
        self.path = path
        self.rel = rel              # src/icalendar/cal.py
        self.src = src
        self.tree = ast.parse(src, filename=path)
        self.inlined = []
        if os.environ.get("SA_NO_NORMALIZE") != "1" and name not in DATA_MODULES:
            from .normalize import normalize
            self.tree, self.inlined = normalize(self.tree)
        self.functions: dict[str, FuncInfo] = {}
        self.classes: dict[str, ClassInfo] = {}
        self.globals: dict[str, ast.AST] = {}
        self.global_nodes: dict[str, ast.stmt] = {}
        self.imports: dict[str, tuple] = {}   # local -> (module, attr|None)
        self._index()

    def _resolve_rel(self, level, mod):
        if level == 0:
            return mod
        parts = self.name.split(".")
        is_pkg = self.path.endswith("__init__.py")
        base = parts if is_pkg else parts[:-1]
        base = base[:len(base) - (level - 1)]
        return ".".join(base + ([mod] if mod else []))

    def _index(self):
        for st in self.tree.body:
            self._index_stmt(st)

    def _index_stmt(self, st):
        if isinstance(st, ast.Import):
            for a in st.names:
                self.imports[a.asname or a.name.split(".")[0]] = (
                    a.name if a.asname else a.name.split(".")[0], None)
        elif isinstance(st, ast.ImportFrom):
            m = self._resolve_rel(st.level, st.module)
            for a in st.names:
                self.imports[a.asname or a.name] = (m, a.name)
        elif isinstance(st, (ast.FunctionDef, ast.AsyncFunctionDef)):
            q = f"{self.short}.{st.name}"
            self.functions[st.name] = FuncInfo(self, None, st, q)
        elif isinstance(st, ast.ClassDef):
            ci = ClassInfo(self, st, f"{self.short}.{st.name}")
            self.classes[st.name] = ci
            self._index_class(ci)
        elif isinstance(st, ast.Assign):
            for t in st.targets:
                if isinstance(t, ast.Name):
                    self.globals[t.id] = st.value
                    self.global_nodes[t.id] = st
        elif isinstance(st, ast.AnnAssign):
            if isinstance(st.target, ast.Name) and st.value is not None:
                self.globals[st.target.id] = st.value
                self.global_nodes[st.target.id] = st
        elif isinstance(st, (ast.If, ast.Try)):
            for sub in ast.iter_child_nodes(st):
                if isinstance(sub, ast.stmt):
                    self._index_stmt(sub)
            if isinstance(st, ast.Try):
                for h in st.handlers:
                    for sub in h.body:
                        self._index_stmt(sub)

    def _index_class(self, ci):
        for st in ci.node.body:
            if isinstance(st, (ast.FunctionDef, ast.AsyncFunctionDef)):
                fi = FuncInfo(self, ci, st, f"{ci.qualname}.{st.name}")
                decs = fi.decorators
                if "property" in decs:
                    ci.properties.setdefault(st.name, {})["get"] = fi
                    ci.methods.setdefault(st.name, fi)
                elif any(d.endswith(".setter") for d in decs):
                    ci.properties.setdefault(st.name, {})["set"] = fi
                elif any(d.endswith(".deleter") for d in decs):
                    ci.properties.setdefault(st.name, {})["del"] = fi
                else:
                    ci.methods[st.name] = fi
            elif isinstance(st, ast.Assign):
                for t in st.targets:
                    if isinstance(t, ast.Name):
                        ci.attrs[t.id] = st.value
                        ci.attr_nodes[t.id] = st
            elif isinstance(st, ast.AnnAssign):
                if isinstance(st.target, ast.Name) and st.value is not None:
                    ci.attrs[st.target.id] = st.value
                    ci.attr_nodes[st.target.id] = st


class Model:
    def __init__(self, root):
        self.root = root
        self.modules: dict[str, Module] = {}
        self._mro_cache = {}

    # ---- lookup ---------------------------------------------------------
    def module(self, short):
        name = f"{PKG}.{short}" if short else PKG
        m = self.modules.get(name)
        if m is None:
            raise AnalysisError(f"anchor vanished: module {name}")
        return m

    def cls(self, q, required=True):
        """q like 'cal.Component' or 'timezone.tzp.TZP'."""
        mod, _, name = q.rpartition(".")
        m = self.modules.get(f"{PKG}.{mod}")
        c = m.classes.get(name) if m else None
        if c is None and required:
            raise AnalysisError(f"anchor vanished: class {q}")
        return c

    def func(self, q, required=True):
        """q like 'parser.escape_char' or 'cal.Component.from_ical'.
        Methods are looked up through the repo MRO."""
        parts = q.split(".")
        for i in range(len(parts) - 1, 0, -1):
            m = self.modules.get(f"{PKG}." + ".".join(parts[:i]))
            if m is None:
                continue
            rest = parts[i:]
            if len(rest) == 1:
                f = m.functions.get(rest[0])
                if f is not None:
                    return f
            elif len(rest) == 2:
                c = m.classes.get(rest[0])
                if c is not None:
                    f = self.lookup_method(c, rest[1])
                    if f is not None:
                        return f
        if required:
            raise AnalysisError(f"anchor vanished: function {q}")
        return None

    def own_method(self, q, required=True):
        """Method defined in exactly that class (no MRO)."""
        cq, _, name = q.rpartition(".")
        c = self.cls(cq, required)
        f = c.methods.get(name) if c else None
        if f is None and required:
            raise AnalysisError(f"anchor vanished: method {q}")
        return f

    def all_classes(self):
        for m in self.modules.values():
            yield from m.classes.values()

    def all_functions(self):
        """Every function/method/property accessor/nested function."""
        for m in self.modules.values():
            if m.name in DATA_MODULES:
                continue
            for f in m.functions.values():
                yield f
                yield from self._nested(f)
            for c in m.classes.values():
                seen = set()
                for f in c.methods.values():
                    if id(f) not in seen:
                        seen.add(id(f))
                        yield f
                        yield from self._nested(f)
                for p in c.properties.values():
                    for f in p.values():
                        if id(f) not in seen:
                            seen.add(id(f))
                            yield f
                            yield from self._nested(f)

    def _nested(self, f):
        for st in ast.walk(f.node):
            if st is not f.node and isinstance(st, ast.FunctionDef):
                # only direct nesting level matters for our repo
                yield FuncInfo(f.module, f.cls, st,
                               f"{f.qualname}.<{st.name}>", outer=f)

    # ---- name resolution ---------------------------------------------------
    def resolve_name(self, module: Module, name: str, _depth=0):
        """Resolve a bare name used in `module` to ClassInfo / FuncInfo /
        ('global', Module, name) / ('external', dotted) / None."""
        if _depth > 6:
            return None
        if name in module.classes:
            return module.classes[name]
        if name in module.functions:
            return module.functions[name]
        if name in module.globals:
            return ("global", module, name)
        if name in module.imports:
            mod, attr = module.imports[name]
            if mod.startswith(PKG):
                if attr is None:
                    m = self.modules.get(mod)
                    return ("module", m) if m else None
                m = self.modules.get(mod)
                if m is not None:
                    r = self.resolve_name(m, attr, _depth + 1)
                    if r is not None:
                        return r
                sub = self.modules.get(f"{mod}.{attr}")
                if sub is not None:
                    return ("module", sub)
                return None
            return ("external", f"{mod}.{attr}" if attr else mod)
        return None

    def resolve_class_expr(self, module, expr):
        """Base-class expression -> ClassInfo or external dotted name."""
        if isinstance(expr, ast.Name):
            r = self.resolve_name(module, expr.id)
            if isinstance(r, ClassInfo):
                return r
            if isinstance(r, tuple) and r[0] == "external":
                return r[1]
            return expr.id
        if isinstance(expr, ast.Attribute):
            return ast.unparse(expr)
        return ast.unparse(expr)

    def mro(self, ci: ClassInfo):
        """Linearised repo classes followed by external base names (strings).
        Single inheritance everywhere except vSkip(vText, Enum); a simple
        depth-first left-to-right order without duplicates is exact there."""
        key = id(ci)
        if key in self._mro_cache:
            return self._mro_cache[key]
        out, ext = [ci], []
        for b in ci.base_exprs:
            r = self.resolve_class_expr(ci.module, b)
            if isinstance(r, ClassInfo):
                for x in self.mro(r):
                    if isinstance(x, ClassInfo):
                        if x not in out:
                            out.append(x)
                    elif x not in ext:
                        ext.append(x)
            elif r not in ext:
                ext.append(r)
        res = out + ext
        self._mro_cache[key] = res
        return res

    def is_subclass(self, ci, other_q):
        return any(isinstance(x, ClassInfo) and x.qualname == other_q
                   for x in self.mro(ci))

    def subclasses(self, ci):
        return [c for c in self.all_classes()
                if c is not ci and ci in self.mro(c)]

    def lookup_method(self, ci, name):
        for c in self.mro(ci):
            if isinstance(c, ClassInfo):
                if name in c.methods:
                    return c.methods[name]
                if name in c.properties and "get" in c.properties[name]:
                    return c.properties[name]["get"]
        return None

    def lookup_attr(self, ci, name):
        """Class-level attribute through the MRO -> (owner ClassInfo, expr)."""
        for c in self.mro(ci):
            if isinstance(c, ClassInfo) and name in c.attrs:
                return c, c.attrs[name]
        return None, None

    # ---- constant folding -------------------------------------------------
    def const(self, expr, module, cls=None, _depth=0):
        """Evaluate a literal-ish expression.  Raises AnalysisError if it is
        not a constant the folder understands."""
        if _depth > 8:
            raise AnalysisError("constant folding too deep")
        d = _depth + 1
        if isinstance(expr, ast.Constant):
            return expr.value
        if isinstance(expr, ast.Tuple):
            return tuple(self.const(e, module, cls, d) for e in expr.elts)
        if isinstance(expr, ast.List):
            return [self.const(e, module, cls, d) for e in expr.elts]
        if isinstance(expr, ast.Set):
            return {self.const(e, module, cls, d) for e in expr.elts}
        if isinstance(expr, ast.Dict):
            out = {}
            for k, v in zip(expr.keys, expr.values):
                if k is None:                       # {**other, ...}
                    inner = self.const(v, module, cls, d)
                    if not isinstance(inner, dict):
                        raise AnalysisError(f"not a constant mapping: **{ast.unparse(v)[:40]}")
                    out.update(inner)
                else:
                    out[self.const(k, module, cls, d)] = self.const(v, module, cls, d)
            return out
        if isinstance(expr, ast.DictComp) and len(expr.generators) == 1 and not expr.generators[0].ifs \
                and isinstance(expr.generators[0].target, ast.Name):
            g = expr.generators[0]
            out = {}
            for item in self.const(g.iter, module, cls, d):
                class _Sub(ast.NodeTransformer):
                    def visit_Name(self_, n):
                        return ast.copy_location(ast.Constant(item), n) if n.id == g.target.id else n
                import copy as _copy
                k = _Sub().visit(_copy.deepcopy(expr.key))
                v = _Sub().visit(_copy.deepcopy(expr.value))
                out[self.const(k, module, cls, d)] = self.const(v, module, cls, d)
            return out
        if isinstance(expr, ast.JoinedStr):
            parts = []
            for v in expr.values:
                if isinstance(v, ast.Constant):
                    parts.append(str(v.value))
                else:
                    raise AnalysisError("f-string is not constant")
            return "".join(parts)
        if isinstance(expr, ast.BinOp) and isinstance(expr.op, ast.Add):
            return (self.const(expr.left, module, cls, d)
                    + self.const(expr.right, module, cls, d))
        if isinstance(expr, ast.UnaryOp) and isinstance(expr.op, ast.USub):
            return -self.const(expr.operand, module, cls, d)
        if isinstance(expr, ast.Name):
            if cls is not None:
                o, e = self.lookup_attr(cls, expr.id)
                if e is not None and expr.id in cls.attrs:
                    return self.const(e, o.module, o, d)
            r = self.resolve_name(module, expr.id)
            if isinstance(r, tuple) and r[0] == "global":
                return self.const(r[1].globals[r[2]], r[1], None, d)
            if isinstance(r, ClassInfo):
                return ("class", r.qualname)
            if isinstance(r, FuncInfo):
                return ("func", r.qualname)
            if isinstance(r, tuple) and r[0] == "external":
                return ("external", r[1])
            if expr.id in ("True", "False", "None"):
                return {"True": True, "False": False, "None": None}[expr.id]
            raise AnalysisError(f"not a constant: name {expr.id}")
        if isinstance(expr, ast.Attribute):
            if isinstance(expr.value, ast.Name):
                r = self.resolve_name(module, expr.value.id)
                if isinstance(r, ClassInfo):
                    o, e = self.lookup_attr(r, expr.attr)
                    if e is not None:
                        return self.const(e, o.module, o, d)
                if isinstance(r, tuple) and r[0] == "module":
                    m = r[1]
                    if expr.attr in m.globals:
                        return self.const(m.globals[expr.attr], m, None, d)
            return ("attr", ast.unparse(expr))
        if isinstance(expr, ast.Call):
            fn = expr.func
            if isinstance(fn, ast.Name):
                r = self.resolve_name(module, fn.id)
                if (isinstance(r, ClassInfo)
                        and self.is_subclass(r, "caselessdict.CaselessDict")
                        and len(expr.args) == 1 and not expr.keywords):
                    inner = self.const(expr.args[0], module, cls, d)
                    if isinstance(inner, dict):
                        return {str(k).upper(): v for k, v in inner.items()}
                if fn.id == "dict" and not expr.args:
                    return {k.arg: self.const(k.value, module, cls, d) for k in expr.keywords if k.arg}
                if fn.id in ("tuple", "list", "frozenset", "set") and \
                        len(expr.args) == 1:
                    v = self.const(expr.args[0], module, cls, d)
                    return {"tuple": tuple, "list": list, "set": set,
                            "frozenset": frozenset}[fn.id](v)
            if isinstance(fn, ast.Attribute) and fn.attr == "fromkeys" and isinstance(fn.value, ast.Name) \
                    and fn.value.id == "dict" and 1 <= len(expr.args) <= 2:
                keys = self.const(expr.args[0], module, cls, d)
                val = self.const(expr.args[1], module, cls, d) if len(expr.args) == 2 else None
                return {k: val for k in keys}
            raise AnalysisError(
                f"not a constant: {ast.unparse(expr)[:60]}")
        raise AnalysisError(f"not a constant: {ast.unparse(expr)[:60] if expr is not None else None}")

    def class_const(self, ci, name):
        o, e = self.lookup_attr(ci, name)
        if e is None:
            raise AnalysisError(f"anchor vanished: {ci.qualname}.{name}")
        return self.const(e, o.module, o)

    def global_const(self, short_mod, name):
        m = self.module(short_mod)
        if name not in m.globals:
            raise AnalysisError(f"anchor vanished: {short_mod}.{name}")
        return self.const(m.globals[name], m)

    # ---- registries ----------------------------------------------------
    def init_registry(self, ci):
        """`self['key'] = Class` statements of __init__ -> {KEY: ClassInfo}."""
        init = ci.methods.get("__init__")
        if init is None:
            raise AnalysisError(f"anchor vanished: {ci.qualname}.__init__")
        out = {}
        selfname = init.params[0]
        for st in ast.walk(init.node):
            if (isinstance(st, ast.Assign) and len(st.targets) == 1
                    and isinstance(st.targets[0], ast.Subscript)
                    and isinstance(st.targets[0].value, ast.Name)
                    and st.targets[0].value.id == selfname
                    and isinstance(st.targets[0].slice, ast.Constant)):
                key = str(st.targets[0].slice.value).upper()
                tgt = None
                if isinstance(st.value, ast.Name):
                    tgt = self.resolve_name(ci.module, st.value.id)
                if not isinstance(tgt, ClassInfo):
                    raise AnalysisError(
                        f"{ci.qualname}.__init__: registry entry {key} is "
                        f"not a resolvable class")
                out[key] = (tgt, st)
        return out

    def types_registry(self):
        tf = self.cls("prop.TypesFactory")
        reg = self.init_registry(tf)
        if len(reg) < 18:
            raise AnalysisError(f"TypesFactory registry shrank: {len(reg)}")
        return reg

    def types_map(self):
        """-> ({NAME: 'type-key'}, list of (name, value, node) raw entries)."""
        tf = self.cls("prop.TypesFactory")
        e = tf.attrs.get("types_map")
        if e is None:
            raise AnalysisError("anchor vanished: TypesFactory.types_map")
        if not (isinstance(e, ast.Call) and e.args
                and isinstance(e.args[0], ast.Dict)):
            raise AnalysisError("TypesFactory.types_map is not CaselessDict({...})")
        raw = []
        for k, v in zip(e.args[0].keys, e.args[0].values):
            raw.append((self.const(k, tf.module), self.const(v, tf.module), k))
        if len(raw) < 68:
            raise AnalysisError(f"types_map shrank: {len(raw)} entries")
        m = {}
        for k, v, _ in raw:
            m[str(k).upper()] = v
        return m, raw

    def types_default(self):
        """The default type key in TypesFactory.for_property."""
        f = self.own_method("prop.TypesFactory.for_property")
        for n in ast.walk(f.node):
            if (isinstance(n, ast.Call) and isinstance(n.func, ast.Attribute)
                    and n.func.attr == "get" and len(n.args) == 2
                    and isinstance(n.args[1], ast.Constant)):
                return n.args[1].value
        raise AnalysisError("for_property: default type not found")

    def class_for_property(self, name):
        """The codec class TypesFactory.for_property(name) returns - by
        interpreting for_property (E7) on a TypesFactory built by interpreting
        its __init__; the table reading below is only the fallback."""
        cache = self.__dict__.setdefault("_cfp_cache", {})
        if name.upper() in cache:
            return cache[name.upper()]
        res = None
        try:
            from .absint import Interp, ClassVal, AbsRaise, Unsupported
            it = self.__dict__.get("_cfp_interp")
            if it is None:
                it = Interp(self)
                it._tf = it.instantiate(self.cls("prop.TypesFactory"), [], {})
                self.__dict__["_cfp_interp"] = it
            it.steps = 0
            r = it.call(it.getattr(it._tf, "for_property"), [name], {})
            if isinstance(r, ClassVal):
                res = r.ci
        except Exception as e:      # Unsupported / AbsRaise / AnalysisError: fall back
            if type(e).__name__ not in ("Unsupported", "AbsRaise", "AnalysisError"):
                raise
            res = None
        if res is None:
            tm, _ = self.types_map()
            reg = self.types_registry()
            key = tm.get(name.upper(), self.types_default())
            ent = reg.get(str(key).upper())
            res = ent[0] if ent else None
        cache[name.upper()] = res
        return res

    def component_registry(self):
        cf = self.cls("cal.ComponentFactory")
        reg = self.init_registry(cf)
        if len(reg) < 9:
            raise AnalysisError(f"ComponentFactory registry shrank: {len(reg)}")
        return reg

    def component_classes(self):
        base = self.cls("cal.Component")
        return [base] + self.subclasses(base)

    # ---- descriptors -----------------------------------------------------
    def descriptors(self, ci):
        """Descriptor records visible on class ci (through MRO):
        name -> dict(kind, owner, ...).  Kinds: 'single' (create_single_property),
        'utc' (create_utc_property), 'property' (property(get,set,del)),
        'decorated' (@property)."""
        out = {}
        for c in reversed([x for x in self.mro(ci) if isinstance(x, ClassInfo)]):
            for name, e in c.attrs.items():
                rec = self._descriptor_from_expr(c, name, e)
                if rec is not None:
                    out[name] = rec
            for name, acc in c.properties.items():
                out[name] = {"kind": "decorated", "owner": c, "acc": acc}
            for name, f in c.methods.items():
                if name in out and name not in c.properties \
                        and name not in c.attrs:
                    del out[name]
        return out

    def _descriptor_from_expr(self, c, name, e, _depth=0):
        if _depth > 4:
            return None
        if isinstance(e, ast.Call) and isinstance(e.func, ast.Name):
            r = self.resolve_name(c.module, e.func.id)
            if isinstance(r, FuncInfo) and r.name in (
                    "create_single_property", "create_utc_property"):
                binding = self.bind_call(r, e, c.module, c)
                return {"kind": "single" if r.name.startswith("create_single")
                        else "utc", "owner": c, "factory": r,
                        "closure": binding, "call": e}
            if e.func.id == "property":
                acc = {}
                for slot, a in zip(("get", "set", "del"), e.args):
                    if isinstance(a, ast.Name):
                        fr = self.resolve_name(c.module, a.id)
                        if isinstance(fr, FuncInfo):
                            acc[slot] = fr
                return {"kind": "property", "owner": c, "acc": acc, "call": e}
        if isinstance(e, ast.Name):
            r = self.resolve_name(c.module, e.id)
            if isinstance(r, tuple) and r[0] == "global":
                return self._descriptor_from_expr(
                    c, name, r[1].globals[r[2]], _depth + 1)
            # same-class alias, e.g. `end = start`
            if e.id in c.properties:
                return {"kind": "decorated", "owner": c,
                        "acc": c.properties[e.id]}
        if isinstance(e, ast.Attribute) and isinstance(e.value, ast.Name):
            r = self.resolve_name(c.module, e.value.id)
            if isinstance(r, ClassInfo):
                o, ee = self.lookup_attr(r, e.attr)
                if ee is not None:
                    return self._descriptor_from_expr(o, name, ee, _depth + 1)
        return None

    def bind_call(self, f: FuncInfo, call: ast.Call, module, cls=None):
        """Bind call arguments to parameter names -> {param: ast expr}."""
        a = f.node.args
        names = [x.arg for x in a.posonlyargs + a.args]
        out = {}
        defaults = a.defaults
        for n, dflt in zip(names[len(names) - len(defaults):], defaults):
            out[n] = dflt
        for n, arg in zip(names, call.args):
            out[n] = arg
        for kw in call.keywords:
            if kw.arg:
                out[kw.arg] = kw.value
        return out


def load(root):
    src_root = os.path.join(root, "src", PKG)
    if not os.path.isdir(src_root):
        raise AnalysisError(f"no package at {src_root}")
    model = Model(root)
    for dirpath, dirnames, filenames in os.walk(src_root):
        dirnames[:] = sorted(d for d in dirnames if d not in SKIP_DIRS)
        for fn in sorted(filenames):
            if not fn.endswith(".py"):
                continue
            path = os.path.join(dirpath, fn)
            rel = os.path.relpath(path, root)
            parts = os.path.relpath(path, os.path.join(root, "src"))[:-3].split(os.sep)
            if parts[-1] == "__init__":
                parts = parts[:-1]
            name = ".".join(parts)
            with open(path, encoding="utf-8") as f:
                src = f.read()
            try:
                model.modules[name] = Module(name, path, rel, src)
            except SyntaxError as e:
                raise AnalysisError(f"cannot parse {rel}: {e}")
    return model


# ---- small AST helpers used by many rules ---------------------------------
def calls_in(node, pred=None):
    for n in ast.walk(node):
        if isinstance(n, ast.Call) and (pred is None or pred(n)):
            yield n


def call_name(call):
    """'foo' for foo(...), 'x.foo' attr name 'foo' for x.foo(...)."""
    f = call.func
    if isinstance(f, ast.Name):
        return f.id
    if isinstance(f, ast.Attribute):
        return f.attr
    return None


def is_method_call(call, attr, recv=None):
    f = call.func
    if not (isinstance(f, ast.Attribute) and f.attr == attr):
        return False
    if recv is None:
        return True
    return isinstance(f.value, ast.Name) and f.value.id == recv


def is_super_call(call, attr=None):
    f = call.func
    return (isinstance(f, ast.Attribute)
            and isinstance(f.value, ast.Call)
            and isinstance(f.value.func, ast.Name)
            and f.value.func.id == "super"
            and (attr is None or f.attr == attr))


def names_in(node):
    return {n.id for n in ast.walk(node) if isinstance(n, ast.Name)}


def walk_no_nested(node):
    """ast.walk that does not descend into nested function/class bodies."""
    todo = list(ast.iter_child_nodes(node))
    while todo:
        n = todo.pop()
        yield n
        if isinstance(n, (ast.FunctionDef, ast.AsyncFunctionDef, ast.ClassDef,
                          ast.Lambda)):
            continue
        todo.extend(ast.iter_child_nodes(n))


def parent_map(node):
    pm = {}
    for p in ast.walk(node):
        for c in ast.iter_child_nodes(p):
            pm[c] = p
    return pm


def body_without_docstring(fnode):
    b = fnode.body
    if b and isinstance(b[0], ast.Expr) and isinstance(b[0].value, ast.Constant) \
            and isinstance(b[0].value.value, str):
        return b[1:]
    return b
