"""C01 - parse -> serialise -> parse is stable and lossless.

Decided (structural necessary conditions): ATTACH, NEST, NAME, CODEC,
TEXT-STABLE, LAYOUT (shared with C03).  Not decided: equality of typed values
for every accepted text; nesting depth; numeric round trip of non-TEXT codecs.
"""
import ast

from ..core import AnalysisError
from ..flow import SymEnv, is_param, is_marker, dump
from ..model import ClassInfo, FuncInfo, walk_no_nested, body_without_docstring
from .. import fst
from ..textpath import TextPath
from .c07 import decide_equiv


def parse_loop(ctx):
    """Locate the pieces of Component.from_ical by role."""
    m = ctx.model
    comp = m.cls("cal.Component")
    fi = comp.methods.get("from_ical")
    if fi is None:
        raise AnalysisError("anchor vanished: Component.from_ical")
    loop = None
    for n in walk_no_nested(fi.node):
        if isinstance(n, ast.For) and any(
                isinstance(c, ast.Call) and isinstance(c.func, ast.Attribute)
                and c.func.attr == "from_ical" for c in ast.walk(n.iter)):
            loop = n
    if loop is None:
        raise AnalysisError("from_ical: loop over Contentlines.from_ical(st) not found")
    unpack = None
    for n in ast.walk(loop):
        if isinstance(n, ast.Assign) and isinstance(n.value, ast.Call) \
                and isinstance(n.value.func, ast.Attribute) \
                and n.value.func.attr == "parts" and isinstance(n.targets[0], ast.Tuple):
            unpack = n
    if unpack is None:
        raise AnalysisError("from_ical: `name, params, vals = line.parts()` not found")
    name_v, params_v, vals_v = [e.id for e in unpack.targets[0].elts]
    # the BEGIN / END / property dispatch
    disp = None
    for n in loop.body:
        if isinstance(n, ast.If) and isinstance(n.test, ast.Compare) \
                and isinstance(n.test.comparators[0], ast.Constant) \
                and n.test.comparators[0].value == "BEGIN":
            disp = n
    if disp is None:
        raise AnalysisError("from_ical: BEGIN/END/property dispatch not found")
    begin = disp.body
    end_if = disp.orelse[0] if disp.orelse and isinstance(disp.orelse[0], ast.If) else None
    if end_if is None or not (isinstance(end_if.test, ast.Compare)
                              and isinstance(end_if.test.comparators[0], ast.Constant)
                              and end_if.test.comparators[0].value == "END"):
        raise AnalysisError("from_ical: END branch not found")
    end = end_if.body
    prop = end_if.orelse
    return dict(fi=fi, loop=loop, unpack=unpack, name=name_v, params=params_v,
                vals=vals_v, begin=begin, end=end, prop=prop, comp=comp)


def run(ctx):
    m = ctx.model
    ctx.explanation = (
        "must-pass-through of `.params = params` between decoding and "
        "component.add in the parse loop; typestate of the component stack "
        "(push on BEGIN, guarded pop and attach-or-collect on END); unknown "
        "components keep their upper-cased name; registry closure of "
        "types_map/TypesFactory; Parse∘Emit∘Parse = Parse for TEXT and "
        "idempotence of the wire rewriting for identity codecs as transducer "
        "equivalences on the clean domain; writer/reader field layouts of "
        "the fixed-width codecs.")
    pl = parse_loop(ctx)
    _attach(ctx, pl)
    _nest(ctx, pl)
    _name(ctx, pl)
    _codec(ctx)
    _text_stable(ctx)
    from .c03 import layout_rule
    layout_rule(ctx, "C01/LAYOUT")


# ---------------------------------------------------------------------------
def _attach(ctx, pl):
    fi = pl["fi"]
    adds = [c for st in pl["prop"] for c in ast.walk(st)
            if isinstance(c, ast.Call) and isinstance(c.func, ast.Attribute)
            and c.func.attr == "add"
            and any(k.arg == "encode" and isinstance(k.value, ast.Constant)
                    and not k.value.value for k in c.keywords)]
    if len(adds) != 1:
        raise AnalysisError(f"from_ical: expected one component.add(..., encode=0), found {len(adds)}")
    add = adds[0]
    val = add.args[1]
    if not isinstance(val, ast.Name):
        raise AnalysisError("from_ical: added value is not a simple name")
    # enclosing block of the add statement
    blocks = []

    def find(stmts):
        for i, st in enumerate(stmts):
            if isinstance(st, ast.Expr) and st.value is add:
                blocks.append((stmts, i))
            for fld in ("body", "orelse", "finalbody"):
                if hasattr(st, fld):
                    find(getattr(st, fld))
            if isinstance(st, ast.Try):
                for h in st.handlers:
                    find(h.body)
    find(pl["prop"])
    stmts, idx = blocks[0]
    stored = None
    for st in stmts[:idx]:
        if isinstance(st, ast.Assign) and isinstance(st.targets[0], ast.Attribute) \
                and st.targets[0].attr == "params" \
                and isinstance(st.targets[0].value, ast.Name) \
                and st.targets[0].value.id == val.id:
            stored = st
    between_exit = any(isinstance(n, (ast.Continue, ast.Break, ast.Return))
                       for st in stmts[:idx] for n in ast.walk(st))
    ok = stored is not None and isinstance(stored.value, ast.Name) \
        and stored.value.id == pl["params"] and not between_exit
    ctx.check(ok, "C01/ATTACH", "params stored on every decoded value",
              "the parameters parsed from the line must be stored on the decoded "
              "value (`value.params = params`) on every path before "
              "component.add(name, value, encode=0)", fi.loc(add),
              detail=f"{val.id}.params = {pl['params']} precedes add()")
    # name passed to add is the parsed name
    ctx.check(isinstance(add.args[0], ast.Name) and add.args[0].id == pl["name"],
              "C01/ATTACH", "property stored under its parsed name",
              "component.add must be called with the name parsed from the line",
              fi.loc(add), detail=f"add({pl['name']}, …)")
    # every decoded value comes from factory(factory.from_ical(...)) and all
    # elements of the list are added (loop without filter)
    loops = [n for st in pl["prop"] for n in ast.walk(st) if isinstance(n, ast.For)
             and isinstance(n.target, ast.Name) and n.target.id == val.id]
    good = False
    if loops:
        lp = loops[0]
        src = lp.iter.id if isinstance(lp.iter, ast.Name) else None
        assigns = [n for st in pl["prop"] for n in ast.walk(st)
                   if isinstance(n, ast.Assign) and isinstance(n.targets[0], ast.Name)
                   and n.targets[0].id == src]
        shapes = []
        for a in assigns:
            v = a.value
            elt = v.elt if isinstance(v, ast.ListComp) else (v.elts[0] if isinstance(v, ast.List) and len(v.elts) == 1 else None)
            shapes.append(elt is not None and isinstance(elt, ast.Call)
                          and isinstance(elt.func, ast.Name)
                          and len(elt.args) == 1 and isinstance(elt.args[0], ast.Call)
                          and isinstance(elt.args[0].func, ast.Attribute)
                          and elt.args[0].func.attr == "from_ical"
                          and isinstance(elt.args[0].func.value, ast.Name)
                          and elt.args[0].func.value.id == elt.func.id)
        good = bool(assigns) and all(shapes) and not any(
            isinstance(n, (ast.If, ast.Continue, ast.Break)) for n in lp.body)
        ctx.extra["decode_sites"] = len(assigns)
    ctx.check(good, "C01/ATTACH", "every decoded value is added",
              "each value decoded from the line (factory(factory.from_ical(text))) "
              "must be added; the adding loop must not filter", fi.loc(add),
              detail="for v in parsed: v.params = params; component.add(name, v, encode=0)")
    # the factory is chosen by the property name
    fac = [n for st in pl["prop"] for n in ast.walk(st) if isinstance(n, ast.Assign)
           and isinstance(n.value, ast.Call) and isinstance(n.value.func, ast.Attribute)
           and n.value.func.attr == "for_property"]
    ctx.check(len(fac) == 1 and isinstance(fac[0].value.args[0], ast.Name)
              and fac[0].value.args[0].id == pl["name"], "C01/ATTACH",
              "value class chosen by property name",
              "the decoder must be types_factory.for_property(<parsed name>)",
              fi.loc(), detail="factory = types_factory.for_property(name)")
    # emission side: content_line reads params from the value
    cl = pl["comp"].methods.get("content_line")
    if cl is None:
        raise AnalysisError("anchor vanished: Component.content_line")
    env = SymEnv(cl.node)
    rets = [n for n in walk_no_nested(cl.node) if isinstance(n, ast.Return)]
    okc = False
    for r in rets:
        e = env.expand_at(r.value, r)
        if isinstance(e, ast.Call) and isinstance(e.func, ast.Attribute) \
                and e.func.attr == "from_parts" and len(e.args) >= 3:
            p = e.args[1]
            okc = (isinstance(p, ast.Call) and isinstance(p.func, ast.Name)
                   and p.func.id == "getattr" and is_param(p.args[0], cl.params[2])
                   and isinstance(p.args[1], ast.Constant) and p.args[1].value == "params"
                   and is_param(e.args[0], cl.params[1]) and is_param(e.args[2], cl.params[2]))
    ctx.check(okc, "C01/ATTACH", "serialisation re-emits value.params",
              "Component.content_line must pass the value's own `params` (and "
              "the name and value unchanged) to Contentline.from_parts", cl.loc(),
              detail="from_parts(name, getattr(value,'params',Parameters()), value)")


# ---------------------------------------------------------------------------
def _nest(ctx, pl):
    fi = pl["fi"]
    # stack / result variables: lists created empty before the loop
    inits = {}
    for st in body_without_docstring(fi.node):
        if st is pl["loop"]:
            break
        if isinstance(st, ast.Assign) and isinstance(st.value, ast.List) and not st.value.elts:
            inits[st.targets[0].id] = st
    # BEGIN: exactly one append of a freshly constructed component on a list
    pushes = [c for st in pl["begin"] for c in ast.walk(st)
              if isinstance(c, ast.Call) and isinstance(c.func, ast.Attribute)
              and c.func.attr == "append" and isinstance(c.func.value, ast.Name)
              and c.func.value.id in inits]
    if len(pushes) != 1:
        ctx.fail("C01/NEST", "BEGIN pushes exactly one component",
                 f"the BEGIN branch performs {len(pushes)} pushes", fi.loc())
        return
    stack = pushes[0].func.value.id
    pushed = pushes[0].args[0]
    created = [n for st in pl["begin"] for n in ast.walk(st) if isinstance(n, ast.Assign)
               and isinstance(n.targets[0], ast.Name) and isinstance(pushed, ast.Name)
               and n.targets[0].id == pushed.id and isinstance(n.value, ast.Call)]
    top_level_push = any(isinstance(st, ast.Expr) and st.value is pushes[0] for st in pl["begin"])
    ctx.check(bool(created) and top_level_push, "C01/NEST",
              "BEGIN pushes exactly one component",
              "every BEGIN line must push one freshly created component, "
              "unconditionally", fi.loc(pushes[0]),
              detail=f"{stack}.append(<new component>)")
    # END
    end = pl["end"]
    guard = None
    pop_i = None
    for i, st in enumerate(end):
        if isinstance(st, ast.If) and isinstance(st.test, ast.UnaryOp) \
                and isinstance(st.test.op, ast.Not) and isinstance(st.test.operand, ast.Name) \
                and st.test.operand.id == stack and st.body \
                and isinstance(st.body[-1], ast.Raise) and guard is None and pop_i is None:
            exc = st.body[-1].exc
            guard = (i, exc.func.id if isinstance(exc, ast.Call) and isinstance(exc.func, ast.Name) else None)
        if isinstance(st, ast.Assign) and isinstance(st.value, ast.Call) \
                and isinstance(st.value.func, ast.Attribute) and st.value.func.attr == "pop" \
                and isinstance(st.value.func.value, ast.Name) \
                and st.value.func.value.id == stack and not st.value.args:
            pop_i = i
            popped = st.targets[0].id
    ctx.check(guard is not None and pop_i is not None and guard[0] < pop_i
              and guard[1] == "ValueError", "C01/NEST", "END on empty stack raises ValueError",
              "an END without an open BEGIN must raise ValueError before "
              "stack.pop()", fi.loc(end[0]), detail="if not stack: raise ValueError")
    if pop_i is None:
        ctx.fail("C01/NEST", "END pops one component", "no stack.pop() in the END branch", fi.loc(end[0]))
        return
    npops = sum(1 for st in end for c in ast.walk(st) if isinstance(c, ast.Call)
                and isinstance(c.func, ast.Attribute) and c.func.attr == "pop"
                and isinstance(c.func.value, ast.Name) and c.func.value.id == stack)
    ctx.check(npops == 1, "C01/NEST", "END pops one component",
              f"the END branch pops {npops} components", fi.loc(end[pop_i]),
              detail="component = stack.pop()")
    # after the pop: if not stack: result.append(c) else: stack[-1].add_component(c)
    attach = None
    for st in end[pop_i + 1:]:
        if isinstance(st, ast.If) and isinstance(st.test, ast.UnaryOp) \
                and isinstance(st.test.operand, ast.Name) and st.test.operand.id == stack:
            attach = st
            break
        if any(isinstance(n, (ast.Continue, ast.Break, ast.Return)) for n in ast.walk(st)):
            break
    ok_collect = ok_attach = False
    result = None
    if attach is not None and len(attach.body) == 1 and len(attach.orelse) == 1:
        b, o = attach.body[0], attach.orelse[0]
        if isinstance(b, ast.Expr) and isinstance(b.value, ast.Call) \
                and isinstance(b.value.func, ast.Attribute) and b.value.func.attr == "append" \
                and isinstance(b.value.func.value, ast.Name) and b.value.func.value.id in inits \
                and b.value.func.value.id != stack \
                and isinstance(b.value.args[0], ast.Name) and b.value.args[0].id == popped:
            ok_collect = True
            result = b.value.func.value.id
        if isinstance(o, ast.Expr) and isinstance(o.value, ast.Call) \
                and isinstance(o.value.func, ast.Attribute) \
                and o.value.func.attr == "add_component" \
                and isinstance(o.value.func.value, ast.Subscript) \
                and isinstance(o.value.func.value.value, ast.Name) \
                and o.value.func.value.value.id == stack \
                and dump(o.value.func.value.slice) == "-1" \
                and isinstance(o.value.args[0], ast.Name) and o.value.args[0].id == popped:
            ok_attach = True
    ctx.check(ok_collect, "C01/NEST", "top-level component is collected",
              "a component closed at depth 0 must be appended to the result list",
              fi.loc(end[pop_i]), detail="if not stack: comps.append(component)")
    ctx.check(ok_attach, "C01/NEST", "nested component attached to its parent",
              "a component closed at depth > 0 must be attached to the new top "
              "of the stack (stack[-1].add_component(component))",
              fi.loc(end[pop_i]), detail="stack[-1].add_component(component)")
    # add_component appends to subcomponents
    ac = pl["comp"].methods.get("add_component")
    okac = ac is not None and any(
        isinstance(c, ast.Call) and isinstance(c.func, ast.Attribute)
        and c.func.attr == "append" and isinstance(c.func.value, ast.Attribute)
        and c.func.value.attr == "subcomponents"
        and isinstance(c.args[0], ast.Name) and c.args[0].id == ac.params[1]
        for c in ast.walk(ac.node))
    ctx.check(okac, "C01/NEST", "add_component appends in order",
              "add_component must append the component to self.subcomponents",
              ac.loc() if ac else fi.loc(), detail="self.subcomponents.append(component)")
    # the `multiple` flag only selects between the list and its single element
    after = []
    seen = False
    for st in body_without_docstring(fi.node):
        if seen:
            after.append(st)
        if st is pl["loop"]:
            seen = True
    rets = [n for st in after for n in ast.walk(st) if isinstance(n, ast.Return)]
    good = len(rets) == 2 and result is not None
    if good:
        r_multi = [r for r in rets if isinstance(r.value, ast.Name) and r.value.id == result]
        r_single = [r for r in rets if isinstance(r.value, ast.Subscript)
                    and isinstance(r.value.value, ast.Name) and r.value.value.id == result
                    and dump(r.value.slice) == "0"]
        good = len(r_multi) == 1 and len(r_single) == 1
    ctx.check(good, "C01/NEST", "multiple selects list or single element",
              "from_ical must return the collected list (multiple=True) or its "
              "only element", fi.loc(), detail="return comps / return comps[0]")
    raises = [n for st in after for n in ast.walk(st) if isinstance(n, ast.Raise)]
    ctx.check(len(raises) == 2 and all(
        isinstance(r.exc, ast.Call) and isinstance(r.exc.func, ast.Name)
        and r.exc.func.id == "ValueError" for r in raises), "C01/NEST",
        "wrong component count is a ValueError",
        "0 or >1 top-level components (single mode) must raise ValueError",
        fi.loc(), detail="2 raises of ValueError")


# ---------------------------------------------------------------------------
def _name(ctx, pl):
    m = ctx.model
    fi = pl["fi"]
    begin = pl["begin"]
    # c_name = vals.upper(); component.name = c_name when the class has none
    folded = None
    for st in begin:
        if isinstance(st, ast.Assign) and isinstance(st.value, ast.Call) \
                and isinstance(st.value.func, ast.Attribute) and st.value.func.attr == "upper" \
                and isinstance(st.value.func.value, ast.Name) \
                and st.value.func.value.id == pl["vals"]:
            folded = st.targets[0].id
    sets = [n for st in begin for n in ast.walk(st) if isinstance(n, ast.Assign)
            and isinstance(n.targets[0], ast.Attribute) and n.targets[0].attr == "name"]
    push_line = max((c.lineno for st in begin for c in ast.walk(st)
                     if isinstance(c, ast.Call) and isinstance(c.func, ast.Attribute)
                     and c.func.attr == "append"), default=0)
    ok = folded is not None and len(sets) == 1 and isinstance(sets[0].value, ast.Name) \
        and sets[0].value.id == folded and sets[0].lineno < push_line
    ctx.check(ok, "C01/NAME", "unknown component keeps its name",
              "a component created for an unknown BEGIN value must get "
              "name = <upper-cased BEGIN value> before it is pushed (needed to "
              "re-emit BEGIN:<name>/END:<name>)", fi.loc(begin[0]),
              detail="component.name = vals.upper()")
    look = [c for st in begin for c in ast.walk(st) if isinstance(c, ast.Call)
            and isinstance(c.func, ast.Attribute) and c.func.attr == "get"
            and isinstance(c.func.value, ast.Name) and c.func.value.id == "component_factory"]
    ctx.check(len(look) == 1 and len(look[0].args) == 2
              and isinstance(look[0].args[1], ast.Name) and look[0].args[1].id == "Component",
              "C01/NAME", "unknown names fall back to Component",
              "component_factory.get(name, Component) must fall back to the "
              "generic Component", fi.loc(), detail="get(c_name, Component)")
    for key, (ci, node) in m.component_registry().items():
        cname = m.class_const(ci, "name")
        ctx.check(cname == key, "C01/NAME", f"registry {key}",
                  f"component_factory[{key!r}] = {ci.name} but {ci.name}.name = "
                  f"{cname!r}: BEGIN:{key} re-serialises as BEGIN:{cname}",
                  ci.loc(), detail=f"{ci.name}.name == {key!r}")
    # property_items emits BEGIN/END with self.name
    pi = pl["comp"].methods.get("property_items")
    src = dump(pi.node)
    ctx.check(src.count("self.name") >= 2 and "'BEGIN'" in src and "'END'" in src,
              "C01/NAME", "BEGIN/END emitted from self.name",
              "property_items must emit BEGIN and END with self.name", pi.loc(),
              detail="('BEGIN', self.name) … ('END', self.name)")


# ---------------------------------------------------------------------------
def _codec(ctx):
    m = ctx.model
    reg = m.types_registry()
    tm, raw = m.types_map()
    default = m.types_default()
    tf = m.cls("prop.TypesFactory")
    ctx.check(str(default).upper() in reg, "C01/CODEC", "default type registered",
              f"for_property falls back to {default!r}, which is not registered",
              tf.loc(), detail=str(default))
    n_bad = 0
    for name, target, node in raw:
        if str(target).upper() not in reg:
            n_bad += 1
            ctx.fail("C01/CODEC", f"types_map {str(name).upper()}",
                     f"types_map[{name!r}] = {target!r} is not a registered "
                     f"value type: the property cannot be parsed (KeyError)",
                     tf.loc(node))
    if not n_bad:
        ctx.ok("C01/CODEC", "types_map targets registered", tf.loc(),
               f"{len(raw)} entries, all targets among {len(reg)} registered types")
    # duplicates must agree
    seen = {}
    for name, target, node in raw:
        k = str(name).upper()
        if k in seen and seen[k] != target:
            ctx.fail("C01/CODEC", f"types_map duplicate {k}",
                     f"{k} is listed twice with different types "
                     f"({seen[k]!r}, {target!r})", tf.loc(node))
        seen[k] = target
    for key, (ci, node) in reg.items():
        to_i = m.lookup_method(ci, "to_ical")
        fr_i = m.lookup_method(ci, "from_ical")
        ctor = ci.methods.get("__init__") or ci.methods.get("__new__") or \
            m.lookup_method(ci, "__init__") or m.lookup_method(ci, "__new__")
        one_arg = False
        if ctor is not None:
            a = ctor.node.args
            npos = len(a.posonlyargs) + len(a.args) - 1
            nreq = npos - len(a.defaults)
            one_arg = (nreq <= 1 <= npos) or a.vararg is not None
        fr_static = fr_i is not None and fr_i.kind in ("static", "class")
        ctx.check(to_i is not None and fr_i is not None and one_arg and fr_static,
                  "C01/CODEC", f"codec {key} -> {ci.name}",
                  f"{ci.name} registered for {key} must define to_ical, a "
                  f"static/class from_ical and accept one positional value "
                  f"(factory(factory.from_ical(text)))", ci.loc(),
                  detail="to_ical + from_ical + cls(x)")
    ctx.floor("C01/CODEC", 19)


# ---------------------------------------------------------------------------
def _text_stable(ctx):
    tp = TextPath(ctx)
    m = ctx.model
    n_other = 2 if ctx.thorough else 1
    # (1) first parse of well-formed RFC TEXT equals the RFC 5545 3.3.11
    # unescaping (single pass: \\\\ -> \\, \\; -> ;, \\, -> ,, \\n|\\N -> LF)
    dec = tp.compose(tp.value_stages + tp.dec, "vText.from_ical∘parts")
    spec = fst.Chain([fst.SinglePass({"\\\\": "\\", "\\;": ";", "\\,": ",",
                                      "\\n": "\n", "\\N": "\n"})], "RFC 5545 TEXT unescape")

    def dom(avoid):
        return fst.EscapedDomain("\\", "\\;,nN", avoid, forbidden="\n")
    decide_equiv(ctx, "C01/TEXT-DECODE", dec, spec,
                 "first parse of a well-formed RFC 5545 TEXT value",
                 tp.parts.loc(tp.parts_ret), n_other=n_other, domain=dom)
    # (2) the codec's own normalisation is stable: decode∘encode applied twice
    # equals once (second serialisation identical to the first)
    c = tp.codec()
    cc = fst.Chain(c.stages + c.stages, "(decode∘encode)²")
    from .c07 import known_factors
    base = known_factors("C07", "C07/FST-CODEC")
    decide_equiv(ctx, "C01/TEXT-STABLE", cc, c,
                 "TEXT value re-serialised and re-parsed", tp.vtext_to.loc(),
                 n_other=n_other, base_avoid=base)
    # (3) identity codecs (vUri, vCalAddress, vInline): the only rewriting is
    # the wire pass of Contentline.parts, which must be the identity
    for cname in ("vUri", "vCalAddress", "vInline"):
        ci = m.cls(f"prop.{cname}")
        to_i, fr_i = ci.methods.get("to_ical"), ci.methods.get("from_ical")
        if to_i is None or fr_i is None:
            raise AnalysisError(f"anchor vanished: {cname}.to_ical/from_ical")
        calls = {c_.func.id for f in (to_i, fr_i) for c_ in ast.walk(f.node)
                 if isinstance(c_, ast.Call) and isinstance(c_.func, ast.Name)}
        ctx.check(calls <= {"cls", "to_unicode", "ValueError"}, "C01/VALUE-WIRE",
                  f"{ci.name} codec is the identity",
                  f"{ci.name}.to_ical/from_ical apply a rewriting ({sorted(calls)}); "
                  f"the identity-codec obligation does not cover it", ci.loc(),
                  detail="encode/decode only")
    wire = tp.wire()
    decide_equiv(ctx, "C01/VALUE-WIRE", wire, fst.Chain([], "identity"),
                 "URI / CAL-ADDRESS / inline value through Contentline.parts",
                 tp.parts.loc(tp.parts_ret), n_other=n_other)
