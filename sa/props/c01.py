"""C01 - parse -> serialise -> parse is stable and lossless.

Decided (structural necessary conditions): PARSE-MODEL, EMIT-MODEL, NAME, CODEC,
TEXT-STABLE, LAYOUT (shared with C03).  Not decided: equality of typed values
for every accepted text; nesting depth; numeric round trip of non-TEXT codecs.
"""
import ast

from ..core import AnalysisError
from ..flow import SymEnv, is_param, is_marker, dump
from ..model import ClassInfo, FuncInfo, walk_no_nested, body_without_docstring
from .. import fst
from ..textpath import TextPath
from .c07 import decide_equiv


def parse_loop(ctx):
    """Locate the pieces of Component.from_ical by role."""
    m = ctx.model
    comp = m.cls("cal.Component")
    fi = comp.methods.get("from_ical")
    if fi is None:
        raise AnalysisError("anchor vanished: Component.from_ical")
    loop = None
    for n in walk_no_nested(fi.node):
        if isinstance(n, ast.For) and any(
                isinstance(c, ast.Call) and isinstance(c.func, ast.Attribute)
                and c.func.attr == "from_ical" for c in ast.walk(n.iter)):
            loop = n
    if loop is None:
        raise AnalysisError("from_ical: loop over Contentlines.from_ical(st) not found")
    unpack = None
    for n in ast.walk(loop):
        if isinstance(n, ast.Assign) and isinstance(n.value, ast.Call) \
                and isinstance(n.value.func, ast.Attribute) \
                and n.value.func.attr == "parts" and isinstance(n.targets[0], ast.Tuple):
            unpack = n
    if unpack is None:
        raise AnalysisError("from_ical: `name, params, vals = line.parts()` not found")
    name_v, params_v, vals_v = [e.id for e in unpack.targets[0].elts]
    # the BEGIN / END / property dispatch
    disp = None
    for n in loop.body:
        if isinstance(n, ast.If) and isinstance(n.test, ast.Compare) \
                and isinstance(n.test.comparators[0], ast.Constant) \
                and n.test.comparators[0].value == "BEGIN":
            disp = n
    if disp is None:
        raise AnalysisError("from_ical: BEGIN/END/property dispatch not found")
    begin = disp.body
    end_if = disp.orelse[0] if disp.orelse and isinstance(disp.orelse[0], ast.If) else None
    if end_if is None or not (isinstance(end_if.test, ast.Compare)
                              and isinstance(end_if.test.comparators[0], ast.Constant)
                              and end_if.test.comparators[0].value == "END"):
        raise AnalysisError("from_ical: END branch not found")
    end = end_if.body
    prop = end_if.orelse
    return dict(fi=fi, loop=loop, unpack=unpack, name=name_v, params=params_v,
                vals=vals_v, begin=begin, end=end, prop=prop, comp=comp)


def run(ctx):
    m = ctx.model
    ctx.explanation = (
        "abstract interpretation (E7) of the parse loop on all short sequences "
        "of abstract lines (component stack, parameter attachment, unknown "
        "component names, value accumulation) and of property_items/to_ical on "
        "abstract trees, compared with the statement; registry closure of "
        "types_map/TypesFactory; Parse∘Emit∘Parse = Parse for TEXT and "
        "idempotence of the wire rewriting for identity codecs as transducer "
        "equivalences on the clean domain; writer/reader field layouts of "
        "the fixed-width codecs.")
    _parse_model(ctx)
    _parse_pure(ctx)
    _emit_model(ctx)
    _value_param(ctx)
    # typed scalar values (numbers, positions, booleans, addresses ...) survive the value text
    from .. import codecmodel
    codecmodel.report(ctx, "C01/SCALARS", codecmodel.explore_scalars, codecmodel.SCALAR_LAWS,
                      ctx.model.cls("prop.vFloat").loc(), 30)
    _wire_models(ctx)
    _registry_names(ctx)
    _codec(ctx)
    _text_stable(ctx)
    from .c03 import layout_rule
    layout_rule(ctx, "C01/LAYOUT")


# ---------------------------------------------------------------------------
def _parse_model(ctx):
    """The parse loop interpreted (E7) on every short sequence of abstract
    lines and compared with the reference parse of the statement: nesting,
    attachment of parameters, names of unknown components, value splitting and
    accumulation, single/multiple result.  Only inputs without undecodable
    lines are C01's business (C04 takes the others); letter-case-only
    deviations belong to C09 and TZID forwarding to C11/C02."""
    from .. import parseloop
    parseloop.report(
        ctx, "C01/PARSE-MODEL",
        lambda d: not d["has_bad"] and d["exp"][0][0] == "ok"
        and d["cause"] not in ("TZID forwarding differs", "VTIMEZONE caching differs"),
        "nesting, names, parameters and values recovered from every line sequence",
        laws=("BEGIN pushes one new component of the registered class",
              "unknown component keeps its upper-cased name",
              "END pops one component: attached to its parent or collected at top level",
              "parameters of the line stored on every decoded value",
              "every decoded value added under its parsed name, in order",
              "comma-separated FREEBUSY values each decoded",
              "multiple=True returns all top-level components, else the only one"))


def _value_param(ctx):
    """If the parser lets a VALUE parameter pick the codec of an untyped (X-/IANA) property, the codec
    it picks accepts every RFC form of that value type (parse-loop probe + the real decoders, E7)."""
    from .. import parseloop
    fi = ctx.model.func("cal.Component.from_ical")
    n, bad, chosen = parseloop.value_probe(ctx)
    switched = sorted(k for k, v in chosen.items() if k and v != chosen[None])
    ctx.check(not bad, "C01/VALUE-PARAM", "codec chosen from the VALUE parameter accepts the RFC forms",
              f"an untyped property with VALUE={bad[0][0] if bad else None} is decoded by "
              f"{bad[0][1] if bad else None}, which rejects the RFC-valid value {bad[0][2] if bad else None!r} "
              f"({bad[0][3] if bad else None}): the line is dropped (VEVENT) or the parse fails, where it was "
              f"kept as text [{len(bad)} value forms: {[(b[0], b[2]) for b in bad][:6]}]", fi.loc(),
              witness={"line": f"X-PROBE;VALUE={bad[0][0]}:{bad[0][2]}"} if bad else None,
              detail=f"{n} probes; VALUE switches the codec for {switched or 'no value type'}")


def _wire_models(ctx):
    """The text between the tree and the bytes (E9 string model, shared with C05/C06/C08/C09):
    parameters and content lines written by the serialiser are read back unchanged, physical
    lines are split and unfolded exactly where the text says."""
    from .. import strmodel
    m = ctx.model
    strmodel.report(ctx, "C01/PARAM-WIRE", strmodel.explore_params_extended,
                    ["line round trip", "round trip", "history"],
                    m.own_method("parser.Parameters.from_ical").loc(), 300,
                    select=lambda law: law in ("line round trip", "round trip", "history"))
    strmodel.report(ctx, "C01/PHYS-MODEL", strmodel.explore_physical, ["reader", "unfold", "invariance"],
                    m.own_method("parser.Contentlines.from_ical").loc(), 100,
                    select=lambda law: law in ("reader", "unfold", "invariance"))


def _parse_pure(ctx):
    """What the parser does with a finished VTIMEZONE (building a time zone
    object from it) must leave the component it returns unchanged (E7)."""
    from .. import treemodel
    f = ctx.model.func("timezone.zoneinfo.ZONEINFO.create_timezone")
    treemodel.report(ctx, "C01/PARSE-PURE", treemodel.explore_create_timezone,
                     "time zone construction leaves the parsed VTIMEZONE unchanged", f.loc(), 2)


def _emit_model(ctx):
    """Emission side (E7 on abstract trees): BEGIN/END carry the component
    name, every stored value is emitted once under its name with its own
    parameters."""
    from .. import treemodel
    treemodel.report(ctx, "C01/EMIT-MODEL", treemodel.explore_emit,
                     "serialisation re-emits names, values and value.params",
                     ctx.model.func("cal.Component.property_items").loc(), 200)


def _registry_names(ctx):
    m = ctx.model
    for key, (ci, node) in m.component_registry().items():
        cname = m.class_const(ci, "name")
        ctx.check(cname == key, "C01/NAME", f"registry {key}",
                  f"component_factory[{key!r}] = {ci.name} but {ci.name}.name = "
                  f"{cname!r}: BEGIN:{key} re-serialises as BEGIN:{cname}",
                  ci.loc(), detail=f"{ci.name}.name == {key!r}")


# ---------------------------------------------------------------------------
def _codec(ctx):
    m = ctx.model
    reg = m.types_registry()
    tm, raw = m.types_map()
    default = m.types_default()
    tf = m.cls("prop.TypesFactory")
    ctx.check(str(default).upper() in reg, "C01/CODEC", "default type registered",
              f"for_property falls back to {default!r}, which is not registered",
              tf.loc(), detail=str(default))
    n_bad = 0
    for name, target, node in raw:
        if str(target).upper() not in reg:
            n_bad += 1
            ctx.fail("C01/CODEC", f"types_map {str(name).upper()}",
                     f"types_map[{name!r}] = {target!r} is not a registered "
                     f"value type: the property cannot be parsed (KeyError)",
                     tf.loc(node))
    if not n_bad:
        ctx.ok("C01/CODEC", "types_map targets registered", tf.loc(),
               f"{len(raw)} entries, all targets among {len(reg)} registered types")
    # duplicates must agree
    seen = {}
    for name, target, node in raw:
        k = str(name).upper()
        if k in seen and seen[k] != target:
            ctx.fail("C01/CODEC", f"types_map duplicate {k}",
                     f"{k} is listed twice with different types "
                     f"({seen[k]!r}, {target!r})", tf.loc(node))
        seen[k] = target
    for key, (ci, node) in reg.items():
        to_i = m.lookup_method(ci, "to_ical")
        fr_i = m.lookup_method(ci, "from_ical")
        ctor = ci.methods.get("__init__") or ci.methods.get("__new__") or \
            m.lookup_method(ci, "__init__") or m.lookup_method(ci, "__new__")
        one_arg = False
        if ctor is not None:
            a = ctor.node.args
            npos = len(a.posonlyargs) + len(a.args) - 1
            nreq = npos - len(a.defaults)
            one_arg = (nreq <= 1 <= npos) or a.vararg is not None
        fr_static = fr_i is not None and fr_i.kind in ("static", "class")
        ctx.check(to_i is not None and fr_i is not None and one_arg and fr_static,
                  "C01/CODEC", f"codec {key} -> {ci.name}",
                  f"{ci.name} registered for {key} must define to_ical, a "
                  f"static/class from_ical and accept one positional value "
                  f"(factory(factory.from_ical(text)))", ci.loc(),
                  detail="to_ical + from_ical + cls(x)")
    ctx.floor("C01/CODEC", 19)


# ---------------------------------------------------------------------------
def _text_stable(ctx):
    tp = TextPath(ctx)
    m = ctx.model
    n_other = 2 if ctx.thorough else 1
    # (1) first parse of well-formed RFC TEXT equals the RFC 5545 3.3.11
    # unescaping (single pass: \\\\ -> \\, \\; -> ;, \\, -> ,, \\n|\\N -> LF)
    dec = tp.compose(tp.value_stages + tp.dec, "vText.from_ical∘parts")
    spec = fst.Chain([fst.SinglePass({"\\\\": "\\", "\\;": ";", "\\,": ",",
                                      "\\n": "\n", "\\N": "\n"})], "RFC 5545 TEXT unescape")

    def dom(avoid):
        return fst.EscapedDomain("\\", "\\;,nN", avoid, forbidden="\n")
    decide_equiv(ctx, "C01/TEXT-DECODE", dec, spec,
                 "first parse of a well-formed RFC 5545 TEXT value",
                 tp.parts.loc(tp.parts_ret), n_other=n_other, domain=dom)
    # (2) the codec's own normalisation is stable: decode∘encode applied twice
    # equals once (second serialisation identical to the first)
    c = tp.codec()
    cc = fst.Chain(c.stages + c.stages, "(decode∘encode)²")
    from .c07 import known_factors
    base = known_factors("C07", "C07/FST-CODEC")
    decide_equiv(ctx, "C01/TEXT-STABLE", cc, c,
                 "TEXT value re-serialised and re-parsed", tp.vtext_to.loc(),
                 n_other=n_other, base_avoid=base)
    # (3) identity codecs (vUri, vCalAddress, vInline): the only rewriting is
    # the wire pass of Contentline.parts, which must be the identity
    for cname in ("vUri", "vCalAddress", "vInline"):
        ci = m.cls(f"prop.{cname}")
        to_i, fr_i = ci.methods.get("to_ical"), ci.methods.get("from_ical")
        if to_i is None or fr_i is None:
            raise AnalysisError(f"anchor vanished: {cname}.to_ical/from_ical")
        calls = {c_.func.id for f in (to_i, fr_i) for c_ in ast.walk(f.node)
                 if isinstance(c_, ast.Call) and isinstance(c_.func, ast.Name)}
        ctx.check(calls <= {"cls", "to_unicode", "ValueError"}, "C01/VALUE-WIRE",
                  f"{ci.name} codec is the identity",
                  f"{ci.name}.to_ical/from_ical apply a rewriting ({sorted(calls)}); "
                  f"the identity-codec obligation does not cover it", ci.loc(),
                  detail="encode/decode only")
    wire = tp.wire()
    decide_equiv(ctx, "C01/VALUE-WIRE", wire, fst.Chain([], "identity"),
                 "URI / CAL-ADDRESS / inline value through Contentline.parts",
                 tp.parts.loc(tp.parts_ret), n_other=n_other)
