"""C18 - used-timezone discovery is complete; adding missing timezones closes it.

Decided: TOTAL (the two queries let nothing escape: E3), COVER/MODEL (E7:
get_used_tzids, get_missing_tzids, add_missing_timezones and property_items
interpreted on abstract calendars and compared with the statement), CLOSE
(from_tzinfo stores the id it is given as TZID).  Not decided: that the generated VTIMEZONE is correct (C13).
"""
import ast

from ..core import AnalysisError
from ..flow import SymEnv, is_param, is_marker, dump
from ..model import walk_no_nested, body_without_docstring
from ..effects import Effects
from .c04 import SAFE_TABLE


def run(ctx):
    m = ctx.model
    ctx.explanation = (
        "exception-escape analysis of Calendar.get_used_tzids / get_missing_tzids "
        "(nothing may escape); abstract interpretation (E7) of get_used_tzids, "
        "get_missing_tzids, add_missing_timezones (with Timezone.from_tzid) and "
        "property_items on abstract calendars; def-use of the tzid argument of "
        "Timezone.from_tzinfo into add('TZID', …).")
    cal = m.cls("cal.Calendar")
    eff = Effects(m, SAFE_TABLE)
    # ---- TOTAL ------------------------------------------------------------
    for name in ("get_used_tzids", "get_missing_tzids"):
        f = cal.methods.get(name)
        if f is None:
            raise AnalysisError(f"anchor vanished: Calendar.{name}")
        esc = eff.escapes(f)
        n = 0
        for e, d in sorted(esc.items()):
            for o in d.values():
                r = o.root()
                n += 1
                ctx.fail("C18/TOTAL", f"{name} escapes {e} @ {r.func.qualname}: {r.what[:60]}",
                         f"Calendar.{name} may raise {e} ({r.what} in {r.func.qualname}); the "
                         f"query must never fail, whatever VTIMEZONEs the calendar contains; "
                         f"path {' <- '.join(o.chain()[:5])}", r.func.loc(r.node),
                         witness="a calendar with a VTIMEZONE that no property uses / without TZID")
        ctx.ok("C18/TOTAL", f"Calendar.{name} analysed", f.loc(),
               f"{len(eff.cg.cone([f]))} functions in the cone, {n} escapes")
    # ---- COVER / CLOSE: the three functions interpreted on abstract calendars
    from .. import treemodel
    gu = cal.methods["get_used_tzids"]
    treemodel.report(ctx, "C18/COVER", treemodel.explore_emit,
                     "property_items yields every value of every nested component",
                     m.func("cal.Component.property_items").loc(), 200)
    n, fails = treemodel.report(ctx, "C18/MODEL", treemodel.explore_tzids,
                                "used/missing/add_missing_timezones on abstract calendars",
                                gu.loc(), 30)
    am = cal.methods.get("add_missing_timezones")
    if am is None:
        raise AnalysisError("anchor vanished: Calendar.add_missing_timezones")
    tz = m.cls("cal.Timezone")
    ft = tz.methods.get("from_tzid")
    fti = tz.methods.get("from_tzinfo")
    if ft is None or fti is None:
        raise AnalysisError("anchor vanished: Timezone.from_tzid/from_tzinfo")
    envi = SymEnv(fti.node)
    adds = [c for c in ast.walk(fti.node) if isinstance(c, ast.Call) and isinstance(c.func, ast.Attribute)
            and c.func.attr == "add" and c.args and isinstance(c.args[0], ast.Constant)
            and str(c.args[0].value).upper() == "TZID"]
    ok_fti = False
    if len(adds) != 1:
        raise AnalysisError(f"Timezone.from_tzinfo: expected one add('TZID', …), found {len(adds)}")
    if len(adds) == 1:
        e = envi.expand_at(adds[0].args[1])
        # tzid is only replaced when it was None
        ok_fti = is_param(e, fti.params[2]) or dump(e) == "$unknown"
        if dump(e) == "$unknown":
            reass = [n for n in ast.walk(fti.node) if isinstance(n, ast.Assign)
                     and isinstance(n.targets[0], ast.Name) and n.targets[0].id == fti.params[2]]
            ok_fti = all(any(isinstance(p, ast.If) and "is None" in dump(p.test)
                             and any(n is x for x in ast.walk(p)) for p in ast.walk(fti.node))
                         for n in reass)
    ctx.check(ok_fti, "C18/CLOSE", "from_tzinfo stores the given id as TZID",
              "Timezone.from_tzinfo must store the tzid argument (derived only when None) as "
              "the TZID property", fti.loc(), detail='tz.add("TZID", tzid)')
