"""C18 - used-timezone discovery is complete; adding missing timezones closes it.

Decided: TOTAL (the two queries let nothing escape), COVER (the scan consumes
every value of every property of every nested component, unfiltered, and
reads the TZID through a guarded .params), CLOSE (the id queried is the id
stored in the generated VTIMEZONE; unknown ids are skipped; nothing else is
added).  Not decided: that the generated VTIMEZONE is correct (C13).
"""
import ast

from ..core import AnalysisError
from ..flow import SymEnv, is_param, is_marker, dump
from ..model import walk_no_nested, body_without_docstring
from ..effects import Effects
from .c04 import SAFE_TABLE


def run(ctx):
    m = ctx.model
    ctx.explanation = (
        "exception-escape analysis of Calendar.get_used_tzids / get_missing_tzids "
        "(nothing may escape); shape of the scan over property_items; parameter "
        "pass-through add_missing_timezones -> Timezone.from_tzid -> from_tzinfo "
        "-> add('TZID', …) by def-use expansion.")
    cal = m.cls("cal.Calendar")
    eff = Effects(m, SAFE_TABLE)
    # ---- TOTAL ------------------------------------------------------------
    for name in ("get_used_tzids", "get_missing_tzids"):
        f = cal.methods.get(name)
        if f is None:
            raise AnalysisError(f"anchor vanished: Calendar.{name}")
        esc = eff.escapes(f)
        n = 0
        for e, d in sorted(esc.items()):
            for o in d.values():
                r = o.root()
                n += 1
                ctx.fail("C18/TOTAL", f"{name} escapes {e} @ {r.func.qualname}: {r.what[:60]}",
                         f"Calendar.{name} may raise {e} ({r.what} in {r.func.qualname}); the "
                         f"query must never fail, whatever VTIMEZONEs the calendar contains; "
                         f"path {' <- '.join(o.chain()[:5])}", r.func.loc(r.node),
                         witness="a calendar with a VTIMEZONE that no property uses / without TZID")
        ctx.ok("C18/TOTAL", f"Calendar.{name} analysed", f.loc(),
               f"{len(eff.cg.cone([f]))} functions in the cone, {n} escapes")
    # ---- COVER ------------------------------------------------------------
    gu = cal.methods["get_used_tzids"]
    loops = [n for n in walk_no_nested(gu.node) if isinstance(n, ast.For)]
    if len(loops) != 1:
        raise AnalysisError("get_used_tzids: scan loop not found")
    lp = loops[0]
    it = lp.iter
    ok_src = (isinstance(it, ast.Call) and isinstance(it.func, ast.Attribute)
              and it.func.attr == "property_items" and isinstance(it.func.value, ast.Name)
              and it.func.value.id == gu.params[0])
    rec_off = ok_src and (any(k.arg == "recursive" and isinstance(k.value, ast.Constant)
                              and not k.value.value for k in it.keywords)
                          or (it.args and isinstance(it.args[0], ast.Constant) and not it.args[0].value))
    ctx.check(ok_src and not rec_off, "C18/COVER", "scan consumes property_items recursively",
              "get_used_tzids must iterate self.property_items(...) with recursion on: nested "
              "components (VEVENT in VCALENDAR, VALARM in VEVENT) carry the TZIDs", gu.loc(lp),
              detail="for name, value in self.property_items(sorted=False)")
    tgt_names = [e.id for e in lp.target.elts] if isinstance(lp.target, ast.Tuple) else []
    if len(tgt_names) != 2:
        raise AnalysisError("get_used_tzids: loop target is not (name, value)")
    name_v, value_v = tgt_names
    # no filtering by property name; the only condition is the params guard on the value
    conds = [n for n in ast.walk(lp) if isinstance(n, ast.If)]
    name_filters = [c for c in conds if any(isinstance(x, ast.Name) and x.id == name_v
                                            for x in ast.walk(c.test))]
    skips = [n for n in ast.walk(lp) if isinstance(n, (ast.Continue, ast.Break))]
    ctx.check(not name_filters and not skips, "C18/COVER", "no filtering by property name",
              f"the scan only looks at some property names (`{dump(name_filters[0].test)[:60] if name_filters else 'continue/break'}`): "
              f"a TZID on any other property (e.g. FREEBUSY, an X- property) is never "
              f"reported used or missing", gu.loc(name_filters[0]) if name_filters else gu.loc(lp),
              witness="FREEBUSY;TZID=Europe/Berlin:...", detail="every (name, value) is inspected")
    adds = [c for c in ast.walk(lp) if isinstance(c, ast.Call) and isinstance(c.func, ast.Attribute)
            and c.func.attr == "add"]
    ok_read = False
    for c in adds:
        a = c.args[0] if c.args else None
        ok_read |= (isinstance(a, ast.Call) and isinstance(a.func, ast.Attribute) and a.func.attr == "get"
                    and isinstance(a.func.value, ast.Attribute) and a.func.value.attr == "params"
                    and isinstance(a.func.value.value, ast.Name) and a.func.value.value.id == value_v
                    and a.args and isinstance(a.args[0], ast.Constant) and str(a.args[0].value).upper() == "TZID")
    guard = [c for c in conds if "hasattr" in dump(c.test) and "params" in dump(c.test)] or \
        ["getattr" in dump(lp)]
    ctx.check(ok_read and bool(guard), "C18/COVER", "TZID read through a guarded .params",
              "each value's TZID must be read with value.params.get('TZID') under a hasattr/getattr guard",
              gu.loc(lp), detail="if hasattr(value, 'params'): result.add(value.params.get('TZID'))")
    rets = [r for r in walk_no_nested(gu.node) if isinstance(r, ast.Return)]
    ctx.check(len(rets) == 1 and isinstance(rets[0].value, ast.BinOp) and isinstance(rets[0].value.op, ast.Sub)
              and "None" in dump(rets[0].value.right), "C18/COVER", "only None is removed from the result",
              "get_used_tzids must return the collected set minus {None}", gu.loc(), detail="result - {None}")
    # property_items yields every value of list-valued properties and recurses over all subcomponents
    from .c10 import balanced_rule
    balanced_rule(ctx, "C18/COVER")
    # get_missing_tzids: used ids minus the TZIDs of the VTIMEZONEs present
    gm = cal.methods["get_missing_tzids"]
    src = dump(gm.node)
    ok_m = "get_used_tzids()" in src and ".timezones" in src and (".discard(" in src or "-" in src)
    rets = [r for r in walk_no_nested(gm.node) if isinstance(r, ast.Return)]
    ctx.check(ok_m and len(rets) == 1, "C18/COVER", "missing = used minus present",
              "get_missing_tzids must start from get_used_tzids() and remove the tz_name of "
              "each VTIMEZONE in self.timezones", gm.loc(), detail="discard(timezone.tz_name)")
    tzs = cal.properties.get("timezones", {}).get("get")
    ctx.check(tzs is not None and 'walk("VTIMEZONE")' in dump(tzs.node).replace("'", '"'),
              "C18/COVER", "timezones walks VTIMEZONE", "Calendar.timezones must walk for VTIMEZONE",
              tzs.loc() if tzs else cal.loc(), detail='self.walk("VTIMEZONE")')
    # ---- CLOSE ------------------------------------------------------------
    am = cal.methods.get("add_missing_timezones")
    if am is None:
        raise AnalysisError("anchor vanished: Calendar.add_missing_timezones")
    loops = [n for n in walk_no_nested(am.node) if isinstance(n, ast.For)]
    if len(loops) != 1 or not isinstance(loops[0].target, ast.Name):
        raise AnalysisError("add_missing_timezones: loop over the missing ids not found")
    lp = loops[0]
    idv = lp.target.id
    src_ok = "get_missing_tzids()" in dump(lp.iter)
    ctx.check(src_ok, "C18/CLOSE", "iterates the missing ids",
              "add_missing_timezones must iterate self.get_missing_tzids()", am.loc(lp),
              detail=dump(lp.iter)[:50])
    calls = [c for c in ast.walk(lp) if isinstance(c, ast.Call) and isinstance(c.func, ast.Attribute)
             and c.func.attr == "from_tzid"]
    ok_pass = len(calls) == 1 and calls[0].args and isinstance(calls[0].args[0], ast.Name) \
        and calls[0].args[0].id == idv
    ctx.check(ok_pass, "C18/CLOSE", "queried id passed to from_tzid unchanged",
              "the id taken from get_missing_tzids must be passed to Timezone.from_tzid as is",
              am.loc(lp), detail=f"Timezone.from_tzid({idv}, …)")
    tries = [t for t in ast.walk(lp) if isinstance(t, ast.Try)]
    skip_ok = bool(tries) and any(
        [x.id for x in ast.walk(h.type) if isinstance(x, ast.Name)] == ["ValueError"]
        and isinstance(h.body[-1], ast.Continue) for t in tries for h in t.handlers if h.type)
    ctx.check(skip_ok, "C18/CLOSE", "unknown ids are skipped",
              "a ValueError from from_tzid (unknown id) must skip that id only", am.loc(lp),
              detail="except ValueError: continue")
    addc = [c for c in ast.walk(lp) if isinstance(c, ast.Call) and isinstance(c.func, ast.Attribute)
            and c.func.attr == "add_component"]
    outside = [c for c in ast.walk(am.node) if isinstance(c, ast.Call) and isinstance(c.func, ast.Attribute)
               and c.func.attr == "add_component" and not any(c is x for x in ast.walk(lp))]
    ctx.check(len(addc) == 1 and not outside, "C18/CLOSE", "one VTIMEZONE per missing id",
              "exactly the generated component of each missing id is added", am.loc(lp),
              detail="self.add_component(timezone) once per id")
    tz = m.cls("cal.Timezone")
    ft = tz.methods.get("from_tzid")
    fti = tz.methods.get("from_tzinfo")
    if ft is None or fti is None:
        raise AnalysisError("anchor vanished: Timezone.from_tzid/from_tzinfo")
    env = SymEnv(ft.node)
    rets = [r for r in walk_no_nested(ft.node) if isinstance(r, ast.Return)]
    ok_ft = False
    for r in rets:
        v = r.value
        if isinstance(v, ast.Call) and isinstance(v.func, ast.Attribute) and v.func.attr == "from_tzinfo" \
                and len(v.args) >= 2:
            ok_ft = is_param(env.expand_at(v.args[1], r), ft.params[1])
    ctx.check(ok_ft, "C18/CLOSE", "from_tzid passes its id through",
              "Timezone.from_tzid must hand the id it was given, unchanged, to from_tzinfo (a "
              "cleaned or normalised id gives a VTIMEZONE whose TZID no longer equals the used id)",
              ft.loc(), witness="TZID=/Europe/Berlin", detail="cls.from_tzinfo(tz, tzid, …)")
    envi = SymEnv(fti.node)
    adds = [c for c in ast.walk(fti.node) if isinstance(c, ast.Call) and isinstance(c.func, ast.Attribute)
            and c.func.attr == "add" and c.args and isinstance(c.args[0], ast.Constant)
            and str(c.args[0].value).upper() == "TZID"]
    ok_fti = False
    if len(adds) == 1:
        e = envi.expand_at(adds[0].args[1])
        # tzid is only replaced when it was None
        ok_fti = is_param(e, fti.params[2]) or dump(e) == "$unknown"
        if dump(e) == "$unknown":
            reass = [n for n in ast.walk(fti.node) if isinstance(n, ast.Assign)
                     and isinstance(n.targets[0], ast.Name) and n.targets[0].id == fti.params[2]]
            ok_fti = all(any(isinstance(p, ast.If) and "is None" in dump(p.test)
                             and any(n is x for x in ast.walk(p)) for p in ast.walk(fti.node))
                         for n in reass)
    ctx.check(ok_fti, "C18/CLOSE", "from_tzinfo stores the given id as TZID",
              "Timezone.from_tzinfo must store the tzid argument (derived only when None) as "
              "the TZID property", fti.loc(), detail='tz.add("TZID", tzid)')
