"""C09 - parse result invariant under insignificant rewrites.

Decided: CASE-TAINT (no raw-case string from Contentline.parts or from the
caller is compared with cased constants), EOL-FOLD (regex membership +
unfold-before-split ordering + blank-line skipping), BOM-BYTES (bytes entries
decode through to_unicode / utf-8-sig).
Not decided: equality of whole trees for all texts.
"""
import ast

from ..core import AnalysisError
from ..flow import SymEnv, is_param, is_marker, dump
from ..model import walk_no_nested, FuncInfo
from ..oracles import rfc
from .. import rx


def _cased_constant(model, f, expr, env_consts):
    """Is expr a constant (or a name bound to one) containing letters?"""
    try:
        if isinstance(expr, ast.Name) and expr.id in env_consts:
            v = env_consts[expr.id]
        else:
            v = model.const(expr, f.module, f.cls)
    except AnalysisError:
        return None

    if isinstance(v, tuple) and len(v) == 2 and v[0] in (
            "class", "func", "attr", "external"):
        return None

    def strs(x):
        if isinstance(x, str):
            yield x
        elif isinstance(x, (tuple, list, set, frozenset)):
            for y in x:
                yield from strs(y)
        elif isinstance(x, dict):
            for y in x:
                yield from strs(y)
    ss = list(strs(v))
    if ss and any(any(c.isalpha() for c in s) for s in ss):
        return ss
    return None


def case_taint(ctx, f, raw_names, rule):
    """Report comparisons of raw-case names with cased constants in f."""
    raw = set(raw_names)
    consts = {}
    # local constant bindings and alias propagation (flow-insensitive but
    # assignment-ordered: one forward pass over the statements)
    for n in ast.walk(f.node):
        if isinstance(n, ast.Assign) and len(n.targets) == 1 \
                and isinstance(n.targets[0], ast.Name):
            t = n.targets[0].id
            v = n.value
            try:
                consts[t] = ctx.model.const(v, f.module, f.cls)
                if not isinstance(consts[t], (str, tuple, list, set, dict)) or \
                        (isinstance(consts[t], tuple) and consts[t]
                         and consts[t][0] in ("name", "class", "func", "attr", "external", "global")):
                    del consts[t]
            except AnalysisError:
                pass
    changed = True
    folded = set()
    while changed:
        changed = False
        for n in ast.walk(f.node):
            if isinstance(n, ast.Assign) and len(n.targets) == 1 \
                    and isinstance(n.targets[0], ast.Name):
                t = n.targets[0].id
                v = n.value
                if isinstance(v, ast.Name) and v.id in raw and t not in raw:
                    raw.add(t)
                    changed = True
                # x = raw.split(..) / raw.strip() keep case
                if isinstance(v, ast.Call) and isinstance(v.func, ast.Attribute) \
                        and isinstance(v.func.value, ast.Name) \
                        and v.func.value.id in raw \
                        and v.func.attr in ("split", "strip", "lstrip", "rstrip",
                                            "replace") and t not in raw:
                    # reassigning the same name (vals = vals.split) stays raw
                    raw.add(t)
                    changed = True
    sites = []
    n_cmp = 0
    for n in ast.walk(f.node):
        if not isinstance(n, ast.Compare):
            continue
        ops = [n.left] + list(n.comparators)
        pairs = []
        for i, op in enumerate(n.ops):
            if isinstance(op, (ast.Eq, ast.NotEq, ast.In, ast.NotIn)):
                pairs.append((ops[i], ops[i + 1]))
        # a == b == c: equality is transitive, every pair is compared
        if len(n.ops) > 1 and all(isinstance(o, ast.Eq) for o in n.ops):
            pairs = [(x, y) for i, x in enumerate(ops) for y in ops[i + 1:]]
        for a, b in pairs:
            for x, y in ((a, b), (b, a)):
                if isinstance(x, ast.Name) and x.id in raw:
                    n_cmp += 1
                    cc = _cased_constant(ctx.model, f, y, consts)
                    if cc is None and isinstance(y, ast.Attribute) and y.attr == "name":
                        # component name constants are upper-case (C01/NAME)
                        cc = [f"<{dump(y)}: upper-case component name>"]
                    if cc is not None:
                        sites.append((n, x.id, cc))
    return sites, n_cmp, raw


def _case_model(ctx):
    """Letter case of BEGIN/END, component, property and parameter names,
    decided on the parse loop itself (E7, sa.parseloop)."""
    from .. import parseloop
    fi = ctx.model.func("cal.Component.from_ical")
    parseloop.report(ctx, "C09/CASE-MODEL", lambda d: d["case_only"],
                     "line sequences in mixed case parse like their upper-case spelling",
                     laws=("begin/end in any case", "component names in any case",
                           "property names in any case", "parameter names in any case"))
    diff = parseloop.case_probe(ctx)
    for name, (up, lo) in sorted(diff.items()):
        ctx.fail("C09/CASE-MODEL", f"property name {name}",
                 f"`{name.lower()};tzid=Z:v` is parsed differently from `{name};TZID=Z:v` "
                 f"(lower case: {lo}, upper case: {up})", fi.loc(),
                 witness=f"{name.lower()};tzid=Z:v")
    if not diff:
        ctx.ok("C09/CASE-MODEL", "every registered property name probed in both cases", fi.loc(),
               detail=f"{len(parseloop.tzid_probe(ctx)) // 2} names, with and without TZID")


def run(ctx):
    m = ctx.model
    ctx.explanation = (
        "raw-case taint from Contentline.parts()/caller-supplied names to "
        "comparisons with cased constants in the parse loop and in "
        "Component.add/_encode; regex membership of both line endings and the "
        "four fold forms; unfold-before-split ordering; utf-8-sig decoding of "
        "every bytes entry.")
    comp = m.cls("cal.Component")
    fi = comp.methods.get("from_ical")
    if fi is None:
        raise AnalysisError("anchor vanished: Component.from_ical")
    # raw names: tuple-unpack of <x>.parts()
    raw = set()
    for n in ast.walk(fi.node):
        if isinstance(n, ast.Assign) and isinstance(n.value, ast.Call) \
                and isinstance(n.value.func, ast.Attribute) \
                and n.value.func.attr == "parts" \
                and isinstance(n.targets[0], ast.Tuple):
            for e in n.targets[0].elts:
                if isinstance(e, ast.Name):
                    raw.add(e.id)
    if len(raw) != 3:
        ctx.note("Component.from_ical: `name, params, vals = line.parts()` not found; the "
                 "raw-case taint rule is skipped for the parse loop (C09/CASE-MODEL decides it)")
        raw = set()
    # params is a caseless container, not a raw string
    parts_f = m.own_method("parser.Contentline.parts")
    params_name = None
    for n in ast.walk(fi.node):
        if isinstance(n, ast.Assign) and isinstance(n.value, ast.Call) \
                and isinstance(n.value.func, ast.Attribute) \
                and n.value.func.attr == "parts":
            params_name = n.targets[0].elts[1].id
    raw_strs = raw - {params_name}
    sites, n_cmp, allraw = case_taint(ctx, fi, raw_strs, "C09/CASE-TAINT")
    seen = set()
    for node, var, consts in sites:
        role = "name" if var in (list(raw_strs)[0:0] or []) else var
        key = f"Component.from_ical {dump(node)[:60]}"
        if key in seen:
            continue
        seen.add(key)
        ctx.fail("C09/CASE-TAINT", key,
                 f"raw-case `{var}` from Contentline.parts() is compared with "
                 f"cased constant(s) {consts[:3]}: a lower-case spelling of the "
                 f"same name takes the other branch", fi.loc(node),
                 witness="dtstart;tzid=Europe/Berlin:20200101T000000 / freebusy:... / END:vtimezone")
    ctx.ok("C09/CASE-TAINT", "Component.from_ical raw-case comparisons examined",
           fi.loc(), f"{n_cmp} comparisons involve raw-case strings "
           f"({sorted(allraw)}); {len(sites)} against cased constants")
    if n_cmp < 1:
        # after a repair all comparisons may use the folded name; require that
        # the folded name exists then
        ups = [n for n in ast.walk(fi.node) if isinstance(n, ast.Call)
               and isinstance(n.func, ast.Attribute) and n.func.attr == "upper"]
        if not ups:
            raise AnalysisError("from_ical: neither raw comparisons nor .upper() found")
    # BEGIN/END and component lookup go through upper()
    ups = {}
    for n in ast.walk(fi.node):
        if isinstance(n, ast.Assign) and isinstance(n.value, ast.Call) \
                and isinstance(n.value.func, ast.Attribute) \
                and n.value.func.attr == "upper" \
                and isinstance(n.value.func.value, ast.Name) \
                and n.value.func.value.id in raw_strs \
                and isinstance(n.targets[0], ast.Name):
            ups[n.targets[0].id] = n.value.func.value.id
    begin_end = []
    for n in ast.walk(fi.node):
        if isinstance(n, ast.Compare) and isinstance(n.ops[0], ast.Eq) \
                and isinstance(n.comparators[0], ast.Constant) \
                and n.comparators[0].value in ("BEGIN", "END"):
            begin_end.append((n.comparators[0].value, n.left))
    for kw, left in begin_end:
        ctx.check(isinstance(left, ast.Name) and left.id in ups,
                  "C09/CASE-TAINT", f"from_ical {kw} test folded",
                  f"the {kw} test must compare the upper-cased name", fi.loc(left),
                  detail=f"{dump(left)} == '{kw}'")
    if len(begin_end) < 2:
        raise AnalysisError("from_ical: BEGIN/END tests not found")
    # component factory lookup with folded value
    look = [c for c in ast.walk(fi.node) if isinstance(c, ast.Call)
            and isinstance(c.func, ast.Attribute) and c.func.attr == "get"
            and isinstance(c.func.value, ast.Name)
            and c.func.value.id == "component_factory"]
    ctx.check(len(look) == 1 and isinstance(look[0].args[0], ast.Name)
              and look[0].args[0].id in ups, "C09/CASE-TAINT",
              "from_ical component lookup folded",
              "component class lookup must use the upper-cased BEGIN value",
              fi.loc(), detail="component_factory.get(vals.upper(), Component)")

    # caller-supplied names in add/_encode
    for meth in ("add", "_encode", "decoded", "_decode"):
        f = comp.methods.get(meth)
        if f is None:
            raise AnalysisError(f"anchor vanished: Component.{meth}")
        if "name" not in f.params:
            continue
        s2, n2, _ = case_taint(ctx, f, {"name"}, "C09/CASE-TAINT")
        ctx.check(not s2, "C09/CASE-TAINT", f"Component.{meth} name comparisons",
                  f"caller-supplied property name compared raw with "
                  f"{s2[0][2][:3] if s2 else ''}", f.loc(s2[0][0]) if s2 else f.loc(),
                  detail=f"{n2} raw comparisons, none against cased constants")

    # ---- EOL-FOLD ----------------------------------------------------------
    newline = rx.repo_rx(m, "parser", "NEWLINE")
    ufold = rx.repo_rx(m, "parser", "uFOLD")
    for lb in rfc.LINE_BREAKS:
        ctx.check(rx.accepts(rx.Lang(newline, "full"), lb), "C09/EOL-FOLD",
                  f"NEWLINE accepts {lb!r}", f"line break {lb!r} is not matched "
                  f"by NEWLINE: such files parse as one line", None,
                  detail="member")
    for fold in rfc.FOLD_FORMS:
        ctx.check(rx.accepts(rx.Lang(ufold, "full"), fold), "C09/EOL-FOLD",
                  f"uFOLD accepts {fold!r}", f"fold {fold!r} is not removed by "
                  f"uFOLD", None, detail="member")
    # NEWLINE must not match anything without a line feed (would split content)
    okk, wit = rx.all_contain(rx.Lang(newline, "full"), 10)
    ctx.check(okk, "C09/EOL-FOLD", "NEWLINE only matches line breaks",
              "NEWLINE matches a string without LF: content would be split",
              None, witness=wit, detail="every match contains LF")
    cls_from = m.own_method("parser.Contentlines.from_ical")
    env = SymEnv(cls_from.node)
    st_p = cls_from.params[1]
    splits = [c for c in ast.walk(cls_from.node) if isinstance(c, ast.Call)
              and isinstance(c.func, ast.Attribute) and c.func.attr == "split"
              and isinstance(c.func.value, ast.Name) and c.func.value.id == "NEWLINE"]
    if len(splits) != 1:
        raise AnalysisError("Contentlines.from_ical: NEWLINE.split(...) not found")
    arg = env.expand_at(splits[0].args[0])
    unfold_first = (isinstance(arg, ast.Call) and isinstance(arg.func, ast.Attribute)
                    and arg.func.attr == "sub" and isinstance(arg.func.value, ast.Name)
                    and arg.func.value.id == "uFOLD" and len(arg.args) == 2
                    and isinstance(arg.args[0], ast.Constant) and arg.args[0].value == "")
    ctx.check(unfold_first, "C09/EOL-FOLD", "unfold precedes split",
              f"lines are split on `{dump(arg)[:70]}`: folds must be removed "
              f"(uFOLD.sub('', text)) before splitting into lines",
              cls_from.loc(splits[0]), detail="NEWLINE.split(uFOLD.sub('', st))")
    if unfold_first:
        inner = arg.args[1]
        dec = (isinstance(inner, ast.Call) and isinstance(inner.func, ast.Name)
               and inner.func.id == "to_unicode" and is_param(inner.args[0], st_p)
               and len(inner.args) == 1 and not inner.keywords)
        ctx.check(dec, "C09/BOM-BYTES", "Contentlines.from_ical decodes first",
                  "the input must pass through to_unicode(st) (utf-8-sig) before "
                  "unfolding", cls_from.loc(), detail="to_unicode(st)")
    # blank lines skipped
    comp_gen = None
    for n in ast.walk(cls_from.node):
        if isinstance(n, (ast.GeneratorExp, ast.ListComp)) and \
                any(s is splits[0] for g in n.generators for s in ast.walk(g.iter)):
            comp_gen = n
    skip = comp_gen is not None and any(
        isinstance(i, ast.Name) and i.id == comp_gen.generators[0].target.id
        for i in comp_gen.generators[0].ifs)
    ctx.check(skip, "C09/EOL-FOLD", "blank lines skipped",
              "empty physical lines (trailing blank lines) must be dropped when "
              "splitting", cls_from.loc(), detail="... for line in split if line")
    # (the parse loop's handling of the empty terminator line is part of the
    #  parse model below: every explored sequence ends with it)
    _case_model(ctx)

    # ---- BOM-BYTES ---------------------------------------------------------
    tu = m.func("parser_tools.to_unicode")
    a = tu.node.args
    dflt = None
    if a.defaults:
        dflt = m.const(a.defaults[-1], tu.module)
    ctx.check(dflt == "utf-8-sig", "C09/BOM-BYTES", "to_unicode default codec",
              f"to_unicode decodes bytes with {dflt!r} by default; utf-8-sig is "
              f"needed to drop a leading BOM", tu.loc(), detail="utf-8-sig")
    fallback = [c for c in ast.walk(tu.node) if isinstance(c, ast.Call)
                and isinstance(c.func, ast.Attribute) and c.func.attr == "decode"]
    fb_ok = all((isinstance(c.args[0], ast.Name) and c.args[0].id == tu.params[1])
                or (isinstance(c.args[0], ast.Constant) and c.args[0].value == "utf-8-sig")
                for c in fallback if c.args)
    ctx.check(bool(fallback) and fb_ok, "C09/BOM-BYTES", "to_unicode fallback codec",
              "the replace-fallback decode must also use utf-8-sig", tu.loc(),
              detail=f"{len(fallback)} decode calls")
    # str passes through unchanged
    ident = any(isinstance(s, ast.If) and "isinstance" in dump(s.test)
                and "str" in dump(s.test)
                and isinstance(s.body[0], ast.Return)
                and isinstance(s.body[0].value, ast.Name)
                and s.body[0].value.id == tu.params[0]
                for s in ast.walk(tu.node))
    ctx.check(ident, "C09/BOM-BYTES", "to_unicode identity on str",
              "a str input must be returned unchanged (str and bytes inputs "
              "then follow the same path)", tu.loc(), detail="return value")
    clf = m.own_method("parser.Contentline.from_ical")
    envc = SymEnv(clf.node)
    rets = [n for n in walk_no_nested(clf.node) if isinstance(n, ast.Return)]
    okc = False
    for r in rets:
        ex = envc.expand_at(r.value, r)
        s = dump(ex)
        okc = "to_unicode(" in s and "uFOLD.sub('', " in s
    ctx.check(okc, "C09/BOM-BYTES", "Contentline.from_ical decodes and unfolds",
              "Contentline.from_ical must decode with to_unicode and unfold",
              clf.loc(), detail="cls(uFOLD.sub('', to_unicode(ical)))")
    # uFOLD denotes exactly the fold language; FOLD (bytes twin) agrees
    from .c06 import unfold_rule
    unfold_rule(ctx, "C09/EOL-FOLD")
    ctx.floor("C09/EOL-FOLD", 9)
    ctx.floor("C09/CASE-TAINT", 5)
