"""C09 - parse result invariant under insignificant rewrites.

Decided: CASE-TAINT (no raw-case string from Contentline.parts or from the
caller is compared with cased constants), CASE-MODEL (E7 parse loop on mixed
case lines), EOL-FOLD (regex language facts, E5), PHYS-MODEL (E9: the logical
lines are invariant under LF/CRLF, BOM, str/bytes, every fold placement with
space or tab, blank lines).
Not decided: equality of whole trees for all texts.
"""
import ast

from ..core import AnalysisError
from ..flow import SymEnv, is_param, is_marker, dump
from ..model import walk_no_nested, FuncInfo
from ..oracles import rfc
from .. import rx


def _cased_constant(model, f, expr, env_consts):
    """Is expr a constant (or a name bound to one) containing letters?"""
    try:
        if isinstance(expr, ast.Name) and expr.id in env_consts:
            v = env_consts[expr.id]
        else:
            v = model.const(expr, f.module, f.cls)
    except AnalysisError:
        return None

    if isinstance(v, tuple) and len(v) == 2 and v[0] in (
            "class", "func", "attr", "external"):
        return None

    def strs(x):
        if isinstance(x, str):
            yield x
        elif isinstance(x, (tuple, list, set, frozenset)):
            for y in x:
                yield from strs(y)
        elif isinstance(x, dict):
            for y in x:
                yield from strs(y)
    ss = list(strs(v))
    if ss and any(any(c.isalpha() for c in s) for s in ss):
        return ss
    return None


def case_taint(ctx, f, raw_names, rule):
    """Report comparisons of raw-case names with cased constants in f."""
    raw = set(raw_names)
    consts = {}
    # local constant bindings and alias propagation (flow-insensitive but
    # assignment-ordered: one forward pass over the statements)
    for n in ast.walk(f.node):
        if isinstance(n, ast.Assign) and len(n.targets) == 1 \
                and isinstance(n.targets[0], ast.Name):
            t = n.targets[0].id
            v = n.value
            try:
                consts[t] = ctx.model.const(v, f.module, f.cls)
                if not isinstance(consts[t], (str, tuple, list, set, dict)) or \
                        (isinstance(consts[t], tuple) and consts[t]
                         and consts[t][0] in ("name", "class", "func", "attr", "external", "global")):
                    del consts[t]
            except AnalysisError:
                pass
    changed = True
    folded = set()
    while changed:
        changed = False
        for n in ast.walk(f.node):
            if isinstance(n, ast.Assign) and len(n.targets) == 1 \
                    and isinstance(n.targets[0], ast.Name):
                t = n.targets[0].id
                v = n.value
                if isinstance(v, ast.Name) and v.id in raw and t not in raw:
                    raw.add(t)
                    changed = True
                # x = raw.split(..) / raw.strip() keep case
                if isinstance(v, ast.Call) and isinstance(v.func, ast.Attribute) \
                        and isinstance(v.func.value, ast.Name) \
                        and v.func.value.id in raw \
                        and v.func.attr in ("split", "strip", "lstrip", "rstrip",
                                            "replace") and t not in raw:
                    # reassigning the same name (vals = vals.split) stays raw
                    raw.add(t)
                    changed = True
    sites = []
    n_cmp = 0
    for n in ast.walk(f.node):
        if not isinstance(n, ast.Compare):
            continue
        ops = [n.left] + list(n.comparators)
        pairs = []
        for i, op in enumerate(n.ops):
            if isinstance(op, (ast.Eq, ast.NotEq, ast.In, ast.NotIn)):
                pairs.append((ops[i], ops[i + 1]))
        # a == b == c: equality is transitive, every pair is compared
        if len(n.ops) > 1 and all(isinstance(o, ast.Eq) for o in n.ops):
            pairs = [(x, y) for i, x in enumerate(ops) for y in ops[i + 1:]]
        for a, b in pairs:
            for x, y in ((a, b), (b, a)):
                if isinstance(x, ast.Name) and x.id in raw:
                    n_cmp += 1
                    cc = _cased_constant(ctx.model, f, y, consts)
                    if cc is None and isinstance(y, ast.Attribute) and y.attr == "name":
                        # component name constants are upper-case (C01/NAME)
                        cc = [f"<{dump(y)}: upper-case component name>"]
                    if cc is not None:
                        sites.append((n, x.id, cc))
    return sites, n_cmp, raw


def _case_model(ctx):
    """Letter case of BEGIN/END, component, property and parameter names,
    decided on the parse loop itself (E7, sa.parseloop)."""
    from .. import parseloop
    fi = ctx.model.func("cal.Component.from_ical")
    parseloop.report(ctx, "C09/CASE-MODEL", lambda d: d["case_only"],
                     "line sequences in mixed case parse like their upper-case spelling",
                     laws=("begin/end in any case", "component names in any case",
                           "property names in any case", "parameter names in any case"))
    diff = parseloop.case_probe(ctx)
    for name, (up, lo) in sorted(diff.items()):
        ctx.fail("C09/CASE-MODEL", f"property name {name}",
                 f"`{name.lower()};tzid=Z:v` is parsed differently from `{name};TZID=Z:v` "
                 f"(lower case: {lo}, upper case: {up})", fi.loc(),
                 witness=f"{name.lower()};tzid=Z:v")
    if not diff:
        ctx.ok("C09/CASE-MODEL", "every registered property name probed in both cases", fi.loc(),
               detail=f"{len(parseloop.tzid_probe(ctx)) // 2} names, with and without TZID")


def run(ctx):
    m = ctx.model
    ctx.explanation = (
        "raw-case taint from Contentline.parts()/caller-supplied names to "
        "comparisons with cased constants in the parse loop and in "
        "Component.add/_encode; regex membership of both line endings and the "
        "four fold forms; unfold-before-split ordering; utf-8-sig decoding of "
        "every bytes entry.")
    comp = m.cls("cal.Component")
    fi = comp.methods.get("from_ical")
    if fi is None:
        raise AnalysisError("anchor vanished: Component.from_ical")
    # raw names: tuple-unpack of <x>.parts()
    raw = set()
    for n in ast.walk(fi.node):
        if isinstance(n, ast.Assign) and isinstance(n.value, ast.Call) \
                and isinstance(n.value.func, ast.Attribute) \
                and n.value.func.attr == "parts" \
                and isinstance(n.targets[0], ast.Tuple):
            for e in n.targets[0].elts:
                if isinstance(e, ast.Name):
                    raw.add(e.id)
    if len(raw) != 3:
        ctx.note("Component.from_ical: `name, params, vals = line.parts()` not found; the "
                 "raw-case taint rule is skipped for the parse loop (C09/CASE-MODEL decides it)")
        raw = set()
    # params is a caseless container, not a raw string
    parts_f = m.own_method("parser.Contentline.parts")
    params_name = None
    for n in ast.walk(fi.node):
        if isinstance(n, ast.Assign) and isinstance(n.value, ast.Call) \
                and isinstance(n.value.func, ast.Attribute) \
                and n.value.func.attr == "parts":
            params_name = n.targets[0].elts[1].id
    raw_strs = raw - {params_name}
    sites, n_cmp, allraw = case_taint(ctx, fi, raw_strs, "C09/CASE-TAINT")
    seen = set()
    for node, var, consts in sites:
        role = "name" if var in (list(raw_strs)[0:0] or []) else var
        key = f"Component.from_ical {dump(node)[:60]}"
        if key in seen:
            continue
        seen.add(key)
        ctx.fail("C09/CASE-TAINT", key,
                 f"raw-case `{var}` from Contentline.parts() is compared with "
                 f"cased constant(s) {consts[:3]}: a lower-case spelling of the "
                 f"same name takes the other branch", fi.loc(node),
                 witness="dtstart;tzid=Europe/Berlin:20200101T000000 / freebusy:... / END:vtimezone")
    ctx.ok("C09/CASE-TAINT", "Component.from_ical raw-case comparisons examined",
           fi.loc(), f"{n_cmp} comparisons involve raw-case strings "
           f"({sorted(allraw)}); {len(sites)} against cased constants")
    if n_cmp < 1:
        # after a repair all comparisons may use the folded name; require that
        # the folded name exists then
        ups = [n for n in ast.walk(fi.node) if isinstance(n, ast.Call)
               and isinstance(n.func, ast.Attribute) and n.func.attr == "upper"]
        if not ups:
            # the loop was restructured (comparisons and case folding live in helpers): the
            # shape rule has nothing to look at; C09/CASE-MODEL interprets the loop and decides
            ctx.note("Component.from_ical: neither raw-case comparisons nor .upper() in the function "
                     "itself; the raw-case taint rule does not apply (C09/CASE-MODEL decides)")
    # (BEGIN/END tests and the component lookup: decided by C09/CASE-MODEL)
    # caller-supplied names in add/_encode
    for meth in ("add", "_encode", "decoded", "_decode"):
        f = comp.methods.get(meth)
        if f is None:
            raise AnalysisError(f"anchor vanished: Component.{meth}")
        if "name" not in f.params:
            continue
        s2, n2, _ = case_taint(ctx, f, {"name"}, "C09/CASE-TAINT")
        ctx.check(not s2, "C09/CASE-TAINT", f"Component.{meth} name comparisons",
                  f"caller-supplied property name compared raw with "
                  f"{s2[0][2][:3] if s2 else ''}", f.loc(s2[0][0]) if s2 else f.loc(),
                  detail=f"{n2} raw comparisons, none against cased constants")

    # ---- EOL-FOLD ----------------------------------------------------------
    newline = rx.repo_rx(m, "parser", "NEWLINE")
    ufold = rx.repo_rx(m, "parser", "uFOLD")
    for lb in rfc.LINE_BREAKS:
        ctx.check(rx.accepts(rx.Lang(newline, "full"), lb), "C09/EOL-FOLD",
                  f"NEWLINE accepts {lb!r}", f"line break {lb!r} is not matched "
                  f"by NEWLINE: such files parse as one line", None,
                  detail="member")
    for fold in rfc.FOLD_FORMS:
        ctx.check(rx.accepts(rx.Lang(ufold, "full"), fold), "C09/EOL-FOLD",
                  f"uFOLD accepts {fold!r}", f"fold {fold!r} is not removed by "
                  f"uFOLD", None, detail="member")
    # NEWLINE must not match anything without a line feed (would split content)
    okk, wit = rx.all_contain(rx.Lang(newline, "full"), 10)
    ctx.check(okk, "C09/EOL-FOLD", "NEWLINE only matches line breaks",
              "NEWLINE matches a string without LF: content would be split",
              None, witness=wit, detail="every match contains LF")
    _case_model(ctx)
    # ---- physical rewritings: line ends, BOM, str/bytes, fold placement, blank lines
    from .. import strmodel
    cls_from = m.own_method("parser.Contentlines.from_ical")
    strmodel.report(ctx, "C09/PHYS-MODEL", strmodel.explore_physical,
                    ["reader", "invariance", "unfold"], cls_from.loc(), 100,
                    select=lambda law: law in ("reader", "invariance", "unfold"))
    # uFOLD denotes exactly the fold language; FOLD (bytes twin) agrees
    from .c06 import unfold_rule
    unfold_rule(ctx, "C09/EOL-FOLD")
    ctx.floor("C09/EOL-FOLD", 8)
    ctx.floor("C09/CASE-TAINT", 4)
