"""C05 - content-line join/split are inverse; values cannot inject structure.

Decided: LF-GATE (single construction path refusing LF), DELIMS (writer and
reader delimiters and slice layout agree), NEUTRALISE (reader-special
characters of the parameter-value position are neutralised by the writer or
rejected by the reader; value position cannot move the split), TOKEN (names
validated on every non-raising path).
Not decided: the tuple-level inverse for arbitrary parameter maps (the
quote-aware scanners are loops that are not modelled).
"""
import ast

from ..core import AnalysisError
from ..flow import SymEnv, is_param, dump
from ..model import walk_no_nested, body_without_docstring, is_super_call, FuncInfo
from ..loops import linear, lin_eq, lin_str
from .. import rx, fst
from ..textpath import TextPath
from .c08 import qsplit_calls, writer_param_delims, reader_param_delims


def run(ctx):
    m = ctx.model
    ctx.explanation = (
        "who-may-construct rule for Contentline with a dominating LF check; "
        "delimiter constants of from_parts vs the scanner of parts and its "
        "slice layout (linear normal forms); per-position set inclusion "
        "reader-special ⊆ writer-neutralised ∪ reader-rejected computed from "
        "scanner literals, q_split separators, regex classes and replace "
        "chains; token validation dominance.")
    cl = m.cls("parser.Contentline")
    _lf_gate(ctx, cl)
    w_name, w_value = _delims(ctx, cl)
    _neutralise(ctx, cl, w_name, w_value)
    _token(ctx, cl)
    from .c06 import unfold_rule
    unfold_rule(ctx, "C05/UNFOLD-EXACT")


# ---------------------------------------------------------------------------
def _lf_gate(ctx, cl):
    m = ctx.model
    sites = []
    for f in m.all_functions():
        for c in ast.walk(f.node):
            if not isinstance(c, ast.Call):
                continue
            # str.__new__(X, ...) anywhere, or super().__new__ inside the class family
            if isinstance(c.func, ast.Attribute) and c.func.attr == "__new__":
                inside = f.cls is not None and cl in m.mro(f.cls)
                explicit = any(isinstance(a, ast.Name) and a.id == cl.name for a in c.args)
                if inside or explicit:
                    sites.append((f, c))
    news = [c for c in [cl] + m.subclasses(cl) if "__new__" in c.methods]
    ctx.check(len(sites) == 1 and sites[0][0].qualname == "parser.Contentline.__new__"
              and len(news) == 1, "C05/LF-GATE", "single construction path",
              f"Contentline instances are created at {len(sites)} sites "
              f"({[s[0].qualname for s in sites]}); every one must pass the LF check",
              cl.loc(), detail="only Contentline.__new__ -> super().__new__")
    new = cl.methods.get("__new__")
    if new is None:
        raise AnalysisError("anchor vanished: Contentline.__new__")
    body = body_without_docstring(new.node)
    env = SymEnv(new.node)
    ctor = [(i, st) for i, st in enumerate(body)
            if any(isinstance(c, ast.Call) and is_super_call(c, "__new__")
                   for c in ast.walk(st))]
    gate = None
    for i, st in enumerate(body):
        test = None
        if isinstance(st, ast.Assert):
            test = st.test
            kind = "assert"
        elif isinstance(st, ast.If) and st.body and isinstance(st.body[-1], ast.Raise):
            test = ast.UnaryOp(op=ast.Not(), operand=st.test)
            kind = "raise"
        if test is None:
            continue
        d = dump(test)
        if "'\\n'" in d and ("not in" in d or "not " in d):
            cmp_ = [n for n in ast.walk(test) if isinstance(n, ast.Compare)]
            if cmp_:
                gate = (i, st, kind, cmp_[0])
    if not ctor:
        raise AnalysisError("Contentline.__new__: super().__new__ call not found")
    ok = gate is not None and gate[0] < ctor[0][0]
    same_val = False
    if ok:
        checked = gate[3].comparators[0]
        call = next(c for c in ast.walk(ctor[0][1]) if isinstance(c, ast.Call)
                    and is_super_call(c, "__new__"))
        passed = call.args[-1]
        same_val = dump(env.expand_at(checked, gate[1])) == dump(env.expand_at(passed, ctor[0][1]))
    ctx.check(ok and same_val, "C05/LF-GATE", "LF refused before construction",
              "Contentline.__new__ must refuse a value containing LF before "
              "str.__new__, on the very value it stores", new.loc(),
              detail=f"{gate[2] if gate else '?'} '\\n' not in value; then super().__new__(cls, value)")
    if gate and gate[2] == "assert":
        ctx.note("C05/LF-GATE: the LF check is an `assert`; running Python with "
                 "-O removes it (observation: the property does not quantify "
                 "over interpreter flags)")
    # no later mutation path: str is immutable; from_ical and from_parts build via cls(...)
    for name in ("from_parts", "from_ical"):
        f = cl.methods.get(name)
        if f is None:
            raise AnalysisError(f"anchor vanished: Contentline.{name}")
        rets = [n for n in walk_no_nested(f.node) if isinstance(n, ast.Return)]
        good = all(isinstance(r.value, ast.Call) and isinstance(r.value.func, ast.Name)
                   and r.value.func.id == f.params[0] for r in rets) and rets
        ctx.check(good, "C05/LF-GATE", f"{name} constructs through cls(...)",
                  f"Contentline.{name} returns something not built by cls(...)",
                  f.loc(), detail=f"{len(rets)} returns via cls(...)")


# ---------------------------------------------------------------------------
def _delims(ctx, cl):
    m = ctx.model
    fp = cl.methods["from_parts"]
    rets = [n for n in walk_no_nested(fp.node) if isinstance(n, ast.Return)]
    layouts = []
    for r in rets:
        arg = r.value.args[0] if isinstance(r.value, ast.Call) and r.value.args else None
        if not isinstance(arg, ast.JoinedStr):
            raise AnalysisError("Contentline.from_parts: line is not built by an f-string")
        seq = []
        for v in arg.values:
            if isinstance(v, ast.Constant):
                seq.append(v.value)
            else:
                seq.append(("field", dump(v.value)))
        layouts.append((r, seq))
    with_p = [l for l in layouts if len([x for x in l[1] if isinstance(x, tuple)]) == 3]
    without = [l for l in layouts if len([x for x in l[1] if isinstance(x, tuple)]) == 2]
    if len(with_p) != 1 or len(without) != 1:
        raise AnalysisError("Contentline.from_parts: expected the two layouts "
                            "name;params:value and name:value")
    seq = with_p[0][1]
    consts = [x for x in seq if isinstance(x, str)]
    shape_ok = len(seq) == 5 and isinstance(seq[0], tuple) and len(consts) == 2
    if not shape_ok:
        raise AnalysisError(f"from_parts layout not recognised: {seq}")
    w_param, w_value = consts
    seq2 = without[0][1]
    ctx.check([x for x in seq2 if isinstance(x, str)] == [w_value], "C05/DELIMS",
              "from_parts layouts agree",
              f"the layout without parameters uses {seq2}", fp.loc(without[0][0]),
              detail=f"name{w_value}value / name{w_param}params{w_value}value")
    # field order: name, params, value
    order = [x[1] for x in seq if isinstance(x, tuple)]
    ctx.check(order == fp.params[1:4] or order == ["name", "params", "values"],
              "C05/DELIMS", "from_parts field order",
              f"fields are emitted in order {order}", fp.loc(with_p[0][0]),
              detail=str(order))
    # reader: scanner in parts
    parts = cl.methods.get("parts")
    loops = [n for n in walk_no_nested(parts.node) if isinstance(n, ast.For)]
    scan = None
    for lp in loops:
        if isinstance(lp.iter, ast.Call) and isinstance(lp.iter.func, ast.Name) \
                and lp.iter.func.id == "enumerate":
            scan = lp
    if scan is None:
        raise AnalysisError("Contentline.parts: scanner loop not found")
    idx, ch = scan.target.elts[0].id, scan.target.elts[1].id
    split_sets = {}       # variable -> set of chars that set it
    quote_chars = set()
    guards = {}
    for st in ast.walk(scan):
        if isinstance(st, ast.If):
            chars = None
            for c in ast.walk(st.test):
                if isinstance(c, ast.Compare) and isinstance(c.left, ast.Name) \
                        and c.left.id == ch and isinstance(c.comparators[0], ast.Constant):
                    chars = set(c.comparators[0].value)
            if chars is None:
                continue
            for b in st.body:
                if isinstance(b, ast.Assign) and isinstance(b.targets[0], ast.Name):
                    tgt = b.targets[0].id
                    if isinstance(b.value, ast.Name) and b.value.id == idx:
                        split_sets[tgt] = chars
                        guards[tgt] = f"not {tgt}" in dump(st.test)
                    elif isinstance(b.value, ast.UnaryOp):
                        quote_chars |= chars
    if len(split_sets) != 2:
        raise AnalysisError(f"Contentline.parts: split variables not recognised: {split_sets}")
    (n_var, n_set), (v_var, v_set) = sorted(split_sets.items(), key=lambda kv: -len(kv[1]))
    ctx.check(n_set == {w_param, w_value}, "C05/DELIMS", "name ends at first ; or :",
              f"writer ends the name with {w_param!r} or {w_value!r}; the scanner "
              f"ends it at {sorted(n_set)}", parts.loc(scan), detail=str(sorted(n_set)))
    ctx.check(v_set == {w_value}, "C05/DELIMS", "value starts after first :",
              f"writer starts the value after {w_value!r}; the scanner looks for "
              f"{sorted(v_set)}", parts.loc(scan), detail=str(sorted(v_set)))
    ctx.check(guards.get(n_var) and guards.get(v_var), "C05/DELIMS",
              "first delimiter wins",
              "the split positions must be set only once (first unquoted "
              "delimiter): later delimiters inside the value must not move them",
              parts.loc(scan), detail="`and not name_split` / `and not value_split`")
    ctx.check(quote_chars == {'"'}, "C05/DELIMS", "quote character",
              f"the scanner toggles quoting on {sorted(quote_chars)}", parts.loc(scan),
              detail='"')
    # delimiter tests are made only outside quotes
    outer_if = [st for st in scan.body if isinstance(st, ast.If)
                and any(isinstance(b, ast.If) for b in st.body)]
    in_q = bool(outer_if) and isinstance(outer_if[0].test, ast.UnaryOp) \
        and isinstance(outer_if[0].test.op, ast.Not)
    ctx.check(in_q, "C05/DELIMS", "delimiters ignored inside quotes",
              "delimiter tests must be skipped while inside a quoted string",
              parts.loc(scan), detail="if not in_quotes: …")
    # slice layout
    env = SymEnv(parts.node)
    slices = {}
    for n in ast.walk(parts.node):
        if isinstance(n, ast.Subscript) and isinstance(n.slice, ast.Slice):
            lo = lin_str(linear(n.slice.lower)) if n.slice.lower else ""
            hi = lin_str(linear(n.slice.upper)) if n.slice.upper else ""
            slices[(lo, hi)] = n
    want = {("", n_var): "name", (f"{n_var} + 1", v_var): "params", (f"{v_var} + 1", ""): "value"}
    norm = {(a.replace("1 + " + n_var, n_var + " + 1").replace("1 + " + v_var, v_var + " + 1"), b)
            for a, b in slices}
    for k, role in want.items():
        ctx.check(k in norm, "C05/DELIMS", f"slice of {role}",
                  f"the {role} is not taken as st[{k[0]}:{k[1]}] (found "
                  f"{sorted(norm)})", parts.loc(), detail=f"st[{k[0]}:{k[1]}]")
    # parameter delimiters (shared with C08)
    w, _, _ = writer_param_delims(ctx)
    r, fi, info = reader_param_delims(ctx)
    for role in ("param", "keyvalue", "value"):
        ctx.check(w[role] == r[role], "C05/DELIMS", f"parameter {role} separator",
                  f"writer {w[role]!r} vs reader {r[role]!r}", fi.loc(),
                  detail=repr(w[role]))
    ctx.check(w["param"] == w_param, "C05/DELIMS", "parameter separator = name terminator",
              f"Parameters.to_ical joins with {w['param']!r} but from_parts "
              f"introduces parameters with {w_param!r}", fi.loc(), detail=repr(w_param))
    return w_param, w_value


# ---------------------------------------------------------------------------
def _neutralise(ctx, cl, w_param, w_value):
    m = ctx.model
    tp = TextPath(ctx)
    parts = cl.methods["parts"]
    pfi = m.own_method("parser.Parameters.from_ical")
    ascii_print = [chr(i) for i in range(32, 127)]
    # reader-special characters in the parameter-value position
    special = {}
    for n in ast.walk(parts.node):
        if isinstance(n, ast.Compare) and isinstance(n.comparators[0], ast.Constant) \
                and isinstance(n.comparators[0].value, str) \
                and isinstance(n.left, ast.Name) and len(n.comparators[0].value) <= 3:
            for c in n.comparators[0].value:
                special.setdefault(c, []).append("parts scanner")
    exempt = {}
    for c, arg, sep, mx in qsplit_calls(m, pfi):
        if mx == 1:
            # split at most once with a validated token on the left
            exempt[sep] = "q_split(..., maxsplit=1) + validate_token(key)"
        else:
            special.setdefault(sep, []).append("q_split separator")
    qs = m.func("parser.q_split")
    for n in ast.walk(qs.node):
        if isinstance(n, ast.Compare) and isinstance(n.comparators[0], ast.Constant) \
                and isinstance(n.comparators[0].value, str) and len(n.comparators[0].value) == 1:
            special.setdefault(n.comparators[0].value, []).append("q_split quote")
    for n in ast.walk(pfi.node):
        if isinstance(n, ast.Call) and isinstance(n.func, ast.Attribute) \
                and n.func.attr in ("startswith", "endswith", "strip") and n.args \
                and isinstance(n.args[0], ast.Constant):
            for c in n.args[0].value:
                special.setdefault(c, []).append("quote stripping")
    for f in tp.value_stages:
        ch = tp.chain(f)
        for s in ch.stages:
            if isinstance(s, fst.Replace):
                special.setdefault(s.p[0], []).append(f"{f.name} pattern {s.p!r}")
    # writer-neutralised
    neutral = {}
    q = rx.repo_rx(m, "parser", "QUOTABLE")
    for c in rx.class_members(q, ascii_print):
        neutral[c] = "QUOTABLE -> value emitted inside double quotes"
    dq = m.func("parser.dquote")
    envq = SymEnv(dq.node)
    rets = [n for n in walk_no_nested(dq.node) if isinstance(n, ast.Return)]
    per_ret = []
    for r in rets:
        ex = envq.expand_at(r.value, r)
        per_ret.append({c.args[0].value: c.args[1].value for c in ast.walk(ex)
                        if isinstance(c, ast.Call) and isinstance(c.func, ast.Attribute)
                        and c.func.attr == "replace" and len(c.args) == 2
                        and isinstance(c.args[0], ast.Constant)
                        and isinstance(c.args[1], ast.Constant)})
    # a character counts as replaced only if it is replaced on every return path
    if per_ret:
        for ch_ in set.intersection(*[set(d) for d in per_ret]):
            neutral[ch_] = f"dquote replaces it with {per_ret[0][ch_]!r} on every path"
    # scanners ignore delimiters inside quotes (precondition of 'quoted = neutral')
    inq = any(isinstance(n, ast.BoolOp) and "not inquote" in dump(n) for n in ast.walk(qs.node))
    ctx.check(inq, "C05/NEUTRALISE", "q_split ignores separators inside quotes",
              "q_split must not split inside a quoted string", qs.loc(),
              detail="if not inquote and ch == sep")
    # reader-rejected
    unsafe = rx.class_members(rx.repo_rx(m, "parser", "UNSAFE_CHAR"),
                              [chr(i) for i in range(0, 128)])
    qunsafe = rx.class_members(rx.repo_rx(m, "parser", "QUNSAFE_CHAR"),
                               [chr(i) for i in range(0, 128)])
    vpv = [c for c in ast.walk(pfi.node) if isinstance(c, ast.Call)
           and isinstance(c.func, ast.Name) and c.func.id == "validate_param_value"]
    ctx.check(len(vpv) >= 2, "C05/NEUTRALISE", "both value forms validated",
              "quoted and unquoted parameter values must both pass "
              "validate_param_value", pfi.loc(), detail=f"{len(vpv)} calls")
    ctrl = {chr(i) for i in list(range(0, 9)) + list(range(10, 32)) + [127]}
    ctx.check(ctrl <= unsafe and ctrl <= qunsafe, "C05/NEUTRALISE",
              "control characters rejected on read",
              f"control characters {sorted(map(ord, ctrl - (unsafe & qunsafe)))} "
              f"are accepted in parameter values", None,
              detail="UNSAFE_CHAR and QUNSAFE_CHAR contain 0x00-0x08, 0x0A-0x1F, 0x7F")
    ctx.check({'"', ",", ":", ";"} <= unsafe and '"' in qunsafe, "C05/NEUTRALISE",
              "structural characters rejected when unquoted",
              "an unquoted parameter value containing a structural character "
              "must be rejected", None, detail='UNSAFE_CHAR ⊇ {" , : ;}')
    ctx.extra["param_position"] = {
        "reader_special": {k: v[:2] for k, v in sorted(special.items())},
        "writer_neutralised": dict(sorted(neutral.items())),
        "exempt": exempt}
    for c in sorted(special):
        if c in exempt:
            ctx.ok("C05/NEUTRALISE", f"param-value × {c!r}", None,
                   f"exempt: {exempt[c]}")
            continue
        ctx.check(c in neutral, "C05/NEUTRALISE", f"param-value × {c!r}",
                  f"{c!r} is special to the reader in a parameter value "
                  f"({special[c][0]}) but the writer neither quotes, replaces nor "
                  f"refuses it", pfi.loc(),
                  witness="add('attendee','b;X=c:d',{'CN':'a\\\\'}) reads back with an "
                          "extra parameter X=c" if c == "\\" else None,
                  detail=neutral.get(c, ""))
    # value position: nothing after the first unquoted ':' can move the split
    # (decided by "first delimiter wins" in DELIMS) and LF is refused (LF-GATE)
    ctx.ok("C05/NEUTRALISE", "value position cannot move the split", parts.loc(),
           "value is the suffix after the first unquoted ':'; LF refused by the gate")
    ctx.floor("C05/NEUTRALISE", 10)


# ---------------------------------------------------------------------------
def _token(ctx, cl):
    m = ctx.model
    parts = cl.methods["parts"]
    # validate_token(name) is an unconditional statement of the try body that
    # precedes the return
    tr = next((s for s in body_without_docstring(parts.node) if isinstance(s, ast.Try)), None)
    if tr is None:
        raise AnalysisError("Contentline.parts: try block not found")
    top_calls = [s for s in tr.body if isinstance(s, ast.Expr)
                 and isinstance(s.value, ast.Call)
                 and isinstance(s.value.func, ast.Name)
                 and s.value.func.id == "validate_token"]
    env = SymEnv(parts.node)
    ret = next(s for s in tr.body if isinstance(s, ast.Return))
    name_elt = ret.value.elts[0]
    good = False
    for s in top_calls:
        good |= dump(env.expand_at(s.value.args[0], s)) == dump(env.expand_at(name_elt, ret)) \
            and tr.body.index(s) < tr.body.index(ret)
    ctx.check(good, "C05/TOKEN", "parts validates the name",
              "validate_token must be applied, unconditionally and before the "
              "return, to the very name that parts() returns", parts.loc(),
              detail="validate_token(name)")
    vt = m.func("parser.validate_token")
    name_rx = rx.repo_rx(m, "parser", "NAME")
    # NAME full-matches no delimiter
    for c in ';:=,"\n':
        ctx.check(not rx.accepts(rx.Lang(name_rx, "full"), "A" + c + "B"),
                  "C05/TOKEN", f"token excludes {c!r}",
                  f"NAME accepts a token containing {c!r}", None, detail="rejected")
    src = dump(vt.node)
    full = "len(" in src and "== 1" in src and "match[0]" in src or "fullmatch" in src
    ctx.check(full, "C05/TOKEN", "validate_token is a full match",
              "validate_token must require the whole name to be one NAME match",
              vt.loc(), detail="len(findall)==1 and name == match[0]")
    pfi = m.own_method("parser.Parameters.from_ical")
    calls = [c for c in ast.walk(pfi.node) if isinstance(c, ast.Call)
             and isinstance(c.func, ast.Name) and c.func.id == "validate_token"]
    stores = [n for n in ast.walk(pfi.node) if isinstance(n, ast.Assign)
              and isinstance(n.targets[0], ast.Subscript)]
    okk = bool(calls) and all(
        isinstance(s.targets[0].slice, ast.Name)
        and any(isinstance(c.args[0], ast.Name) and c.args[0].id == s.targets[0].slice.id
                and c.lineno < s.lineno for c in calls) for s in stores)
    ctx.check(okk, "C05/TOKEN", "parameter names validated",
              "every parameter name stored by Parameters.from_ical must have "
              "passed validate_token", pfi.loc(), detail="validate_token(key) before result[key] = …")
