"""C05 - content-line join/split are inverse; values cannot inject structure.

Decided: LF-GATE (single construction path), LINE-MODEL and PARAM-MODEL (E9:
join/split inverse and no structure injection on every input up to the length
bound over the character-class quotient), NEUTRALISE/TOKEN (E5 class
inclusions), UNFOLD-EXACT.  Not decided: inputs longer than the bound as such.
"""
import ast

from ..core import AnalysisError
from ..flow import SymEnv, is_param, dump
from ..model import walk_no_nested, body_without_docstring, is_super_call, FuncInfo
from ..loops import linear, lin_eq, lin_str
from .. import rx, fst
from ..textpath import TextPath
from .c08 import qsplit_calls, writer_param_delims, reader_param_delims


def run(ctx):
    m = ctx.model
    ctx.explanation = (
        "who-may-construct rule for Contentline; bounded exhaustive abstract "
        "execution (E9, sa.strmodel) of Contentline.from_parts / parts / "
        "Parameters.to_ical / from_ical over the character-class quotient: name, "
        "parameters and TEXT value read back equal the ones joined, values and "
        "parameter values cannot create or rename structure, raw LF cannot enter a "
        "content line, malformed names and lines are rejected with ValueError; "
        "regex class inclusions (E5) for control and structural characters and "
        "for the token grammar; exact unfolding (E5).")
    cl = m.cls("parser.Contentline")
    _lf_gate(ctx, cl)
    from .. import strmodel
    parts = cl.methods.get("parts")
    if parts is None:
        raise AnalysisError("anchor vanished: Contentline.parts")
    strmodel.report(ctx, "C05/LINE-MODEL", strmodel.explore_lines, strmodel.LINE_LAWS,
                    parts.loc(), 300)
    strmodel.report(ctx, "C05/PARAM-MODEL", strmodel.explore_params_extended,
                    ["line round trip", "no injection", "round trip", "history", "reader rejects"],
                    m.own_method("parser.Parameters.from_ical").loc(), 300,
                    select=lambda law: law in ("line round trip", "no injection", "round trip",
                                               "history", "reader rejects"))
    strmodel.report(ctx, "C05/WIRE-MODEL", strmodel.explore_wire, ["no injection"], parts.loc(), 300,
                    select=lambda law: law == "no injection")
    # a content line written by the serialiser is read back as exactly one line whatever
    # characters the value holds (the physical-line model shared with C06/C09), and typed
    # scalar values decode to the same value
    strmodel.report(ctx, "C05/PHYS-MODEL", strmodel.explore_physical, ["reader", "unfold"],
                    m.own_method("parser.Contentlines.from_ical").loc(), 100,
                    select=lambda law: law in ("reader", "unfold"))
    from .. import codecmodel
    codecmodel.report(ctx, "C05/SCALARS", codecmodel.explore_scalars, codecmodel.SCALAR_LAWS,
                      m.cls("prop.vFloat").loc(), 30)
    _classes(ctx)
    from .c06 import unfold_rule
    unfold_rule(ctx, "C05/UNFOLD-EXACT")


def _classes(ctx):
    """Regex classes (E5): what the reader rejects and what a token may hold."""
    m = ctx.model
    unsafe = rx.class_members(rx.repo_rx(m, "parser", "UNSAFE_CHAR"),
                              [chr(i) for i in range(0, 128)])
    qunsafe = rx.class_members(rx.repo_rx(m, "parser", "QUNSAFE_CHAR"),
                               [chr(i) for i in range(0, 128)])
    ctrl = {chr(i) for i in list(range(0, 9)) + list(range(10, 32)) + [127]}
    ctx.check(ctrl <= unsafe and ctrl <= qunsafe, "C05/NEUTRALISE",
              "control characters rejected on read",
              f"control characters {sorted(map(ord, ctrl - (unsafe & qunsafe)))} "
              f"are accepted in parameter values", None,
              detail="UNSAFE_CHAR and QUNSAFE_CHAR contain 0x00-0x08, 0x0A-0x1F, 0x7F")
    ctx.check({'"', ",", ":", ";"} <= unsafe and '"' in qunsafe, "C05/NEUTRALISE",
              "structural characters rejected when unquoted",
              "an unquoted parameter value containing a structural character "
              "must be rejected", None, detail='UNSAFE_CHAR ⊇ {" , : ;}')
    name_rx = rx.repo_rx(m, "parser", "NAME")
    for c in ';:=,"\n':
        ctx.check(not rx.accepts(rx.Lang(name_rx, "full"), "A" + c + "B"),
                  "C05/TOKEN", f"token excludes {c!r}",
                  f"NAME accepts a token containing {c!r}", None, detail="rejected")


# ---------------------------------------------------------------------------
def _lf_gate(ctx, cl):
    m = ctx.model
    sites = []
    for f in m.all_functions():
        for c in ast.walk(f.node):
            if not isinstance(c, ast.Call):
                continue
            # str.__new__(X, ...) anywhere, or super().__new__ inside the class family
            if isinstance(c.func, ast.Attribute) and c.func.attr == "__new__":
                inside = f.cls is not None and cl in m.mro(f.cls)
                explicit = any(isinstance(a, ast.Name) and a.id == cl.name for a in c.args)
                if inside or explicit:
                    sites.append((f, c))
    news = [c for c in [cl] + m.subclasses(cl) if "__new__" in c.methods]
    ctx.check(len(sites) == 1 and sites[0][0].qualname == "parser.Contentline.__new__"
              and len(news) == 1, "C05/LF-GATE", "single construction path",
              f"Contentline instances are created at {len(sites)} sites "
              f"({[s[0].qualname for s in sites]}); every one must pass the LF check",
              cl.loc(), detail="only Contentline.__new__ -> super().__new__")
    # (that the single path refuses LF is decided by C05/LINE-MODEL 'no raw line break')


