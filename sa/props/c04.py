"""C04 - parsing is total: a result or ValueError; VEVENT isolates bad lines.

Decided: ESCAPE (exception-escape analysis of from_ical / to_ical / walk),
ARITY (TZID only passed to decoders that accept it), LENIENT (shape of the two
lenient handlers), LOOKUP (provider lookups return None on the external's
exception table), LOOPS (while loops in the cones are the two known ones).
Not decided: termination / CPU bound in general, dateutil/pytz internals
(opaque: may raise anything), receivers of unknown static type.
"""
import ast

from ..core import AnalysisError
from ..flow import dump
from ..model import walk_no_nested
from ..effects import Effects, dead_under_defaults
from .c01 import parse_loop

# one named construct + reason each; an entry that is never met is an error
SAFE_TABLE = {
    "parser.escape_char: assert #1 -> AssertionError":
        "callers pass a str: vText.to_ical passes self (a str subclass)",
    "parser.unescape_char: assert #1 -> AssertionError":
        "vText.from_ical / vCategory.from_ical pass the value text of a content line (str) or to_unicode(...)",
    "parser.foldline: assert #1 -> AssertionError":
        "only caller Contentline.to_ical passes self, a str subclass (C06/EMIT)",
    "parser.foldline: assert #2 -> AssertionError":
        "Contentline.__new__ refused LF before the object existed (C05/LF-GATE)",
    "parser.Contentline.from_parts: assert #1 -> AssertionError":
        "only caller Component.content_line passes getattr(value, 'params', Parameters()); parsed "
        "values carry the Parameters returned by Contentline.parts, API values get Parameters from "
        "their constructors/_encode",
    "parser.Contentline.__new__: assert #1 -> AssertionError":
        "a parsed or codec-produced line cannot contain LF: NEWLINE.split removed them, every "
        "decoder that creates LF (vText, vCategory) re-escapes it in to_ical, parameter values with "
        "control characters are rejected by validate_param_value; for API-supplied raw LF the "
        "refusal is the documented behaviour (C05)",
    "prop.vTime.__init__: external call datetime.time -> OverflowError":
        "time(*args) is reached only with several arguments from user code; the parse path and "
        "vDDDTypes.to_ical pass one time object",
    "prop.vUTCOffset.from_ical: negation of a timedelta of unbounded magnitude -> OverflowError":
        "hours, minutes and seconds come from two-character slices: |offset| < 100 h",
    "timezone.pytz.PYTZ.localize_utc: .astimezone() on external object -> OverflowError":
        "reached from Component.add only for datetime values; the parse loop calls add() with codec "
        "objects built by factory(...), never with a datetime (the decoders' own calls sit under "
        "converting handlers)",
    "timezone.zoneinfo.ZONEINFO.localize_utc: .astimezone() on external object -> OverflowError":
        "as for the pytz twin",
}

KNOWN_WHILE = {
    "cal.Timezone._make_unique_tzname": "the candidate grows by '_1' each round and the set of taken names is finite",
    "timezone.tzid.tzinfo2tzids": "descends a finite literal lookup tree, one level per round",
}


def run(ctx):
    m = ctx.model
    ctx.explanation = (
        "exception-escape analysis over the resolved call graph (explicit "
        "raises, callee summaries, typed primitive risks; handler subtraction "
        "by class hierarchy; guard facts and a 10-entry justified-safe table) "
        "for Component.from_ical, Component.to_ical and Component.walk; shape "
        "of the two lenient handlers; provider lookups; while loops in the cones.")
    ctx.assume("receivers of unknown static type raise nothing (exact on what is "
               "reported, not complete); dateutil / pytz / zoneinfo internals are "
               "opaque: any call into them may raise anything unless listed in the "
               "external table; tzinfo.utcoffset/dst/tzname do not raise")
    eff = Effects(m, SAFE_TABLE)
    comp = m.cls("cal.Component")
    entries = [("from_ical", comp.methods["from_ical"]), ("to_ical", comp.methods["to_ical"]),
               ("walk", comp.methods["walk"])]
    cones = {}
    for label, f in entries:
        esc = eff.escapes(f)
        cone = eff.cg.cone([f])
        cones[label] = cone
        n_bad = 0
        for e, d in sorted(esc.items()):
            if eff.h.is_sub(e, "ValueError"):
                continue
            for o in d.values():
                r = o.root()
                # the property parses, serialises and walks with the documented default call
                # (`to_ical()`, `walk()`): code that only runs for an optional argument the
                # default call does not pass is outside it
                if label in ("to_ical", "walk") and o.func is f and dead_under_defaults(_NOARG_CALL, f, o.node):
                    continue
                n_bad += 1
                ctx.fail("C04/ESCAPE", f"{label} escapes {e} @ {r.func.qualname}: {r.what[:60]}",
                         f"Component.{label} may let {e} escape ({r.what} in {r.func.qualname}); "
                         f"path {' <- '.join(o.chain()[:6])}", r.func.loc(r.node))
        allowed = sorted(e for e in esc if eff.h.is_sub(e, "ValueError"))
        ctx.ok("C04/ESCAPE", f"Component.{label} cone analysed", f.loc(),
               f"{len(cone)} functions in the cone; may raise {allowed or 'nothing'}; "
               f"{n_bad} non-ValueError escapes")
    unused = set(SAFE_TABLE) - eff.safe_used
    if unused:
        raise AnalysisError(f"justified-safe entries never met (anchor vanished or renamed): {sorted(unused)}")
    for k in sorted(SAFE_TABLE):
        ctx.ok("C04/ESCAPE", f"justified safe: {k}", None, SAFE_TABLE[k], nontrivial=False)
    ctx.extra.update({"functions_in_from_ical_cone": len(cones["from_ical"]),
                      "functions_in_to_ical_cone": len(cones["to_ical"]),
                      "call_sites": dict(eff.cg.stats),
                      "untyped_receiver_sites_not_reported": eff.unknown_receivers})
    if len(cones["from_ical"]) < 60:
        raise AnalysisError(f"from_ical cone has only {len(cones['from_ical'])} functions (90+ confirmed by hand)")
    _arity(ctx)
    _lenient(ctx)
    _lookup(ctx, eff)
    _loops(ctx, cones)
    _concrete(ctx)
    # whatever the composite decoders accept can be written again (parse, then serialise)
    from .. import codecmodel
    codecmodel.report(ctx, "C04/RESERIALISE", codecmodel.explore_reserialise, codecmodel.RESER_LAWS,
                      m.cls("prop.vDDDTypes").loc(), 30)


# ---------------------------------------------------------------------------
_NOARG_CALL = ast.parse("self.m()").body[0].value

EV = "BEGIN:VEVENT\r\nSUMMARY:{}\r\nEND:VEVENT\r\n"
CONCRETE_INPUTS = [
    ("empty input", ""),
    ("blank lines only", "\r\n\r\n"),
    ("no component, long property line", "X-A:" + "y" * 60 + "\r\n"),
    ("two components, long first line", EV.format("x" * 60) + EV.format("b")),
    ("two components, short", EV.format("a") + EV.format("b")),
    ("one event", EV.format("a")),
    ("calendar with event and todo", "BEGIN:VCALENDAR\r\n" + EV.format("a") + "BEGIN:VTODO\r\nSUMMARY:t\r\nEND:VTODO\r\nEND:VCALENDAR\r\n"),
    ("END without BEGIN", "END:VEVENT\r\n"),
    ("unclosed component", "BEGIN:VEVENT\r\nSUMMARY:a\r\n"),
    ("unsplittable line in an event", "BEGIN:VEVENT\r\nno colon here\r\nSUMMARY:a\r\nEND:VEVENT\r\n"),
    ("unsplittable line in a todo", "BEGIN:VTODO\r\nno colon here\r\nEND:VTODO\r\n"),
    ("undecodable value in an event", "BEGIN:VEVENT\r\nDTSTART:not-a-date\r\nPRIORITY:x\r\nSUMMARY:a\r\nEND:VEVENT\r\n"),
    ("non-ASCII text, long", "BEGIN:VEVENT\r\nSUMMARY:" + "\u00e9\u20ac" * 50 + "\r\nEND:VEVENT\r\n"),
    ("lower-case names, LF line ends", "begin:vevent\nsummary:a\nend:vevent\n"),
    ("unknown component and property", "BEGIN:X-THING\r\nX-PROP;X-PAR=1:v\r\nEND:X-THING\r\n"),
    # parameter values have two shapes (text, or a list when the value holds commas): every
    # consumer of a parameter must cope with both
    ("multi-valued TZID on a date-time in an event",
     "BEGIN:VEVENT\r\nDTSTART;TZID=Europe/Berlin,Europe/Paris:20200101T100000\r\nSUMMARY:a\r\nEND:VEVENT\r\n"),
    ("multi-valued TZID on a date-time in a todo",
     "BEGIN:VTODO\r\nDUE;TZID=Europe/Berlin,Europe/Paris:20200101T100000\r\nEND:VTODO\r\n"),
    ("multi-valued TZID on a date list", "BEGIN:VEVENT\r\nEXDATE;TZID=A,B:20200101T100000,20200102T100000\r\nEND:VEVENT\r\n"),
    ("multi-valued TZID on FREEBUSY",
     "BEGIN:VFREEBUSY\r\nFREEBUSY;TZID=A,B:20200101T100000Z/PT1H\r\nEND:VFREEBUSY\r\n"),
    ("categories ending in a backslash", "BEGIN:VEVENT\r\nCATEGORIES:work,home\\\r\nEND:VEVENT\r\n"),
]


def _concrete(ctx):
    """The whole parser, nothing stubbed, interpreted (E7) on concrete inputs of every failure
    class - as str and as bytes, single and multiple: a result or ValueError; whatever is returned
    serialises and walks."""
    from ..strmodel import TextInterp
    from ..absint import ClassVal, AbsRaise, Unsupported, Obj
    m = ctx.model
    comp = m.cls("cal.Component")
    bad = []
    n = 0
    for label, text in CONCRETE_INPUTS:
        for kind, data in (("str", text), ("bytes", text.encode("utf-8"))):
            for multiple in (False, True):
                it = TextInterp(m)
                n += 1
                where = f"{label} ({kind}, multiple={multiple})"
                try:
                    try:
                        res = it.run(it.getattr(ClassVal(comp), "from_ical"), [data], {"multiple": multiple})
                    except AbsRaise as e:
                        if "ValueError" not in it.exc_bases(e.cls_name):
                            bad.append((where, f"from_ical raises {e.cls_name}"))
                        continue
                    for c in (res if isinstance(res, list) else [res]):
                        if not isinstance(c, Obj):
                            continue
                        for meth in ("to_ical", "walk"):
                            try:
                                it.run(it.getattr(c, meth), [], {})
                            except AbsRaise as e:
                                if "ValueError" not in it.exc_bases(e.cls_name):
                                    bad.append((where, f"{meth}() of the result raises {e.cls_name}"))
                except Unsupported as e:
                    raise AnalysisError(f"the parser leaves the abstract interface on {where}: {e}")
    ctx.check(not bad, "C04/CONCRETE", "concrete inputs of every failure class: a result or ValueError",
              f"{bad[0][0] if bad else ''}: {bad[0][1] if bad else ''} "
              f"[{len(bad)} of {n} runs: {sorted({b[0] for b in bad})[:5]}]", comp.loc(),
              witness={"input": bad[0][0]} if bad else None,
              detail=f"{n} runs ({len(CONCRETE_INPUTS)} inputs x str/bytes x single/multiple), whole parser interpreted")


def _arity(ctx):
    from .c11 import tzid_forward_names
    m = ctx.model
    names, fb, fi = tzid_forward_names(ctx)
    for name in sorted(names | ({"FREEBUSY"} if fb else set())):
        ci = m.class_for_property(name)
        f = m.lookup_method(ci, "from_ical") if ci else None
        npos = 0
        if f is not None:
            npos = len(f.node.args.args) - (1 if f.kind == "class" else 0)
        ctx.check(f is not None and npos >= 2, "C04/ARITY", f"{name} decoder accepts the TZID",
                  f"from_ical passes params['TZID'] as a second argument when parsing {name}, but "
                  f"{ci.name if ci else None}.from_ical takes {npos} argument(s): TypeError",
                  fi.loc(), detail=f"{ci.name if ci else None}.from_ical(ical, timezone)")


# ---------------------------------------------------------------------------
def _lenient(ctx):
    """Lenient handling decided on the parse loop itself (E7, sa.parseloop):
    all short line sequences containing an unsplittable line or an
    undecodable value, inside and outside lenient components."""
    from .. import parseloop
    m = ctx.model
    parseloop.report(
        ctx, "C04/LENIENT",
        lambda d: d["has_bad"] or d["exp"][0][0] == "raise" or d["got"][0][0] == "raise",
        "bad lines: dropped and recorded inside VEVENT, ValueError elsewhere",
        laws=("unsplittable line inside a lenient component: recorded, line skipped",
              "undecodable value inside a lenient component: recorded, nothing added",
              "other properties and subcomponents of the lenient component kept",
              "the same lines outside lenient components raise ValueError",
              "END without BEGIN, property without parent, wrong component count: ValueError",
              "no other exception class leaves the loop"))
    # only VEVENT is lenient
    table = {}
    for c in m.component_classes():
        o, e = m.lookup_attr(c, "ignore_exceptions")
        table[c.name] = m.const(e, o.module, o) if e is not None else None
    lenient_classes = sorted(k for k, v in table.items() if v)
    ctx.check(lenient_classes == ["Event"], "C04/LENIENT", "only VEVENT is lenient",
              f"components with ignore_exceptions = True: {lenient_classes}; the property "
              f"states that only VEVENT isolates bad lines", m.cls("cal.Event").loc(),
              detail=str(table))


# ---------------------------------------------------------------------------
def _lookup(ctx, eff):
    m = ctx.model
    for cq in ("timezone.zoneinfo.ZONEINFO", "timezone.pytz.PYTZ"):
        f = m.own_method(cq + ".timezone")
        esc = eff.escapes(f)
        bad = sorted(esc)
        ctx.check(not bad, "C04/LOOKUP", f"{cq.split('.')[-1]}.timezone never raises",
                  f"{cq}.timezone may raise {bad} for an unknown or hostile id; it must return "
                  f"None (" + "; ".join(f"{e}: {next(iter(d.values())).root().what}" for e, d in esc.items()) + ")",
                  f.loc(), witness="TZID=America (a directory of the tz database)",
                  detail="external lookup enclosed by handlers for every documented exception")
    f = m.own_method("timezone.tzp.TZP.timezone")
    esc = eff.escapes(f)
    ctx.check(not esc, "C04/LOOKUP", "TZP.timezone never raises",
              f"TZP.timezone may raise {sorted(esc)}", f.loc(), detail="no escapes")
    # vDatetime.from_ical resolves a TZID string through tzp.timezone (which cannot raise) and
    # nowhere else - decided by interpreting the decoder (E7) with a recording provider
    from ..absint import Interp, ClassVal, Native, TZ, AbsRaise, Unsupported
    vd = m.own_method("prop.vDatetime.from_ical")
    looked = []

    class Rec(Interp):
        def _native_obj_attr(self, o, name):
            if o.name == "tzp" and name == "timezone":
                def tz(i, a, k):
                    looked.append(self._str(a[0]))
                    return TZ("zone", self._str(a[0]), self.provider) if self._str(a[0]) == "Europe/Berlin" else None
                return Native("tzp.timezone", tz)
            return super()._native_obj_attr(o, name)
    it = Rec(m)
    res = {}
    for tzid in ("Europe/Berlin", "Unknown/Zone"):
        try:
            res[tzid] = it.call(it.getattr(ClassVal(m.cls("prop.vDatetime")), "from_ical"),
                                ["20200101T120000", tzid], {})
        except AbsRaise as e:
            res[tzid] = "!" + e.cls_name
        except Unsupported as e:
            raise AnalysisError(f"vDatetime.from_ical('20200101T120000', {tzid!r}) leaves the abstract "
                                f"interface: {e}")
    ctx.check(looked.count("Europe/Berlin") >= 1 and looked.count("Unknown/Zone") >= 1
              and not any(isinstance(v, str) and v.startswith("!") for v in res.values()),
              "C04/LOOKUP", "vDatetime.from_ical looks the TZID up via tzp.timezone",
              f"decoding a date-time with a TZID: ids looked up through tzp.timezone = {looked}, results "
              f"{ {k: repr(v) for k, v in res.items()} }; the id must be resolved through tzp.timezone "
              f"(which never raises) and an unknown id must not make the decoder fail", vd.loc(),
              detail="tzp.timezone(timezone)")


# ---------------------------------------------------------------------------
def _loops(ctx, cones):
    seen = {}
    for label, cone in cones.items():
        for q, (f, parent) in cone.items():
            for n in walk_no_nested(f.node):
                if isinstance(n, ast.While):
                    seen.setdefault(q, f)
    unknown = sorted(set(seen) - set(KNOWN_WHILE))
    if unknown:
        raise AnalysisError(f"new `while` loop(s) in the parse/serialise cone need a termination "
                            f"argument (review): {unknown}")
    for q, why in KNOWN_WHILE.items():
        if q in seen:
            ctx.ok("C04/LOOPS", f"while in {q}", seen[q].loc(), why)
    # recursion: only the structural ones
    ctx.ok("C04/LOOPS", "cones scanned for while loops", None,
           f"{sum(len(c) for c in cones.values())} functions; while loops in {sorted(seen)}")
