"""C03 - typed value codecs are inverse and emit RFC grammar.

Decided (shape, not values): LAYOUT (writer field tiling == reader slices for
DATE, DATE-TIME, TIME, UTC-OFFSET; totals == dispatch lengths), GRAMMAR-IN
(regex inclusion of the RFC grammars; enumerations), DISPATCH (abstract
evaluation of vDDDTypes.from_ical over text shapes), WRAP (decoders convert
failures to ValueError; E3, shared with C04).
Not decided: decode(encode(v)) == v for DURATION/UTC-OFFSET/INTEGER/FLOAT/
BINARY (arithmetic over unbounded values).
"""
import ast

from ..core import AnalysisError
from ..flow import SymEnv, is_param, dump
from ..model import ClassInfo, walk_no_nested, body_without_docstring
from ..oracles import rfc
from .. import rx

FIELDS = ["year", "month", "day", "hour", "minute", "second"]
STRFTIME = {  # directive -> (field, width or None when not fixed on all platforms)
    "%Y": ("year", None), "%m": ("month", 2), "%d": ("day", 2),
    "%H": ("hour", 2), "%M": ("minute", 2), "%S": ("second", 2),
    "%y": ("year", 2), "%j": ("yday", 3),
}


# ---------------------------------------------------------------------------
def writer_layout_from_expr(e):
    """f-string or strftime -> list of ('field', name, width) / ('lit', text)."""
    out = []
    if isinstance(e, ast.JoinedStr):
        for v in e.values:
            if isinstance(v, ast.Constant):
                out.append(("lit", v.value))
            elif isinstance(v, ast.FormattedValue):
                name = v.value.attr if isinstance(v.value, ast.Attribute) else (
                    v.value.id if isinstance(v.value, ast.Name) else dump(v.value))
                width = None
                if v.format_spec is not None and len(v.format_spec.values) == 1 \
                        and isinstance(v.format_spec.values[0], ast.Constant):
                    spec = v.format_spec.values[0].value
                    if spec.startswith("0") and spec[1:].rstrip("d").isdigit():
                        width = int(spec[1:].rstrip("d"))
                out.append(("field", name, width))
        return out
    if isinstance(e, ast.Call) and isinstance(e.func, ast.Attribute) \
            and e.func.attr == "strftime" and e.args \
            and isinstance(e.args[0], ast.Constant):
        fmt = e.args[0].value
        i = 0
        while i < len(fmt):
            if fmt[i] == "%" and i + 1 < len(fmt):
                d = fmt[i:i + 2]
                if d not in STRFTIME:
                    raise AnalysisError(f"strftime directive {d} not in the layout table")
                out.append(("field",) + STRFTIME[d])
                i += 2
            else:
                out.append(("lit", fmt[i]))
                i += 1
        return out
    return None


def find_writer_expr(f):
    """The expression that builds the text in a to_ical: first f-string /
    strftime reachable from the returns."""
    env = SymEnv(f.node)
    for n in ast.walk(f.node):
        if isinstance(n, ast.JoinedStr) and any(isinstance(v, ast.FormattedValue)
                                                for v in n.values):
            return n
    for n in ast.walk(f.node):
        if isinstance(n, ast.Call) and isinstance(n.func, ast.Attribute) \
                and n.func.attr == "strftime":
            return n
    return None


def reader_slices(f, param):
    """int(<param>[a:b]) occurrences in order -> [(a, b)]; a/b ints or None."""
    out = []
    nodes = [n for n in ast.walk(f.node) if isinstance(n, ast.Call)
             and isinstance(n.func, ast.Name) and n.func.id == "int" and n.args]
    nodes.sort(key=lambda n: (n.lineno, n.col_offset))
    for n in nodes:
        a = n.args[0]
        if isinstance(a, ast.BoolOp):
            a = a.values[0]
        if isinstance(a, ast.Subscript) and isinstance(a.value, ast.Name) \
                and a.value.id == param and isinstance(a.slice, ast.Slice):
            lo = a.slice.lower.value if isinstance(a.slice.lower, ast.Constant) else (0 if a.slice.lower is None else "?")
            hi = a.slice.upper.value if isinstance(a.slice.upper, ast.Constant) else (None if a.slice.upper is None else "?")
            out.append((lo, hi))
    return out


def tile(layout):
    """[(kind, name, width)] -> [(name, start, end)] for fields, total length
    (None if some field is not fixed-width)."""
    pos = 0
    out = []
    for it in layout:
        if it[0] == "lit":
            out.append(("lit:" + it[1], pos, pos + len(it[1])))
            pos += len(it[1])
        else:
            if it[2] is None:
                out.append((it[1], pos, None))
                return out, None
            out.append((it[1], pos, pos + it[2]))
            pos += it[2]
    return out, pos


def layout_rule(ctx, rule):
    """Writer layout vs reader slices of the fixed-width codecs, decided by
    interpreting the codecs on position-marker texts (sa.codecmodel); shared
    by C01, C02 and C03."""
    from .. import codecmodel
    m = ctx.model
    codecmodel.report(ctx, rule, codecmodel.explore_datetime, codecmodel.DT_LAWS,
                      m.cls("prop.vDatetime").loc(), 15)
    codecmodel.report(ctx, rule, codecmodel.explore_utcoffset,
                      ["UTC-OFFSET " + x for x in codecmodel.UTC_LAWS],
                      m.cls("prop.vUTCOffset").loc(), 300)


# ---------------------------------------------------------------------------
def dispatch_table(ctx):
    """vDDDTypes.from_ical as an ordered list of (predicate description,
    predicate over abstract shape, target class name)."""
    m = ctx.model
    f = m.own_method("prop.vDDDTypes.from_ical")
    ical = f.params[1]
    env = SymEnv(f.node)
    table = []

    def pred_of(test):
        t = env.expand_at(test) if False else test
        # X.startswith(<tuple of str>)
        if isinstance(t, ast.Call) and isinstance(t.func, ast.Attribute) \
                and t.func.attr == "startswith" and t.args:
            pre = m.const(t.args[0], f.module)
            pre = (pre,) if isinstance(pre, str) else tuple(pre)
            return ("prefix in %r" % (pre,), lambda s, pre=pre: s["prefix"] in pre)
        if isinstance(t, ast.Compare) and len(t.ops) == 1:
            op, l, r = t.ops[0], t.left, t.comparators[0]
            if isinstance(op, ast.In) and isinstance(l, ast.Constant) and l.value == "/":
                return ("'/' in text", lambda s: s["slash"])
            if isinstance(l, ast.Call) and isinstance(l.func, ast.Name) and l.func.id == "len":
                v = m.const(r, f.module)
                if isinstance(op, ast.In):
                    vs = set(v)
                elif isinstance(op, ast.Eq):
                    vs = {v}
                else:
                    raise AnalysisError("vDDDTypes.from_ical: unsupported length test")
                return ("len in %s" % sorted(vs), lambda s, vs=vs: s["len"] in vs)
            if isinstance(op, ast.In) and isinstance(l, ast.Constant):
                raise AnalysisError(f"vDDDTypes.from_ical: unsupported membership test {dump(t)}")
        if isinstance(t, ast.Call) and isinstance(t.func, ast.Name) and t.func.id == "isinstance":
            return ("isinstance", lambda s: False)     # text inputs only
        raise AnalysisError(f"vDDDTypes.from_ical: unsupported test `{dump(t)}`")

    def target_of(stmts):
        for st in stmts:
            if isinstance(st, ast.Return) and isinstance(st.value, ast.Call) \
                    and isinstance(st.value.func, ast.Attribute) \
                    and st.value.func.attr == "from_ical" \
                    and isinstance(st.value.func.value, ast.Name):
                return st.value.func.value.id
            if isinstance(st, ast.Return):
                return "<other>"
            if isinstance(st, ast.Raise):
                return "<ValueError>"
        return None

    def chain(stmts):
        for st in stmts:
            if isinstance(st, ast.If):
                d, p = pred_of(st.test)
                tgt = target_of(st.body)
                if tgt is None:
                    raise AnalysisError("vDDDTypes.from_ical: branch without return/raise")
                table.append((d, p, tgt, st))
                if st.orelse:
                    if len(st.orelse) == 1 and isinstance(st.orelse[0], ast.If):
                        chain(st.orelse)
                    else:
                        tgt = target_of(st.orelse)
                        table.append(("else", lambda s: True, tgt, st))
            elif isinstance(st, ast.Raise):
                table.append(("fallthrough", lambda s: True, "<ValueError>", st))
            elif isinstance(st, ast.Return):
                table.append(("fallthrough", lambda s: True, target_of([st]), st))
    chain(body_without_docstring(f.node))
    return f, table


def dispatch_lengths(ctx):
    f, table = dispatch_table(ctx)
    out = {}
    for d, p, tgt, st in table:
        if d.startswith("len in"):
            out.setdefault(tgt, set()).update(eval(d[7:]))
    return out


RFC_SHAPES = [
    # (type, decoder, prefix, slash, lengths)
    ("DURATION", "vDuration", "P", False, (3, 4, 8, 15, 16, 6, 7, 12)),
    ("DURATION", "vDuration", "+P", False, (4, 8, 15, 16, 6, 7)),
    ("DURATION", "vDuration", "-P", False, (4, 8, 15, 16, 6, 7)),
    ("PERIOD", "vPeriod", "digit", True, (31, 33, 20, 21, 24)),
    ("DATE-TIME", "vDatetime", "digit", False, (15, 16)),
    ("DATE", "vDate", "digit", False, (8,)),
    ("TIME", "vTime", "digit", False, (6, 7)),
]


RFC_DESIGNATOR_UNIT = {"W": "weeks", "D": "days", "H": "hours", "M": "minutes",
                       "S": "seconds"}


def _group_designators(rxobj):
    """capture group number -> the literal character that follows it."""
    import re._constants as C
    toks = []

    def walk(seq):
        for op, arg in seq:
            if op is C.SUBPATTERN:
                g, _, _, sub = arg
                if g is not None:
                    toks.append(("open", g))
                walk(list(sub))
                if g is not None:
                    toks.append(("close", g))
            elif op is C.LITERAL:
                toks.append(("lit", chr(arg)))
            elif op in (C.MAX_REPEAT, C.MIN_REPEAT):
                walk(list(arg[2]))
            elif op is C.BRANCH:
                for alt in arg[1]:
                    walk(list(alt))
            else:
                toks.append(("other", None))
    walk(list(rxobj.tree))
    out = {}
    for i, t in enumerate(toks):
        if t[0] == "close" and i + 1 < len(toks) and toks[i + 1][0] == "lit":
            out[t[1]] = toks[i + 1][1]
    return out


def _duration_units(ctx, dur, vd):
    """Sibling agreement of the five duration components in the decoder and
    agreement of designator letters with timedelta units."""
    des = _group_designators(dur)
    unpack = None
    for n in ast.walk(vd.node):
        if isinstance(n, ast.Assign) and isinstance(n.targets[0], ast.Tuple) \
                and isinstance(n.value, ast.Call) and isinstance(n.value.func, ast.Attribute) \
                and n.value.func.attr == "groups":
            unpack = n
    td = [c for c in ast.walk(vd.node) if isinstance(c, ast.Call)
          and isinstance(c.func, ast.Name) and c.func.id == "timedelta" and c.keywords]
    if unpack is None or len(td) != 1:
        raise AnalysisError("vDuration.from_ical: groups() unpack / timedelta(...) not recognised")
    names = [e.id for e in unpack.targets[0].elts]
    var_unit = {}
    for i, v in enumerate(names, start=1):
        d = des.get(i)
        if d in RFC_DESIGNATOR_UNIT:
            var_unit[v] = RFC_DESIGNATOR_UNIT[d]
    shapes = {}
    for kw in td[0].keywords:
        used = [n.id for n in ast.walk(kw.value) if isinstance(n, ast.Name) and n.id in var_unit]
        grp = used[0] if len(used) == 1 else None
        ctx.check(grp is not None and var_unit[grp] == kw.arg, "C03/DUR-UNITS",
                  f"timedelta {kw.arg}= from its designator",
                  f"timedelta({kw.arg}=…) is fed from {used}, whose regex "
                  f"designators map to {[var_unit.get(u) for u in used]}",
                  vd.loc(kw.value), detail=f"{grp} -> {kw.arg}")
        if grp is not None:
            class R(ast.NodeTransformer):
                def visit_Name(self, node):
                    return ast.Name(id="$g", ctx=node.ctx) if node.id == grp else node
            import copy
            shapes[kw.arg] = dump(R().visit(copy.deepcopy(kw.value)))
    kinds = set(shapes.values())
    ctx.check(len(shapes) == 5 and len(kinds) == 1, "C03/DUR-UNITS",
              "all five components decoded alike",
              f"the duration components are not converted by the same "
              f"expression: {shapes} (a sign or default applied to some "
              f"components only)", vd.loc(td[0]), witness="-PT30S",
              detail=next(iter(kinds)) if kinds else "")
    # the sign negates the whole value
    sign_v = names[0]
    neg = [n for n in ast.walk(vd.node) if isinstance(n, ast.If)
           and isinstance(n.test, ast.Compare) and isinstance(n.test.left, ast.Name)
           and n.test.left.id == sign_v and isinstance(n.test.comparators[0], ast.Constant)
           and n.test.comparators[0].value == "-"]
    whole = False
    for n in neg:
        for b in n.body:
            if isinstance(b, ast.Assign) and isinstance(b.value, ast.UnaryOp) \
                    and isinstance(b.value.op, ast.USub) and isinstance(b.value.operand, ast.Name) \
                    and isinstance(b.targets[0], ast.Name) \
                    and b.value.operand.id == b.targets[0].id:
                whole = True
            if isinstance(b, ast.Return) and isinstance(b.value, ast.UnaryOp) \
                    and isinstance(b.value.op, ast.USub):
                whole = True
    signed_all = len(kinds) == 1 and any(sign_v in k or "sign" in k for k in kinds) and not neg
    ctx.check(whole or signed_all, "C03/DUR-UNITS", "sign negates the whole duration",
              "a leading '-' must negate the complete timedelta", vd.loc(),
              detail="if sign == '-': value = -value")


def run(ctx):
    m = ctx.model
    ctx.explanation = (
        "interpretation (E7, sa.codecmodel) of the DATE/DATE-TIME/TIME codecs on "
        "position-marker texts (writer layout = reader slices = RFC shape), of "
        "UTC-OFFSET and DURATION on a bounded value domain against the RFC reading, "
        "and of the combined decoder on one text of every RFC form; regex inclusion "
        "L(RFC dur-value) ⊆ L(DURATION_REGEX) and L(RFC weekdaynum) ⊆ L(WEEKDAY_RULE) "
        "(E5); handler discipline of every codec's from_ical (E3).")
    layout_rule(ctx, "C03/LAYOUT")

    # ---- GRAMMAR-IN --------------------------------------------------------
    dur = rx.repo_rx(m, "prop", "DURATION_REGEX")
    spec = rx.Rx(rfc.RFC_DUR_VALUE, 0, "RFC dur-value")
    ok, wit, n = rx.included(rx.Lang(spec, "full"), rx.Lang(dur, "match"))
    ctx.check(ok, "C03/GRAMMAR-IN", "DURATION_REGEX accepts RFC dur-value",
              "an RFC 5545 dur-value is rejected by DURATION_REGEX", None,
              witness=wit, detail=f"inclusion proved over {n} product states")
    ngroups = dur.tree.state.groups - 1
    ctx.check(ngroups == 6, "C03/GRAMMAR-IN", "DURATION_REGEX groups",
              f"DURATION_REGEX has {ngroups} groups; vDuration.from_ical unpacks "
              f"sign, weeks, days, hours, minutes, seconds", None, detail="6 groups")
    from .. import codecmodel
    vd = m.own_method("prop.vDuration.from_ical")
    codecmodel.report(ctx, "C03/DUR-UNITS", codecmodel.explore_duration, codecmodel.DUR_LAWS,
                      vd.loc(), 150)
    wr = rx.repo_rx(m, "prop", "WEEKDAY_RULE")
    spec = rx.Rx(rfc.RFC_WEEKDAYNUM, 0, "RFC weekdaynum")
    ok, wit, n = rx.included(rx.Lang(spec, "full"), rx.Lang(wr, "match"))
    ctx.check(ok, "C03/GRAMMAR-IN", "WEEKDAY_RULE accepts RFC weekdaynum",
              "an RFC weekdaynum is rejected by WEEKDAY_RULE", None, witness=wit,
              detail=f"{n} product states")
    vf = m.cls("prop.vFrequency")
    fr = m.class_const(vf, "frequencies")
    ctx.check(isinstance(fr, dict) and sorted(fr) == sorted(rfc.FREQUENCIES),
              "C03/GRAMMAR-IN", "frequency enumeration",
              "vFrequency.frequencies differs from the RFC enumeration", vf.loc(),
              detail="7 values")
    vw = m.cls("prop.vWeekday")
    wd = m.class_const(vw, "week_days")
    ctx.check(isinstance(wd, dict) and sorted(wd) == sorted(rfc.WEEKDAYS),
              "C03/GRAMMAR-IN", "weekday enumeration",
              "vWeekday.week_days differs from the RFC enumeration", vw.loc(),
              detail="SU..SA")
    vb = m.cls("prop.vBoolean")
    bm = m.class_const(vb, "BOOL_MAP")
    ctx.check(bm == {"TRUE": True, "FALSE": False}, "C03/GRAMMAR-IN", "boolean table",
              f"vBoolean.BOOL_MAP = {bm}", vb.loc(), detail="TRUE/FALSE")
    tb = vb.methods.get("to_ical")
    consts = sorted(c.value for c in ast.walk(tb.node) if isinstance(c, ast.Constant)
                    and isinstance(c.value, bytes))
    ctx.check(consts == [b"FALSE", b"TRUE"], "C03/GRAMMAR-IN", "boolean writer",
              f"vBoolean.to_ical emits {consts}", tb.loc(), detail="b'TRUE'/b'FALSE'")

    # ---- DISPATCH: the combined decoder on one text of every RFC form -----------
    codecmodel.report(ctx, "C03/DISPATCH", codecmodel.explore_dispatch, codecmodel.DISPATCH_LAWS,
                      m.own_method("prop.vDDDTypes.from_ical").loc(), 20)

    codecmodel.report(ctx, "C03/SCALARS", codecmodel.explore_scalars, codecmodel.SCALAR_LAWS,
                      m.cls("prop.vInt").loc(), 30)
    codecmodel.report(ctx, "C03/FRESH", codecmodel.explore_freshness, codecmodel.FRESH_LAWS,
                      m.cls("prop.vDDDTypes").loc(), 8)

    # ---- WRAP --------------------------------------------------------------
    try:
        from ..effects import wrap_rule
    except ImportError:
        ctx.note("C03/WRAP not armed: exception engine (E3) not built yet")
    else:
        wrap_rule(ctx, "C03/WRAP")
