"""C08 - parameters round-trip with correct quoting, list arity, caseless names.

Decided: QUOTE (class inclusion), PARAM-MODEL (E9: quoting, separators, arity,
order, caseless names, freshness, injection - bounded exhaustive over the
character-class quotient), VALUE-PATH (E4 identity of the placeholder
rewriting).  Not decided: values longer than the bound as such.
"""
import ast

from ..core import AnalysisError
from ..flow import SymEnv, is_param, is_marker, dump
from ..model import walk_no_nested, FuncInfo
from ..oracles import rfc
from .. import rx, fst
from ..textpath import TextPath, stages_of
from .c07 import decide_equiv


def _s(v):
    return v.decode("latin-1") if isinstance(v, bytes) else v


def qsplit_calls(model, f):
    """[(call, text_arg, sep, maxsplit)] for q_split calls in f."""
    out = []
    qs = model.func("parser.q_split")
    dsep = None
    a = qs.node.args
    defaults = dict(zip([x.arg for x in a.args][-len(a.defaults):], a.defaults))
    dsep = model.const(defaults.get("sep"), qs.module) if "sep" in defaults else None
    for c in ast.walk(f.node):
        if isinstance(c, ast.Call) and isinstance(c.func, ast.Name) and c.func.id == "q_split":
            r = model.resolve_name(f.module, "q_split")
            if not (isinstance(r, FuncInfo) and r.qualname == qs.qualname):
                continue
            sep = dsep
            mx = None
            if len(c.args) > 1:
                sep = model.const(c.args[1], f.module)
            for k in c.keywords:
                if k.arg == "sep":
                    sep = model.const(k.value, f.module)
                if k.arg == "maxsplit":
                    mx = model.const(k.value, f.module)
            if len(c.args) > 2:
                mx = model.const(c.args[2], f.module)
            out.append((c, c.args[0], sep, mx))
    return out


def writer_param_delims(ctx):
    m = ctx.model
    ti = m.own_method("parser.Parameters.to_ical")
    out = {}
    acc = None
    for c in ast.walk(ti.node):
        if isinstance(c, ast.Call) and isinstance(c.func, ast.Attribute) \
                and c.func.attr == "append" and c.args \
                and isinstance(c.func.value, ast.Name):
            acc = c.func.value.id
    for n in ast.walk(ti.node):
        if isinstance(n, ast.Call) and isinstance(n.func, ast.Attribute) \
                and n.func.attr == "join" and isinstance(n.func.value, ast.Constant) \
                and n.args and isinstance(n.args[0], ast.Name) and n.args[0].id == acc:
            out["param"] = _s(n.func.value.value)
    for c in ast.walk(ti.node):
        if isinstance(c, ast.Call) and isinstance(c.func, ast.Attribute) \
                and c.func.attr == "append" and c.args:
            parts = []

            def flat(x):
                if isinstance(x, ast.BinOp) and isinstance(x.op, ast.Add):
                    flat(x.left)
                    flat(x.right)
                else:
                    parts.append(x)
            flat(c.args[0])
            if len(parts) == 3 and isinstance(parts[1], ast.Constant):
                out["keyvalue"] = _s(parts[1].value)
    qj = m.func("parser.q_join")
    a = qj.node.args
    if a.defaults:
        out["value"] = _s(m.const(a.defaults[-1], qj.module))
    if len(out) < 3:
        raise AnalysisError(f"Parameters.to_ical/q_join separator roles not recognised: {out}")
    return out, ti, qj


def reader_param_delims(ctx):
    m = ctx.model
    fi = m.own_method("parser.Parameters.from_ical")
    calls = qsplit_calls(m, fi)
    out = {}
    env = SymEnv(fi.node)
    st_p = fi.params[1]
    info = {}
    for c, arg, sep, mx in calls:
        a = env.expand_at(arg)
        if is_param(a, st_p):
            out["param"] = sep
            info["param"] = c
        elif mx == 1:
            out["keyvalue"] = sep
            info["keyvalue"] = c
        else:
            out["value"] = sep
            info["value"] = c
    if "param" not in out or "keyvalue" not in out:
        raise AnalysisError(f"Parameters.from_ical: q_split roles not recognised: {out}")
    out.setdefault("value", None)
    return out, fi, info


def run(ctx):
    m = ctx.model
    ctx.explanation = (
        "character-class inclusion for QUOTABLE (E5); bounded exhaustive abstract "
        "execution (E9, sa.strmodel) of Parameters.to_ical / from_ical and of "
        "Contentline.from_parts / parts on every parameter value up to the length "
        "bound over the character-class quotient, compared with an independent "
        "RFC 5545 reading of the emitted text (quoting, separators, arity, order, "
        "caseless names, freshness); transducer identity of the only rewriting on "
        "the parameter value path (unescape_string ∘ escape_string, E4).")
    # ---- QUOTE: class inclusion ------------------------------------------------
    q = rx.repo_rx(m, "parser", "QUOTABLE")
    members = rx.class_members(q, [chr(i) for i in range(32, 127)])
    for ch in rfc.MUST_QUOTE:
        ctx.check(ch in members, "C08/QUOTE", f"QUOTABLE contains {ch!r}",
                  f"a parameter value containing {ch!r} would be emitted "
                  f"unquoted (QUOTABLE lacks it)", None, detail="in class")
    # ---- PARAM-MODEL -------------------------------------------------------------
    from .. import strmodel
    ti = m.own_method("parser.Parameters.to_ical")
    strmodel.report(ctx, "C08/PARAM-MODEL", strmodel.explore_params, strmodel.PARAM_LAWS,
                    ti.loc(), 300)
    # ---- OWN: parameters belong to one value (E7 on every codec constructor) ------
    from .. import codecmodel
    codecmodel.report(ctx, "C08/OWN", codecmodel.explore_params_ownership, codecmodel.OWN_LAWS,
                      m.cls("parser.Parameters").loc(), 10)
    # ---- VALUE-PATH: the reader's placeholder rewriting is the identity -----------
    es = m.func("parser.escape_string")
    us = m.func("parser.unescape_string")
    ce, cu = fst.function_chains(m, es), fst.function_chains(m, us)
    if "str" not in ce or "str" not in cu:
        raise AnalysisError("escape_string/unescape_string: no str chain")
    path = fst.Chain(ce["str"].stages + cu["str"].stages, "unescape_string∘escape_string")
    ident = fst.Chain([], "identity")
    parts = m.own_method("parser.Contentline.parts")
    decide_equiv(ctx, "C08/VALUE-PATH", path, ident,
                 "parameter value through Contentline.parts", parts.loc(),
                 n_other=2 if ctx.thorough else 1)
    ctx.floor("C08/QUOTE", 3)
