"""C08 - parameters round-trip with correct quoting, list arity, caseless names.

Decided: QUOTE, DELIMS, ARITY, CASE, VALUE-PATH (DESIGN.md 5/C08).
Not decided: the scanner q_split itself (loop with a quote flag).
"""
import ast

from ..core import AnalysisError
from ..flow import SymEnv, is_param, is_marker, dump
from ..model import walk_no_nested, FuncInfo
from ..oracles import rfc
from .. import rx, fst
from ..textpath import TextPath, stages_of
from .c07 import decide_equiv


def _s(v):
    return v.decode("latin-1") if isinstance(v, bytes) else v


def qsplit_calls(model, f):
    """[(call, text_arg, sep, maxsplit)] for q_split calls in f."""
    out = []
    qs = model.func("parser.q_split")
    dsep = None
    a = qs.node.args
    defaults = dict(zip([x.arg for x in a.args][-len(a.defaults):], a.defaults))
    dsep = model.const(defaults.get("sep"), qs.module) if "sep" in defaults else None
    for c in ast.walk(f.node):
        if isinstance(c, ast.Call) and isinstance(c.func, ast.Name) and c.func.id == "q_split":
            r = model.resolve_name(f.module, "q_split")
            if not (isinstance(r, FuncInfo) and r.qualname == qs.qualname):
                continue
            sep = dsep
            mx = None
            if len(c.args) > 1:
                sep = model.const(c.args[1], f.module)
            for k in c.keywords:
                if k.arg == "sep":
                    sep = model.const(k.value, f.module)
                if k.arg == "maxsplit":
                    mx = model.const(k.value, f.module)
            if len(c.args) > 2:
                mx = model.const(c.args[2], f.module)
            out.append((c, c.args[0], sep, mx))
    return out


def writer_param_delims(ctx):
    m = ctx.model
    ti = m.own_method("parser.Parameters.to_ical")
    out = {}
    acc = None
    for c in ast.walk(ti.node):
        if isinstance(c, ast.Call) and isinstance(c.func, ast.Attribute) \
                and c.func.attr == "append" and c.args \
                and isinstance(c.func.value, ast.Name):
            acc = c.func.value.id
    for n in ast.walk(ti.node):
        if isinstance(n, ast.Call) and isinstance(n.func, ast.Attribute) \
                and n.func.attr == "join" and isinstance(n.func.value, ast.Constant) \
                and n.args and isinstance(n.args[0], ast.Name) and n.args[0].id == acc:
            out["param"] = _s(n.func.value.value)
    for c in ast.walk(ti.node):
        if isinstance(c, ast.Call) and isinstance(c.func, ast.Attribute) \
                and c.func.attr == "append" and c.args:
            parts = []

            def flat(x):
                if isinstance(x, ast.BinOp) and isinstance(x.op, ast.Add):
                    flat(x.left)
                    flat(x.right)
                else:
                    parts.append(x)
            flat(c.args[0])
            if len(parts) == 3 and isinstance(parts[1], ast.Constant):
                out["keyvalue"] = _s(parts[1].value)
    qj = m.func("parser.q_join")
    a = qj.node.args
    if a.defaults:
        out["value"] = _s(m.const(a.defaults[-1], qj.module))
    if len(out) < 3:
        raise AnalysisError(f"Parameters.to_ical/q_join separator roles not recognised: {out}")
    return out, ti, qj


def reader_param_delims(ctx):
    m = ctx.model
    fi = m.own_method("parser.Parameters.from_ical")
    calls = qsplit_calls(m, fi)
    out = {}
    env = SymEnv(fi.node)
    st_p = fi.params[1]
    info = {}
    for c, arg, sep, mx in calls:
        a = env.expand_at(arg)
        if is_param(a, st_p):
            out["param"] = sep
            info["param"] = c
        elif mx == 1:
            out["keyvalue"] = sep
            info["keyvalue"] = c
        else:
            out["value"] = sep
            info["value"] = c
    if "param" not in out or "keyvalue" not in out:
        raise AnalysisError(f"Parameters.from_ical: q_split roles not recognised: {out}")
    out.setdefault("value", None)
    return out, fi, info


def run(ctx):
    m = ctx.model
    ctx.explanation = (
        "character-class inclusion for QUOTABLE, sanitiser must-pass-through "
        "(param_value -> dquote/q_join -> dquote per item), writer/reader "
        "delimiter roles, arity shape of Parameters.from_ical, name case "
        "folding on both sides, and transducer identity of the only rewriting "
        "on the parameter value path (unescape_string ∘ escape_string).")
    # ---- QUOTE -------------------------------------------------------------
    q = rx.repo_rx(m, "parser", "QUOTABLE")
    members = rx.class_members(q, [chr(i) for i in range(32, 127)])
    for ch in rfc.MUST_QUOTE:
        ctx.check(ch in members, "C08/QUOTE", f"QUOTABLE contains {ch!r}",
                  f"a parameter value containing {ch!r} would be emitted "
                  f"unquoted (QUOTABLE lacks it)", None, detail="in class")
    dq = m.func("parser.dquote")
    val_p = dq.params[0]
    # shape: [val = val.replace('"', X)]; if QUOTABLE.search(val): return '"'+val+'"'; return val
    env = SymEnv(dq.node)
    quoted_ret = None
    for n in ast.walk(dq.node):
        if isinstance(n, ast.If):
            t = n.test
            if isinstance(t, ast.Call) and isinstance(t.func, ast.Attribute) \
                    and t.func.attr == "search" and isinstance(t.func.value, ast.Name) \
                    and t.func.value.id == "QUOTABLE":
                r = n.body[0] if n.body and isinstance(n.body[0], ast.Return) else None
                if r is not None:
                    quoted_ret = (n, r)
    okq = False
    if quoted_ret:
        n, r = quoted_ret
        v = r.value
        if isinstance(v, ast.JoinedStr) and len(v.values) == 3 \
                and isinstance(v.values[0], ast.Constant) and v.values[0].value == '"' \
                and isinstance(v.values[2], ast.Constant) and v.values[2].value == '"' \
                and isinstance(v.values[1], ast.FormattedValue):
            okq = dump(v.values[1].value) == dump(n.test.args[0])
    ctx.check(okq, "C08/QUOTE", "dquote quotes on QUOTABLE hit",
              "dquote must return the value inside double quotes whenever "
              "QUOTABLE.search hits the same (sanitised) value", dq.loc(),
              detail='if QUOTABLE.search(val): return f\'"{val}"\'')
    # the DQUOTE character itself is removed before the test
    rep = [c for c in ast.walk(dq.node) if isinstance(c, ast.Call)
           and isinstance(c.func, ast.Attribute) and c.func.attr == "replace"
           and c.args and isinstance(c.args[0], ast.Constant) and c.args[0].value == '"']
    ok_rep = bool(rep) and quoted_ret is not None and \
        rep[0].lineno < quoted_ret[0].lineno and \
        isinstance(rep[0].args[1], ast.Constant) and '"' not in rep[0].args[1].value
    ctx.check(ok_rep, "C08/QUOTE", "dquote removes DQUOTE first",
              "a double quote inside a value must be replaced before quoting "
              "(it would end the quoted string)", dq.loc(), detail="val.replace('\"', …)")
    pv = m.func("parser.param_value")
    rets = [n for n in walk_no_nested(pv.node) if isinstance(n, ast.Return)]
    good = bool(rets)
    for r in rets:
        v = r.value
        good &= isinstance(v, ast.Call) and isinstance(v.func, ast.Name) \
            and v.func.id in ("dquote", "q_join")
    ctx.check(good, "C08/QUOTE", "param_value always sanitises",
              "every return of param_value must go through dquote or q_join",
              pv.loc(), detail=f"{len(rets)} returns, all dquote/q_join")
    qj = m.func("parser.q_join")
    rets = [n for n in walk_no_nested(qj.node) if isinstance(n, ast.Return)]
    good = len(rets) == 1
    if good:
        v = rets[0].value
        good = (isinstance(v, ast.Call) and isinstance(v.func, ast.Attribute)
                and v.func.attr == "join" and isinstance(v.func.value, ast.Name)
                and v.func.value.id == qj.params[1]
                and isinstance(v.args[0], (ast.GeneratorExp, ast.ListComp))
                and isinstance(v.args[0].elt, ast.Call)
                and isinstance(v.args[0].elt.func, ast.Name)
                and v.args[0].elt.func.id == "dquote"
                and is_param(SymEnv(qj.node).expand_at(v.args[0].generators[0].iter, rets[0]),
                             qj.params[0])
                and not v.args[0].generators[0].ifs)
    ctx.check(good, "C08/QUOTE", "q_join quotes every item",
              "q_join must apply dquote to every item of the list before joining",
              qj.loc(), detail="sep.join(dquote(itm) for itm in lst)")
    # to_ical sends every value through param_value
    ti = m.own_method("parser.Parameters.to_ical")
    pvc = [c for c in ast.walk(ti.node) if isinstance(c, ast.Call)
           and isinstance(c.func, ast.Name) and c.func.id == "param_value"]
    ctx.check(len(pvc) == 1, "C08/QUOTE", "to_ical uses param_value",
              "Parameters.to_ical must render each value with param_value",
              ti.loc(), detail="value = param_value(value)")

    # ---- DELIMS ------------------------------------------------------------
    w, ti, qj = writer_param_delims(ctx)
    r, fi, info = reader_param_delims(ctx)
    for role in ("param", "keyvalue", "value"):
        ctx.check(w[role] == r[role], "C08/DELIMS", f"{role} separator",
                  f"writer separates {role}s with {w[role]!r}, reader splits "
                  f"quote-aware on {r[role]!r}", fi.loc(info.get(role)),
                  detail=repr(w[role]))
    ctx.check((w["param"], w["keyvalue"], w["value"]) == (";", "=", ","),
              "C08/DELIMS", "RFC separators",
              f"RFC 5545 3.1: params separated by ';', name '=' value, values "
              f"by ','; writer uses {w}", ti.loc(), detail="; = ,")

    # ---- ARITY -------------------------------------------------------------
    # the value list comes from the quote-aware splitter
    ctx.check("value" in info, "C08/ARITY", "values split quote-aware",
              "parameter values must be split with q_split (a quoted value "
              "containing ',' is one value)", fi.loc(), detail="q_split(val, ',')")
    plain_split = [c for c in ast.walk(fi.node) if isinstance(c, ast.Call)
                   and isinstance(c.func, ast.Attribute) and c.func.attr == "split"]
    ctx.check(not plain_split, "C08/ARITY", "no str.split in the reader",
              f"`{dump(plain_split[0]) if plain_split else ''}` splits without "
              f"regard to quotes", fi.loc(plain_split[0]) if plain_split else fi.loc(),
              detail="only q_split")
    # every split value is appended (quoted: stripped of quotes; unquoted: as is)
    loops = [n for n in ast.walk(fi.node) if isinstance(n, ast.For)
             and any(x is info.get("value") for x in ast.walk(n.iter))]
    if "value" not in info:
        loops = [n for n in ast.walk(fi.node) if isinstance(n, ast.For)
                 and any(isinstance(c, ast.Call) and isinstance(c.func, ast.Attribute)
                         and c.func.attr == "append" for c in ast.walk(n))
                 and not any(isinstance(x, ast.Try) for x in ast.walk(n))]
    if len(loops) != 1:
        raise AnalysisError("Parameters.from_ical: value loop not found")
    lp = loops[0]
    appends = [c for c in ast.walk(lp) if isinstance(c, ast.Call)
               and isinstance(c.func, ast.Attribute) and c.func.attr == "append"]
    skips = [n for n in ast.walk(lp) if isinstance(n, (ast.Continue, ast.Break))]
    # each path of the loop body appends exactly once: check If/else coverage

    def paths_append(stmts):
        """min and max number of appends over paths of a block"""
        lo = hi = 0
        for st in stmts:
            if isinstance(st, ast.If):
                a1, b1 = paths_append(st.body)
                a2, b2 = paths_append(st.orelse)
                lo += min(a1, a2)
                hi += max(b1, b2)
            elif isinstance(st, ast.Expr) and st.value in appends:
                lo += 1
                hi += 1
        return lo, hi
    lo, hi = paths_append(lp.body)
    ctx.check(lo == 1 and hi == 1 and not skips, "C08/ARITY",
              "each split value kept exactly once",
              f"a value of the list is appended between {lo} and {hi} times per "
              f"path: arity is not preserved", fi.loc(lp), detail="one append per path")
    acc = appends[0].func.value.id if appends and isinstance(appends[0].func.value, ast.Name) else None
    # result[key] = vals[0] if len(vals) == 1 else vals
    ok_ar = False
    for n in ast.walk(fi.node):
        if isinstance(n, ast.If) and isinstance(n.test, ast.Compare) \
                and isinstance(n.test.left, ast.Call) \
                and isinstance(n.test.left.func, ast.Name) \
                and n.test.left.func.id == "len" \
                and isinstance(n.test.left.args[0], ast.Name) \
                and n.test.left.args[0].id == acc \
                and isinstance(n.test.ops[0], ast.Eq) \
                and isinstance(n.test.comparators[0], ast.Constant) \
                and n.test.comparators[0].value == 1:
            b, o = n.body, n.orelse
            if len(b) == 1 and len(o) == 1 and isinstance(b[0], ast.Assign) \
                    and isinstance(o[0], ast.Assign):
                bv, ov = b[0].value, o[0].value
                ok_ar = (isinstance(bv, ast.Subscript) and isinstance(bv.value, ast.Name)
                         and bv.value.id == acc and isinstance(bv.slice, ast.Constant)
                         and bv.slice.value == 0 and isinstance(ov, ast.Name)
                         and ov.id == acc)
    ctx.check(ok_ar, "C08/ARITY", "one value -> str, n values -> list of n",
              "the reader must store the single value itself when exactly one "
              "was split and the whole list (same order) otherwise", fi.loc(),
              detail="len(vals) == 1 ? vals[0] : vals")
    # writer: list -> q_join over all items, str -> dquote
    seq_branch = False
    for n in ast.walk(pv.node):
        if isinstance(n, ast.If) and "SEQUENCE_TYPES" in dump(n.test) \
                and isinstance(n.body[0], ast.Return) \
                and isinstance(n.body[0].value, ast.Call) \
                and isinstance(n.body[0].value.func, ast.Name) \
                and n.body[0].value.func.id == "q_join":
            seq_branch = is_param(SymEnv(pv.node).expand_at(n.body[0].value.args[0], n.body[0]),
                                  pv.params[0])
    ctx.check(seq_branch, "C08/ARITY", "writer joins the whole list",
              "param_value must send list/tuple values to q_join unchanged",
              pv.loc(), detail="isinstance(value, SEQUENCE_TYPES) -> q_join(value)")

    # every appended value is the split text itself (quotes stripped / strict
    # upper-casing only): any other decoding step has no inverse in the writer
    tgt = lp.target.id if isinstance(lp.target, ast.Name) else None
    envf = SymEnv(fi.node)
    for ap_i, ap in enumerate(sorted(appends, key=lambda c: (c.lineno, c.col_offset))):
        e = ap.args[0]
        cur = e
        steps = []
        # follow local re-assignments of the loop variable inside the loop body
        seen_guard = 0
        while seen_guard < 6:
            seen_guard += 1
            if isinstance(cur, ast.Call) and isinstance(cur.func, ast.Attribute) \
                    and cur.func.attr in ("strip", "upper") \
                    and (cur.func.attr == "upper" or (cur.args and isinstance(cur.args[0], ast.Constant)
                                                      and cur.args[0].value == '"')):
                steps.append(cur.func.attr)
                cur = cur.func.value
                continue
            if isinstance(cur, ast.Name) and cur.id == tgt:
                # was the loop variable reassigned before this append?
                reass = [n for n in ast.walk(lp) if isinstance(n, ast.Assign)
                         and isinstance(n.targets[0], ast.Name) and n.targets[0].id == tgt
                         and n.lineno < ap.lineno]
                bad = [n for n in reass if not (
                    isinstance(n.value, ast.Call) and isinstance(n.value.func, ast.Attribute)
                    and n.value.func.attr in ("strip", "upper")
                    and isinstance(n.value.func.value, ast.Name) and n.value.func.value.id == tgt)]
                cur = None if not bad else bad[0].value
                break
            break
        ctx.check(cur is None, "C08/VALUE-PATH", f"reader keeps split value verbatim (append #{ap_i + 1})",
                  f"Parameters.from_ical stores `{dump(e)[:60]}`: a decoding step "
                  f"(`{dump(cur)[:50] if cur is not None else ''}`) that the writer "
                  f"(param_value/dquote) does not apply in reverse", fi.loc(ap),
                  detail="v / v.strip('\"') / v.upper() (strict)")

    # ---- FRESH: to_ical depends on the current items only ---------------------
    mapping_api = {"items", "keys", "values", "sorted_items", "sorted_keys", "get"}
    hidden = [n for n in ast.walk(ti.node) if isinstance(n, ast.Attribute)
              and isinstance(n.value, ast.Name) and n.value.id == ti.params[0]
              and n.attr not in mapping_api]
    ctx.check(not hidden, "C08/FRESH", "to_ical reads only the current items",
              f"Parameters.to_ical touches self.{hidden[0].attr if hidden else ''}: "
              f"output that depends on stored state (a cache) goes stale when a "
              f"list value is edited in place or pop()/clear() are used",
              ti.loc(hidden[0]) if hidden else ti.loc(), detail="self.items() only")
    over = [name for name in ("__setitem__", "__delitem__", "pop", "update", "clear", "popitem")
            if name in m.cls("parser.Parameters").methods]
    ctx.check(not over, "C08/FRESH", "Parameters adds no mutation hooks",
              f"Parameters overrides {over}: per-operation bookkeeping that other "
              f"mutators bypass", m.cls("parser.Parameters").loc(), detail="none")

    # ---- CASE --------------------------------------------------------------
    up = None
    envt = SymEnv(ti.node)
    for c in ast.walk(ti.node):
        if isinstance(c, ast.Call) and isinstance(c.func, ast.Attribute) \
                and c.func.attr == "append" and c.args:
            e = envt.expand_at(c.args[0])
            up = any(isinstance(x, ast.Call) and isinstance(x.func, ast.Attribute)
                     and x.func.attr == "upper" for x in ast.walk(e.left if isinstance(e, ast.BinOp) else e))
    ctx.check(bool(up), "C08/CASE", "names upper-cased on write",
              "Parameters.to_ical must emit key.upper()", ti.loc(),
              detail="key.upper().encode(...) + b'=' + value")
    stores = [n for n in ast.walk(fi.node) if isinstance(n, ast.Assign)
              and isinstance(n.targets[0], ast.Subscript)
              and isinstance(n.targets[0].value, ast.Name)]
    res_names = {n.targets[0].value.id for n in stores}
    made = [n for n in ast.walk(fi.node) if isinstance(n, ast.Assign)
            and isinstance(n.targets[0], ast.Name) and n.targets[0].id in res_names
            and isinstance(n.value, ast.Call) and isinstance(n.value.func, ast.Name)
            and n.value.func.id == fi.params[0]]
    ctx.check(bool(stores) and bool(made), "C08/CASE", "names stored caselessly on read",
              "Parameters.from_ical must store into a cls() instance through "
              "item assignment (CaselessDict.__setitem__ folds the case)",
              fi.loc(), detail="result = cls(); result[key] = …")
    tp = TextPath(ctx)
    pe = tp.params_expr
    okp = (isinstance(pe, ast.Call) and isinstance(pe.func, ast.Name)
           and pe.func.id == "Parameters" and pe.args
           and isinstance(pe.args[0], ast.GeneratorExp))
    ctx.check(okp, "C08/CASE", "parts rebuilds a Parameters mapping",
              "Contentline.parts must return parameters as a Parameters "
              "(caseless) mapping", tp.parts.loc(), detail="Parameters((k, v) for …)")

    # ---- VALUE-PATH --------------------------------------------------------
    # reader side: items of Parameters.from_ical(escape_string(line)[..]) go
    # through unescape_list_or_string == unescape_string per item
    uls = m.func("parser.unescape_list_or_string")
    calls = {c.func.id for c in ast.walk(uls.node) if isinstance(c, ast.Call)
             and isinstance(c.func, ast.Name)} - {"isinstance"}
    ctx.check(calls == {"unescape_string"}, "C08/VALUE-PATH",
              "unescape_list_or_string maps unescape_string",
              f"unescape_list_or_string applies {sorted(calls)}", uls.loc(),
              detail="per item / whole string")
    if okp:
        elt = pe.args[0].elt
        fns = [c.func.id for c in ast.walk(elt) if isinstance(c, ast.Call)
               and isinstance(c.func, ast.Name)]
        src_ok = any(isinstance(x, ast.Call) and isinstance(x.func, ast.Attribute)
                     and x.func.attr == "from_ical" for x in ast.walk(pe.args[0].generators[0].iter))
        arg_ok = "escape_string" in dump(pe.args[0].generators[0].iter)
        ctx.check(sorted(fns) == ["unescape_list_or_string", "unescape_string"]
                  and src_ok and arg_ok, "C08/VALUE-PATH",
                  "reader rewriting is escape_string then unescape_string",
                  f"parameter keys/values are rewritten by {fns} over "
                  f"`{dump(pe.args[0].generators[0].iter)[:60]}`", tp.parts.loc(),
                  detail="unescape_string(key), unescape_list_or_string(value) over "
                         "Parameters.from_ical(escape_string(line)[…])")
    es = m.func("parser.escape_string")
    us = m.func("parser.unescape_string")
    path = tp.compose([es, us], "unescape_string∘escape_string")
    ident = fst.Chain([], "identity")
    decide_equiv(ctx, "C08/VALUE-PATH", path, ident,
                 "parameter value through Contentline.parts", tp.parts.loc(),
                 n_other=2 if ctx.thorough else 1)
    # writer side applies no other rewriting than dquote's DQUOTE replacement
    other_repl = [c for c in ast.walk(dq.node) if isinstance(c, ast.Call)
                  and isinstance(c.func, ast.Attribute) and c.func.attr == "replace"]
    ctx.check(len(other_repl) == 1, "C08/VALUE-PATH", "writer rewrites only DQUOTE",
              f"dquote applies {len(other_repl)} replacements", dq.loc(),
              detail="only '\"' is replaced")
    ctx.floor("C08/QUOTE", 8)
