"""C20 - traversal is complete; equality is an order-insensitive equivalence.

Decided: WALK (pre-order, whole list, pass-through), ACCESSORS (literal ==
class name constant), EQ-TOTAL (no __eq__ touches a foreign operand
unguarded), EQ-OBSERVES (equality looks at every field serialisation reads),
PICKLE (reducers registered; existence only).
Not decided: reflexivity/symmetry/multiset matching for all trees, pickle
fidelity.
"""
import ast

from ..core import AnalysisError
from ..flow import SymEnv, is_param, is_marker, dump
from ..model import ClassInfo, walk_no_nested, body_without_docstring, is_super_call


def run(ctx):
    m = ctx.model
    comp = m.cls("cal.Component")
    ctx.explanation = (
        "shape rules on Component._walk/walk (pre-order append before an "
        "unfiltered loop over self.subcomponents with pass-through of name and "
        "select), accessor literal vs class name constants, guard analysis of "
        "every __eq__ in the package, fields read by property_items vs fields "
        "compared by Component.__eq__, copyreg registrations.")
    _walk_rule(ctx, comp)
    _accessors(ctx)
    _eq_total(ctx)
    _eq_observes(ctx, comp)
    _pickle(ctx)


# ---------------------------------------------------------------------------
def _walk_rule(ctx, comp):
    w = comp.methods.get("_walk")
    if w is None:
        raise AnalysisError("anchor vanished: Component._walk")
    if len(w.params) != 3:
        raise AnalysisError("Component._walk no longer takes (self, name, select)")
    selfn, name_p, sel_p = w.params
    body = body_without_docstring(w.node)
    env = SymEnv(w.node)
    loops = [(i, st) for i, st in enumerate(body) if isinstance(st, ast.For)]
    sub_loops = []
    for i, lp in loops:
        it = env.expand_at(lp.iter, lp)
        if isinstance(it, ast.Attribute) and it.attr == "subcomponents" \
                and is_param(it.value, selfn):
            sub_loops.append((i, lp, "whole"))
        elif any(isinstance(x, ast.Attribute) and x.attr == "subcomponents"
                 for x in ast.walk(it)):
            sub_loops.append((i, lp, dump(it)))
    if len(sub_loops) != 1:
        # comprehension-based rewrite? look for it
        raise AnalysisError("Component._walk: expected exactly one loop over "
                            "self.subcomponents at the top level of the body")
    li, lp, how = sub_loops[0]
    ctx.check(how == "whole", "C20/WALK", "_walk iterates whole list",
              f"_walk iterates `{how}` instead of the entire self.subcomponents",
              w.loc(lp), detail="for sub in self.subcomponents")
    exits = [n for n in ast.walk(lp) if isinstance(n, (ast.Break, ast.Return, ast.Continue))]
    conds = [n for n in lp.body if isinstance(n, ast.If)]
    ctx.check(not exits and not conds and not lp.orelse, "C20/WALK",
              "_walk loop unconditional",
              "the loop over subcomponents has an early exit or a filter: some "
              "subcomponents are not visited", w.loc(lp),
              detail="no break/continue/return/if in the loop")
    # accumulation of the recursive result with pass-through args
    rec = [c for c in ast.walk(lp) if isinstance(c, ast.Call)
           and isinstance(c.func, ast.Attribute) and c.func.attr == "_walk"]
    acc_ok = False
    pass_ok = False
    acc_name = None
    for st in lp.body:
        if isinstance(st, ast.AugAssign) and isinstance(st.op, ast.Add) \
                and isinstance(st.target, ast.Name) and st.value in rec:
            acc_ok, acc_name = True, st.target.id
        if isinstance(st, ast.Expr) and isinstance(st.value, ast.Call) \
                and isinstance(st.value.func, ast.Attribute) \
                and st.value.func.attr == "extend" and st.value.args \
                and st.value.args[0] in rec \
                and isinstance(st.value.func.value, ast.Name):
            acc_ok, acc_name = True, st.value.func.value.id
    for c in rec:
        recv = c.func.value
        tgt_ok = isinstance(recv, ast.Name) and isinstance(lp.target, ast.Name) \
            and recv.id == lp.target.id
        args = list(c.args) + [k.value for k in c.keywords]
        pass_ok = tgt_ok and len(args) == 2 and all(
            isinstance(a, ast.Name) for a in args) and \
            [a.id for a in args] == [name_p, sel_p] and \
            is_param(env.expand_at(args[0], lp), name_p) and \
            is_param(env.expand_at(args[1], lp), sel_p)
    ctx.check(len(rec) == 1 and acc_ok, "C20/WALK", "_walk accumulates recursion",
              "every recursive _walk result must be added to the result list",
              w.loc(lp), detail="result += sub._walk(...)")
    ctx.check(pass_ok, "C20/WALK", "_walk passes name and select",
              "the recursive call must pass the requested name and predicate "
              "through unchanged on the loop element", w.loc(lp),
              detail="sub._walk(name, select)")
    # self appended before the loop, under the name/select test
    pre = None
    for i, st in enumerate(body[:li]):
        for n in ast.walk(st):
            if isinstance(n, ast.Call) and isinstance(n.func, ast.Attribute) \
                    and n.func.attr == "append" and n.args \
                    and isinstance(n.args[0], ast.Name) and n.args[0].id == selfn \
                    and isinstance(n.func.value, ast.Name) \
                    and n.func.value.id == acc_name:
                pre = st
    post = any(isinstance(n, ast.Call) and isinstance(n.func, ast.Attribute)
               and n.func.attr in ("append", "insert") and n.args
               and any(isinstance(a, ast.Name) and a.id == selfn for a in n.args)
               for st in body[li:] for n in ast.walk(st))
    ctx.check(pre is not None and not post, "C20/WALK", "_walk pre-order",
              "self must be appended to the result before its subcomponents "
              "are visited (pre-order)", w.loc(),
              detail="append(self) precedes the loop")
    if pre is not None:
        if isinstance(pre, ast.If):
            t = pre.test
            s = dump(t)
            has_none = any(isinstance(c, ast.Compare) and isinstance(c.ops[0], ast.Is)
                           and isinstance(c.left, ast.Name) and c.left.id == name_p
                           for c in ast.walk(t))
            has_eq = any(isinstance(c, ast.Compare) and isinstance(c.ops[0], ast.Eq)
                         and {dump(c.left), dump(c.comparators[0])} ==
                         {f"{selfn}.name", name_p} for c in ast.walk(t))
            has_sel = any(isinstance(c, ast.Call) and isinstance(c.func, ast.Name)
                          and c.func.id == sel_p and len(c.args) == 1
                          and isinstance(c.args[0], ast.Name) and c.args[0].id == selfn
                          for c in ast.walk(t))
            shape = (isinstance(t, ast.BoolOp) and isinstance(t.op, ast.And)
                     and len(t.values) == 2 and isinstance(t.values[0], ast.BoolOp)
                     and isinstance(t.values[0].op, ast.Or))
            ctx.check(has_none and has_eq and has_sel and shape and not pre.orelse,
                      "C20/WALK", "_walk membership test",
                      f"self is listed iff (name is None or self.name == name) "
                      f"and select(self); found `{s}`", w.loc(pre),
                      detail="(name is None or self.name == name) and select(self)")
        else:
            ctx.fail("C20/WALK", "_walk membership test",
                     "self is appended unconditionally", w.loc(pre))
    rets = [n for n in walk_no_nested(w.node) if isinstance(n, ast.Return)]
    ctx.check(len(rets) == 1 and isinstance(rets[0].value, ast.Name)
              and rets[0].value.id == acc_name and rets[0] is body[-1],
              "C20/WALK", "_walk returns accumulator",
              "the accumulator must be the single, final return", w.loc(),
              detail="return result")
    # walk(): upper-cases the name, delegates
    wk = comp.methods.get("walk")
    if wk is None:
        raise AnalysisError("anchor vanished: Component.walk")
    envw = SymEnv(wk.node)
    rets = [n for n in walk_no_nested(wk.node) if isinstance(n, ast.Return)]
    good = False
    for r in rets:
        v = r.value
        if isinstance(v, ast.Call) and isinstance(v.func, ast.Attribute) \
                and v.func.attr == "_walk" and len(v.args) == 2:
            a0 = envw.expand_at(v.args[0], r)
            a1 = envw.expand_at(v.args[1], r)
            # name is either the raw param (when None) or name.upper(): the
            # merge of the two branches is $unknown, so look at the branch
            up = [n for n in ast.walk(wk.node) if isinstance(n, ast.Assign)
                  and isinstance(n.targets[0], ast.Name)
                  and n.targets[0].id == wk.params[1]
                  and isinstance(n.value, ast.Call)
                  and isinstance(n.value.func, ast.Attribute)
                  and n.value.func.attr == "upper"
                  and isinstance(n.value.func.value, ast.Name)
                  and n.value.func.value.id == wk.params[1]]
            inline = isinstance(a0, ast.IfExp) or (
                isinstance(a0, ast.Call) and isinstance(a0.func, ast.Attribute)
                and a0.func.attr == "upper")
            good = (bool(up) or inline) and is_param(a1, wk.params[2])
    ctx.check(good, "C20/WALK", "walk upper-cases name",
              "walk(name) must match case-insensitively: the requested name is "
              "upper-cased before comparing with the (upper-case) component names",
              wk.loc(), detail="name = name.upper(); self._walk(name, select)")
    # no subclass overrides _walk/walk
    for sc in ctx.model.subclasses(comp):
        for meth in ("_walk", "walk"):
            ctx.check(meth not in sc.methods, "C20/WALK",
                      f"{sc.qualname} inherits {meth}",
                      f"{sc.qualname} overrides {meth}: traversal of that "
                      f"subtree is not covered by this rule", sc.loc(),
                      detail="inherited")


# ---------------------------------------------------------------------------
def _accessors(ctx):
    m = ctx.model
    wanted = [("cal.Calendar", "events"), ("cal.Calendar", "todos"),
              ("cal.Calendar", "timezones"), ("cal.Timezone", "standard"),
              ("cal.Timezone", "daylight")]
    for cq, acc in wanted:
        ci = m.cls(cq)
        p = ci.properties.get(acc, {}).get("get")
        if p is None:
            raise AnalysisError(f"anchor vanished: property {cq}.{acc}")
        rets = [n for n in walk_no_nested(p.node) if isinstance(n, ast.Return)]
        lit = None
        if len(rets) == 1 and isinstance(rets[0].value, ast.Call) \
                and isinstance(rets[0].value.func, ast.Attribute) \
                and rets[0].value.func.attr == "walk" \
                and len(rets[0].value.args) == 1 and not rets[0].value.keywords:
            try:
                lit = m.const(rets[0].value.args[0], ci.module, ci)
            except AnalysisError:
                lit = None
        if not isinstance(lit, str):
            raise AnalysisError(f"{cq}.{acc}: not `return self.walk(<literal>)`")
        ann = p.node.returns
        target = None
        if ann is not None:
            s = dump(ann)
            if isinstance(ann, ast.Constant) and isinstance(ann.value, str):
                s = ann.value
            inner = s[s.find("[") + 1: s.rfind("]")] if "[" in s else s
            r = m.resolve_name(ci.module, inner.strip())
            if isinstance(r, ClassInfo):
                target = r
        if target is None:
            raise AnalysisError(f"{cq}.{acc}: return annotation does not name a component class")
        cname = m.class_const(target, "name")
        ctx.check(lit.upper() == cname, "C20/ACCESSORS", f"{cq}.{acc}",
                  f"{acc} walks for {lit!r} but returns {target.name} whose "
                  f"name constant is {cname!r}", p.loc(),
                  detail=f"walk({lit!r}) == {target.name}.name")
    # registry: every registered class's name constant equals its key
    for key, (ci, node) in m.component_registry().items():
        cname = m.class_const(ci, "name")
        ctx.check(cname == key, "C20/ACCESSORS", f"registry {key}",
                  f"component_factory[{key!r}] is {ci.name} whose name constant "
                  f"is {cname!r}", ci.loc(), detail=f"{ci.name}.name == {key!r}")


# ---------------------------------------------------------------------------
def all_eq_methods(model):
    out = []
    for c in model.all_classes():
        f = c.methods.get("__eq__")
        if f is not None:
            out.append(f)
    return out


def _guard_facts(test, other, positive=True):
    """Does `test` being true (positive) / false imply a type/attr guard on
    `other`?  Returns set of guard descriptions."""
    out = set()
    if isinstance(test, ast.Call) and isinstance(test.func, ast.Name) \
            and test.func.id in ("isinstance", "hasattr") and test.args \
            and isinstance(test.args[0], ast.Name) and test.args[0].id == other:
        if positive:
            out.add(dump(test))
    elif isinstance(test, ast.UnaryOp) and isinstance(test.op, ast.Not):
        out |= _guard_facts(test.operand, other, not positive)
    elif isinstance(test, ast.BoolOp):
        if isinstance(test.op, ast.And) and positive:
            for v in test.values:
                out |= _guard_facts(v, other, True)
        if isinstance(test.op, ast.Or) and not positive:
            for v in test.values:
                out |= _guard_facts(v, other, False)
    elif isinstance(test, ast.Compare) and len(test.ops) == 1 \
            and isinstance(test.ops[0], ast.Is) and positive:
        # `self is other` -> same type as self
        names = {dump(test.left), dump(test.comparators[0])}
        if other in names:
            out.add(dump(test))
    return out


def unguarded_uses(f, other):
    """Attribute accesses / subscripts / iteration / len() on `other` that are
    not dominated by an isinstance/hasattr guard."""
    bad = []

    def uses_in_expr(e, guarded):
        # short-circuit aware walk
        if isinstance(e, ast.BoolOp):
            g = guarded
            for v in e.values:
                uses_in_expr(v, g)
                if isinstance(e.op, ast.And):
                    g = g or bool(_guard_facts(v, other, True))
                else:
                    g = g or bool(_guard_facts(v, other, False))
            return
        if isinstance(e, ast.IfExp):
            uses_in_expr(e.test, guarded)
            uses_in_expr(e.body, guarded or bool(_guard_facts(e.test, other, True)))
            uses_in_expr(e.orelse, guarded or bool(_guard_facts(e.test, other, False)))
            return
        if isinstance(e, ast.Attribute) and isinstance(e.value, ast.Name) \
                and e.value.id == other:
            if not guarded:
                bad.append(e)
            return
        if isinstance(e, ast.Subscript) and isinstance(e.value, ast.Name) \
                and e.value.id == other and not guarded:
            bad.append(e)
        if isinstance(e, ast.Call) and isinstance(e.func, ast.Name) \
                and e.func.id in ("len", "iter", "list", "tuple", "sorted", "dict") \
                and any(isinstance(a, ast.Name) and a.id == other for a in e.args) \
                and not guarded:
            bad.append(e)
        for c in ast.iter_child_nodes(e):
            if isinstance(c, ast.expr):
                uses_in_expr(c, guarded)
            elif isinstance(c, ast.comprehension):
                uses_in_expr(c.iter, guarded)
                for i in c.ifs:
                    uses_in_expr(i, guarded)

    def block(stmts, guarded):
        for st in stmts:
            if isinstance(st, ast.If):
                uses_in_expr(st.test, guarded)
                gpos = guarded or bool(_guard_facts(st.test, other, True))
                gneg = guarded or bool(_guard_facts(st.test, other, False))
                block(st.body, gpos)
                block(st.orelse, gneg)
                # early exit establishes the complement for what follows
                if st.body and isinstance(st.body[-1], (ast.Return, ast.Raise)) \
                        and not st.orelse:
                    guarded = gneg
                elif st.orelse and isinstance(st.orelse[-1], (ast.Return, ast.Raise)):
                    guarded = gpos
            elif isinstance(st, (ast.For, ast.While)):
                if isinstance(st, ast.For):
                    uses_in_expr(st.iter, guarded)
                    if isinstance(st.iter, ast.Name) and st.iter.id == other \
                            and not guarded:
                        bad.append(st.iter)
                else:
                    uses_in_expr(st.test, guarded)
                block(st.body, guarded)
                block(st.orelse, guarded)
            elif isinstance(st, ast.Try):
                # a handler for AttributeError/TypeError/Exception protects the body
                catches = set()
                for h in st.handlers:
                    if h.type is None:
                        catches.add("Exception")
                    else:
                        for n in ast.walk(h.type):
                            if isinstance(n, ast.Name):
                                catches.add(n.id)
                prot = guarded or bool(catches & {"Exception", "BaseException",
                                                  "AttributeError"})
                block(st.body, prot)
                for h in st.handlers:
                    block(h.body, guarded)
                block(st.orelse, guarded)
                block(st.finalbody, guarded)
            elif isinstance(st, ast.With):
                block(st.body, guarded)
            elif isinstance(st, ast.Assert):
                uses_in_expr(st.test, guarded)
                guarded = guarded or bool(_guard_facts(st.test, other, True))
            else:
                for c in ast.iter_child_nodes(st):
                    if isinstance(c, ast.expr):
                        uses_in_expr(c, guarded)
    block(body_without_docstring(f.node), False)
    return bad


def _eq_total(ctx):
    eqs = all_eq_methods(ctx.model)
    if len(eqs) < 8:
        raise AnalysisError(f"only {len(eqs)} __eq__ methods found, 8 confirmed by hand")
    for f in eqs:
        if len(f.params) != 2:
            raise AnalysisError(f"{f.qualname}: unexpected signature")
        other = f.params[1]
        bad = unguarded_uses(f, other)
        ctx.check(not bad, "C20/EQ-TOTAL", f.qualname,
                  f"`{dump(bad[0]) if bad else ''}` touches the other operand "
                  f"without an isinstance/hasattr guard: comparing with an "
                  f"unrelated object raises instead of answering False",
                  f.loc(bad[0]) if bad else f.loc(),
                  witness=f"{f.cls.name}(...) == None",
                  detail="every use of the other operand is guarded")
        # value compared through other.<method>() must also be guarded: covered
        # delegation via super().__eq__(other) is fine if the super is total
    ctx.extra["eq_methods"] = [f.qualname for f in eqs]


# ---------------------------------------------------------------------------
def _self_fields(f, selfn):
    """Attributes of self read in f: plain attributes (not method calls) plus
    the pseudo-field 'items' for mapping access."""
    out = set()
    for n in ast.walk(f.node):
        if isinstance(n, ast.Attribute) and isinstance(n.value, ast.Name) \
                and n.value.id == selfn:
            out.add(n.attr)
        if isinstance(n, ast.Subscript) and isinstance(n.value, ast.Name) \
                and n.value.id == selfn:
            out.add("items")
        if isinstance(n, ast.Call) and is_super_call(n, "__eq__"):
            out.add("items")
    return out


def _eq_observes(ctx, comp):
    pi = comp.methods.get("property_items")
    eq = comp.methods.get("__eq__")
    if pi is None or eq is None:
        raise AnalysisError("anchor vanished: Component.property_items/__eq__")
    mapping_methods = {"keys", "sorted_keys", "items", "sorted_items", "values", "get"}
    ser = set()
    for a in _self_fields(pi, pi.params[0]):
        ser.add("items" if a in mapping_methods else a)
    ser -= {"property_items"}
    cmp_ = set()
    for a in _self_fields(eq, eq.params[0]):
        cmp_.add("items" if a in mapping_methods else a)
    ctx.extra["serialised_fields"] = sorted(ser)
    ctx.extra["compared_fields"] = sorted(cmp_)
    if not {"name", "items", "subcomponents"} <= ser:
        raise AnalysisError(f"property_items reads {sorted(ser)}; expected name, "
                            f"items and subcomponents among them")
    for fld in sorted(ser):
        ctx.check(fld in cmp_, "C20/EQ-OBSERVES", f"Component.__eq__ compares {fld}",
                  f"serialisation reads self.{fld} but Component.__eq__ never "
                  f"looks at it: trees that differ only in {fld} compare equal",
                  eq.loc(), witness="Event() == Todo() -> True" if fld == "name" else None,
                  detail="compared")
    # order-insensitivity: subcomponents are matched by membership, not by position
    positional = []
    for n in ast.walk(eq.node):
        if isinstance(n, ast.Call) and isinstance(n.func, ast.Name) and n.func.id in ("zip", "enumerate"):
            if "subcomponents" in dump(n) or True:
                positional.append(n)
        if isinstance(n, ast.Compare) and isinstance(n.ops[0], (ast.Eq, ast.NotEq)) \
                and "subcomponents" in dump(n.left) and "subcomponents" in dump(n.comparators[0]) \
                and "len(" not in dump(n.left):
            positional.append(n)
    member = [n for n in ast.walk(eq.node) if isinstance(n, ast.Compare)
              and isinstance(n.ops[0], (ast.In, ast.NotIn))
              and "subcomponents" in dump(n.comparators[0])]
    ctx.check(not positional and bool(member), "C20/EQ-ORDER",
              "subcomponents matched by membership",
              f"Component.__eq__ compares subcomponents by position "
              f"(`{dump(positional[0])[:60] if positional else 'no membership test found'}`): "
              f"the result then depends on the order in which equal-keyed siblings "
              f"were added", eq.loc(positional[0]) if positional else eq.loc(),
              witness="two VALARMs of one event listed in swapped order",
              detail="`sub in other.subcomponents` for every sub")
    # value classes: __eq__ of TimeBase compares params and dt
    tb = ctx.model.cls("prop.TimeBase").methods.get("__eq__")
    if tb is not None:
        flds = _self_fields(tb, tb.params[0])
        ctx.check({"params", "dt"} <= flds, "C20/EQ-OBSERVES", "TimeBase.__eq__ fields",
                  f"TimeBase.__eq__ must compare value (dt) and parameters; "
                  f"compares {sorted(flds)}", tb.loc(), detail="params and dt")


# ---------------------------------------------------------------------------
def _pickle(ctx):
    zm = ctx.model.module("timezone.zoneinfo")
    regs = {}
    for st in zm.tree.body:
        if isinstance(st, ast.Expr) and isinstance(st.value, ast.Call):
            c = st.value
            if isinstance(c.func, ast.Attribute) and c.func.attr == "pickle" \
                    and isinstance(c.func.value, ast.Name) \
                    and c.func.value.id == "copyreg" and len(c.args) == 2:
                regs[dump(c.args[0])] = (c.args[1], st)
    for typ in ("_tzicalvtz", "rrule", "rruleset"):
        ent = regs.get(typ)
        ok = False
        if ent is not None and isinstance(ent[0], ast.Name):
            red = zm.functions.get(ent[0].id)
            if red is not None:
                rets = [n for n in walk_no_nested(red.node) if isinstance(n, ast.Return)]
                ok = bool(rets) and all(isinstance(r.value, ast.Tuple)
                                        and len(r.value.elts) == 2 for r in rets)
        ctx.check(ok, "C20/PICKLE", f"reducer for dateutil {typ}",
                  f"no copyreg reducer returning (callable, args) is registered "
                  f"for {typ}: zone objects stored in parsed values cannot be "
                  f"pickled", f"{zm.rel}", detail="copyreg.pickle registered")
