"""C20 - traversal is complete; equality is an order-insensitive equivalence.

Decided: WALK and EQ-LAWS (E7 exploration of walk, accessors and __eq__ on
abstract trees), ACCESSORS (registry key == class name constant), EQ-TOTAL (no __eq__ touches a foreign operand
unguarded), EQ-OBSERVES (equality looks at every field serialisation reads),
PICKLE (reducers registered; existence only).
Not decided: the laws beyond the explored tree family (bounded shapes),
pickle fidelity.
"""
import ast

from ..core import AnalysisError
from ..flow import SymEnv, is_param, is_marker, dump
from ..model import ClassInfo, walk_no_nested, body_without_docstring, is_super_call


def run(ctx):
    m = ctx.model
    comp = m.cls("cal.Component")
    ctx.explanation = (
        "abstract interpretation (E7) of walk/_walk, the kind accessors and "
        "Component.__eq__ on a family of abstract component trees compared with "
        "the pre-order / equivalence laws of the statement; guard analysis of "
        "every __eq__ in the package, fields read by property_items vs fields "
        "compared by Component.__eq__, copyreg registrations.")
    _walk_rule(ctx, comp)
    _accessors(ctx)
    _eq_laws(ctx, comp)
    _eq_total(ctx)
    _eq_observes(ctx, comp)
    _pickle(ctx)


# ---------------------------------------------------------------------------
def _walk_rule(ctx, comp):
    """walk/_walk and the kind accessors, decided on abstract trees (E7)."""
    from .. import treemodel
    wk = comp.methods.get("walk")
    if wk is None:
        raise AnalysisError("anchor vanished: Component.walk")
    treemodel.report(ctx, "C20/WALK", treemodel.explore_walk,
                     "walk returns the matching components exactly once, in pre-order",
                     wk.loc(), 400)
    _walk_parsed(ctx, comp, wk)
    # subclasses that override the traversal are not exercised by the trees
    covered = {q for q, _ in treemodel.KINDS} | {q for q, _ in treemodel.ZONE_TREE[1]}
    for sc in ctx.model.subclasses(comp):
        for meth in ("_walk", "walk"):
            if meth in sc.methods and sc.qualname not in covered:
                raise AnalysisError(f"{sc.qualname} overrides {meth}: add it to the abstract "
                                    f"trees of sa/treemodel.py")


PARSED_TREES = [
    ("lower-case text with an unknown component",
     "begin:x-thing\nbegin:vevent\nsummary:a\nbegin:valarm\nend:valarm\nend:vevent\nbegin:x-other\nend:x-other\nend:x-thing\n",
     [("x-thing", 1), ("X-THING", 1), ("vevent", 1), ("VEVENT", 1), ("valarm", 1), ("X-Other", 1), ("vtodo", 0)], 4),
    ("upper-case calendar", "BEGIN:VCALENDAR\r\nBEGIN:VEVENT\r\nEND:VEVENT\r\nBEGIN:X-THING\r\nEND:X-THING\r\nEND:VCALENDAR\r\n",
     [("vcalendar", 1), ("x-thing", 1), ("VEVENT", 1)], 3),
]


def _walk_parsed(ctx, comp, wk):
    """The same laws on trees that come out of the parser (whole parser interpreted, E7): names
    are matched case-insensitively whatever the letter case of the text was, unknown components
    included."""
    from ..strmodel import TextInterp
    from ..absint import ClassVal, AbsRaise, Unsupported
    bad = []
    n = 0
    for label, text, asks, total in PARSED_TREES:
        it = TextInterp(ctx.model)
        try:
            root = it.run(it.getattr(ClassVal(comp), "from_ical"), [text], {})
            allc = it.run(it.getattr(root, "walk"), [], {})
            n += 1
            if len(allc) != total:
                bad.append((label, f"walk() returns {len(allc)} components, the text has {total}"))
            for name, want in asks:
                got = it.run(it.getattr(root, "walk"), [name], {})
                n += 1
                if len(got) != want:
                    bad.append((label, f"walk({name!r}) returns {len(got)} component(s), expected {want}"))
        except AbsRaise as e:
            bad.append((label, f"raises {e.cls_name}"))
        except Unsupported as e:
            raise AnalysisError(f"walk on a parsed tree leaves the abstract interface ({label}): {e}")
    ctx.check(not bad, "C20/WALK", "walk by name on parsed trees (any letter case, unknown components)",
              f"{bad[0][0] if bad else ''}: {bad[0][1] if bad else ''} [{len(bad)} of {n} questions]",
              wk.loc(), witness={"text": bad[0][0]} if bad else None,
              detail=f"{n} questions on {len(PARSED_TREES)} parsed trees")


def _accessors(ctx):
    m = ctx.model
    # registry: every registered class's name constant equals its key
    for key, (ci, node) in m.component_registry().items():
        cname = m.class_const(ci, "name")
        ctx.check(cname == key, "C20/ACCESSORS", f"registry {key}",
                  f"component_factory[{key!r}] is {ci.name} whose name constant "
                  f"is {cname!r}", ci.loc(), detail=f"{ci.name}.name == {key!r}")


def _eq_laws(ctx, comp):
    from .. import treemodel
    eq = comp.methods.get("__eq__")
    if eq is None:
        raise AnalysisError("anchor vanished: Component.__eq__")
    treemodel.report(ctx, "C20/EQ-LAWS", treemodel.explore_eq,
                     "reflexive, symmetric, order-insensitive, total, distinguishing",
                     eq.loc(), 400)
    treemodel.report(ctx, "C20/COPY", treemodel.explore_copy,
                     "deep copies are equal, separate and serialise identically", comp.loc(), 10)


# ---------------------------------------------------------------------------
def all_eq_methods(model):
    out = []
    for c in model.all_classes():
        f = c.methods.get("__eq__")
        if f is not None:
            out.append(f)
    return out


_HELPERS = {}      # (model id, class qualname) -> {method name: FuncInfo}, set by unguarded_uses


def _helper_implies_guard(h, argi, depth=0):
    """Does helper method h return a truthy value only when its parameter
    number argi passed an isinstance/hasattr guard?  (Every `return` that is
    not a literal False/None/0 must be in guarded context.)"""
    if depth > 2 or argi >= len(h.params):
        return False
    p = h.params[argi]
    ok = [True]
    seen_return = [False]

    def falsy(e):
        return e is None or (isinstance(e, ast.Constant) and not e.value)

    def block(stmts, guarded):
        for st in stmts:
            if isinstance(st, ast.Return):
                seen_return[0] = True
                if not falsy(st.value) and not guarded:
                    # `return guard(p) and ...` is fine as well
                    if not (isinstance(st.value, ast.BoolOp) and isinstance(st.value.op, ast.And)
                            and _guard_facts(st.value.values[0], p, True)):
                        ok[0] = False
            elif isinstance(st, ast.If):
                gpos = guarded or bool(_guard_facts(st.test, p, True))
                gneg = guarded or bool(_guard_facts(st.test, p, False))
                block(st.body, gpos)
                block(st.orelse, gneg)
                if st.body and isinstance(st.body[-1], (ast.Return, ast.Raise)) and not st.orelse:
                    guarded = gneg
                elif st.orelse and isinstance(st.orelse[-1], (ast.Return, ast.Raise)):
                    guarded = gpos
            elif isinstance(st, (ast.For, ast.While, ast.With)):
                block(st.body, guarded)
                block(getattr(st, "orelse", []), guarded)
            elif isinstance(st, ast.Try):
                block(st.body, guarded)
                for hh in st.handlers:
                    block(hh.body, guarded)
                block(st.orelse, guarded)
                block(st.finalbody, guarded)
    block(body_without_docstring(h.node), False)
    return ok[0] and seen_return[0]


def _guard_facts(test, other, positive=True):
    """Does `test` being true (positive) / false imply a type/attr guard on
    `other`?  Returns set of guard descriptions."""
    out = set()
    # self.helper(other) where the helper answers truthy only under a guard
    if isinstance(test, ast.Call) and isinstance(test.func, ast.Attribute) \
            and isinstance(test.func.value, ast.Name) and positive:
        h = _HELPERS.get(test.func.attr)
        if h is not None:
            for i, a in enumerate(test.args):
                if isinstance(a, ast.Name) and a.id == other and \
                        _helper_implies_guard(h, i + 1):
                    out.add(dump(test))
    if isinstance(test, ast.Call) and isinstance(test.func, ast.Name) \
            and test.func.id in ("isinstance", "hasattr") and test.args \
            and isinstance(test.args[0], ast.Name) and test.args[0].id == other:
        if positive:
            out.add(dump(test))
    elif isinstance(test, ast.UnaryOp) and isinstance(test.op, ast.Not):
        out |= _guard_facts(test.operand, other, not positive)
    elif isinstance(test, ast.BoolOp):
        if isinstance(test.op, ast.And) and positive:
            for v in test.values:
                out |= _guard_facts(v, other, True)
        if isinstance(test.op, ast.Or) and not positive:
            for v in test.values:
                out |= _guard_facts(v, other, False)
    elif isinstance(test, ast.Compare) and len(test.ops) == 1 \
            and isinstance(test.ops[0], ast.Is) and positive:
        # `self is other` -> same type as self
        names = {dump(test.left), dump(test.comparators[0])}
        if other in names:
            out.add(dump(test))
    return out


def unguarded_uses(f, other, model=None, _depth=0):
    """Attribute accesses / subscripts / iteration / len() on `other` that are
    not dominated by an isinstance/hasattr guard."""
    bad = []
    _HELPERS.clear()
    if model is not None and f.cls is not None:
        for c in model.mro(f.cls):
            if isinstance(c, ClassInfo):
                for k, v in c.methods.items():
                    _HELPERS.setdefault(k, v)

    def uses_in_expr(e, guarded):
        # short-circuit aware walk
        if isinstance(e, ast.BoolOp):
            g = guarded
            for v in e.values:
                uses_in_expr(v, g)
                if isinstance(e.op, ast.And):
                    g = g or bool(_guard_facts(v, other, True))
                else:
                    g = g or bool(_guard_facts(v, other, False))
            return
        if isinstance(e, ast.IfExp):
            uses_in_expr(e.test, guarded)
            uses_in_expr(e.body, guarded or bool(_guard_facts(e.test, other, True)))
            uses_in_expr(e.orelse, guarded or bool(_guard_facts(e.test, other, False)))
            return
        if isinstance(e, ast.Attribute) and isinstance(e.value, ast.Name) \
                and e.value.id == other:
            if not guarded:
                bad.append(e)
            return
        if isinstance(e, ast.Subscript) and isinstance(e.value, ast.Name) \
                and e.value.id == other and not guarded:
            bad.append(e)
        if isinstance(e, ast.Call) and isinstance(e.func, ast.Name) \
                and e.func.id in ("len", "iter", "list", "tuple", "sorted", "dict") \
                and any(isinstance(a, ast.Name) and a.id == other for a in e.args) \
                and not guarded:
            bad.append(e)
        for c in ast.iter_child_nodes(e):
            if isinstance(c, ast.expr):
                uses_in_expr(c, guarded)
            elif isinstance(c, ast.comprehension):
                uses_in_expr(c.iter, guarded)
                for i in c.ifs:
                    uses_in_expr(i, guarded)

    def block(stmts, guarded):
        for st in stmts:
            if isinstance(st, ast.If):
                uses_in_expr(st.test, guarded)
                gpos = guarded or bool(_guard_facts(st.test, other, True))
                gneg = guarded or bool(_guard_facts(st.test, other, False))
                block(st.body, gpos)
                block(st.orelse, gneg)
                # early exit establishes the complement for what follows
                if st.body and isinstance(st.body[-1], (ast.Return, ast.Raise)) \
                        and not st.orelse:
                    guarded = gneg
                elif st.orelse and isinstance(st.orelse[-1], (ast.Return, ast.Raise)):
                    guarded = gpos
            elif isinstance(st, (ast.For, ast.While)):
                if isinstance(st, ast.For):
                    uses_in_expr(st.iter, guarded)
                    if isinstance(st.iter, ast.Name) and st.iter.id == other \
                            and not guarded:
                        bad.append(st.iter)
                else:
                    uses_in_expr(st.test, guarded)
                block(st.body, guarded)
                block(st.orelse, guarded)
            elif isinstance(st, ast.Try):
                # a handler for AttributeError/TypeError/Exception protects the body
                catches = set()
                for h in st.handlers:
                    if h.type is None:
                        catches.add("Exception")
                    else:
                        for n in ast.walk(h.type):
                            if isinstance(n, ast.Name):
                                catches.add(n.id)
                prot = guarded or bool(catches & {"Exception", "BaseException",
                                                  "AttributeError"})
                block(st.body, prot)
                for h in st.handlers:
                    block(h.body, guarded)
                block(st.orelse, guarded)
                block(st.finalbody, guarded)
            elif isinstance(st, ast.With):
                block(st.body, guarded)
            elif isinstance(st, ast.Assert):
                uses_in_expr(st.test, guarded)
                guarded = guarded or bool(_guard_facts(st.test, other, True))
            else:
                for c in ast.iter_child_nodes(st):
                    if isinstance(c, ast.expr):
                        uses_in_expr(c, guarded)
    block(body_without_docstring(f.node), False)
    # helpers that receive the other operand must treat it with the same care
    if model is not None and _depth < 2:
        helpers = dict(_HELPERS)
        for c in ast.walk(f.node):
            if isinstance(c, ast.Call) and isinstance(c.func, ast.Attribute) \
                    and isinstance(c.func.value, ast.Name) and c.func.value.id == f.params[0] \
                    and c.func.attr in helpers and helpers[c.func.attr] is not f:
                h = helpers[c.func.attr]
                for i, a in enumerate(c.args):
                    if isinstance(a, ast.Name) and a.id == other and i + 1 < len(h.params):
                        bad += unguarded_uses(h, h.params[i + 1], model, _depth + 1)
        _HELPERS.clear()
        _HELPERS.update(helpers)
    return bad


def _eq_total(ctx):
    eqs = all_eq_methods(ctx.model)
    if len(eqs) < 8:
        raise AnalysisError(f"only {len(eqs)} __eq__ methods found, 8 confirmed by hand")
    for f in eqs:
        if len(f.params) != 2:
            raise AnalysisError(f"{f.qualname}: unexpected signature")
        other = f.params[1]
        bad = unguarded_uses(f, other, ctx.model)
        ctx.check(not bad, "C20/EQ-TOTAL", f.qualname,
                  f"`{dump(bad[0]) if bad else ''}` touches the other operand "
                  f"without an isinstance/hasattr guard: comparing with an "
                  f"unrelated object raises instead of answering False",
                  f.loc(bad[0]) if bad else f.loc(),
                  witness=f"{f.cls.name}(...) == None",
                  detail="every use of the other operand is guarded")
        # value compared through other.<method>() must also be guarded: covered
        # delegation via super().__eq__(other) is fine if the super is total
    ctx.extra["eq_methods"] = [f.qualname for f in eqs]


# ---------------------------------------------------------------------------
def _self_fields(f, selfn):
    """Attributes of self read in f: plain attributes (not method calls) plus
    the pseudo-field 'items' for mapping access."""
    out = set()
    for n in ast.walk(f.node):
        if isinstance(n, ast.Attribute) and isinstance(n.value, ast.Name) \
                and n.value.id == selfn:
            out.add(n.attr)
        if isinstance(n, ast.Subscript) and isinstance(n.value, ast.Name) \
                and n.value.id == selfn:
            out.add("items")
        if isinstance(n, ast.Call) and is_super_call(n, "__eq__"):
            out.add("items")
    return out


def _eq_observes(ctx, comp):
    # (Component.__eq__ itself is decided by C20/EQ-LAWS on abstract trees.)
    # value classes: __eq__ of TimeBase compares params and dt
    tb = ctx.model.cls("prop.TimeBase").methods.get("__eq__")
    if tb is not None:
        flds = _self_fields(tb, tb.params[0])
        ctx.check({"params", "dt"} <= flds, "C20/EQ-OBSERVES", "TimeBase.__eq__ fields",
                  f"TimeBase.__eq__ must compare value (dt) and parameters; "
                  f"compares {sorted(flds)}", tb.loc(), detail="params and dt")


# ---------------------------------------------------------------------------
def _pickle(ctx):
    zm = ctx.model.module("timezone.zoneinfo")
    regs = {}
    for st in zm.tree.body:
        if isinstance(st, ast.Expr) and isinstance(st.value, ast.Call):
            c = st.value
            if isinstance(c.func, ast.Attribute) and c.func.attr == "pickle" \
                    and isinstance(c.func.value, ast.Name) \
                    and c.func.value.id == "copyreg" and len(c.args) == 2:
                regs[dump(c.args[0])] = (c.args[1], st)
    for typ in ("_tzicalvtz", "rrule", "rruleset"):
        ent = regs.get(typ)
        ok = False
        if ent is not None and isinstance(ent[0], ast.Name):
            red = zm.functions.get(ent[0].id)
            if red is not None:
                rets = [n for n in walk_no_nested(red.node) if isinstance(n, ast.Return)]
                ok = bool(rets) and all(isinstance(r.value, ast.Tuple)
                                        and len(r.value.elts) == 2 for r in rets)
        ctx.check(ok, "C20/PICKLE", f"reducer for dateutil {typ}",
                  f"no copyreg reducer returning (callable, args) is registered "
                  f"for {typ}: zone objects stored in parsed values cannot be "
                  f"pickled", f"{zm.rel}", detail="copyreg.pickle registered")
