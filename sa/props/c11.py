"""C11 - zoned date-times keep wall time, zone id, offset; UTC properties keep
the instant.

Decided: TZ-TAG (E7 over tz-kinds for the four TZID producers; wall-clock
fields formatted without conversion; supplied values stored unchanged),
UTC-FORCED (RFC UTC-only names are converted by add() and by the UTC
descriptors), TZID-FORWARD (TZID reaches the decoder for exactly the names
that admit it, and the decoder uses it).
Not decided: offsets near transitions, tz database contents, provider
agreement (runtime facts).
"""
import ast

from ..core import AnalysisError
from ..absint import (Interp, DT, TD, TZ, Obj, ClassVal, AbsRaise, Unsupported, Bound, Closure,
                      Native)
from ..flow import SymEnv, is_param, dump
from ..model import walk_no_nested
from ..oracles import rfc

ZONE = "Europe/Berlin"


def tz_params(v):
    p = v.attrs.get("params") if isinstance(v, Obj) else None
    if p is None or p.items is None:
        return None
    return p.items.get("TZID")


def run(ctx):
    m = ctx.model
    ctx.explanation = (
        "abstract evaluation (tz-kinds naive/utc/zoned) of vDatetime.to_ical, "
        "vDDDTypes/vDDDLists/vPeriod constructors and of Component.add and the "
        "UTC descriptors; identity of supplied values through the period "
        "constructor under both provider models; table agreement of the TZID "
        "forwarding tuple with the RFC; decoder use of the TZID.")
    ctx.assume("tzid_from_dt / tzp.localize / tzp.localize_utc by their documented contracts")
    for provider in ("zoneinfo", "pytz"):
        _tz_tag(ctx, provider)
    _utc_forced(ctx)
    _tzid_forward(ctx)
    _tzp_contract(ctx)
    _provider_contract(ctx)
    _tzid_of(ctx)
    from .. import codecmodel
    codecmodel.report(ctx, "C11/OWN", codecmodel.explore_params_ownership, codecmodel.OWN_LAWS,
                      m.cls("prop.vDatetime").loc(), 10)


# ---------------------------------------------------------------------------
def _tz_tag(ctx, provider):
    m = ctx.model
    it = Interp(m, provider=provider)
    vdt = m.cls("prop.vDatetime")
    vddd = m.cls("prop.vDDDTypes")
    vlist = m.cls("prop.vDDDLists")
    vper = m.cls("prop.vPeriod")
    # the last case: a zone that is an alias of UTC but not "UTC" itself keeps its own id
    exp = [("naive", "naive", None, False, None), ("utc", "utc", None, True, None),
           ("zoned", "zoned", ZONE, False, ZONE),
           ("zoned (UTC alias Etc/UTC)", "zoned", "Etc/UTC", False, "Etc/UTC")]
    for label, kind, zone, want_z, want_tzid in exp:
        def mk(rank=None, kind=kind, zone=zone):
            return DT(kind, rank, None, zone)
        kind_ = kind
        kind = label
        # vDatetime.to_ical: the text (on position markers), where its fields are read from, TZID
        from ..codecmodel import CodecInterp, describe, FIDX

        class W(CodecInterp):
            def getattr(self, o_, name):
                if isinstance(o_, DT) and (name in FIDX or name in ("strftime", "timetuple", "isoformat")):
                    self.__dict__.setdefault("read_from", []).append(o_)
                return super().getattr(o_, name)
        wit = W(m)
        wit.provider = provider
        stored = mk()
        o = wit.call(ClassVal(vdt), [stored], {})
        try:
            text = wit.call(wit.getattr(o, "to_ical"), [], {})
            text = text.decode() if isinstance(text, bytes) else text
            if not isinstance(text, str):
                raise Unsupported(f"vDatetime.to_ical returned {text!r}")
            shape = describe(text)
        except (AbsRaise, Unsupported) as e:
            raise AnalysisError(f"vDatetime.to_ical({label}): {e}")
        want = "YYYYMMDDThhmmss" + ("Z" if want_z else "")
        if shape.rstrip("Z") == "YYYYMMDDThhmmss":
            ctx.check(shape == want, "C11/TZ-TAG",
                      f"[{provider}] vDatetime.to_ical {kind} Z-suffix",
                      f"a {kind} date-time is written {'without' if want_z else 'with'} the "
                      f"UTC designator Z ({shape})", vdt.loc(), detail=f"Z={want_z}")
        # (the field layout itself is C03/LAYOUT's obligation)
        reads = wit.__dict__.get("read_from", [])
        def same_wall(r):
            return r is stored or ((r.kind, r.zone, r.term, r.rank, r.tag) ==
                                   (stored.kind, stored.zone, stored.term, stored.rank, stored.tag))
        ctx.check(bool(reads) and all(same_wall(r) for r in reads), "C11/WALL-TIME",
                  f"[{provider}] vDatetime.to_ical {kind}: fields formatted from the stored value",
                  f"the date-time fields of a {kind} value are read from "
                  f"{[r for r in reads if not same_wall(r)][:1] or 'nothing'}, not from the stored "
                  f"value: a conversion sits between the stored value and the text (it moves "
                  f"wall times, e.g. in a DST gap or for a non-normalised pytz value)",
                  vdt.loc(), detail="six fields read from self.dt itself")
        got = tz_params(o)
        ctx.check(got == want_tzid, "C11/TZ-TAG", f"[{provider}] vDatetime {kind} TZID",
                  f"after vDatetime.to_ical a {kind} value carries TZID={got!r}, expected "
                  f"{want_tzid!r}", vdt.loc(), detail=f"TZID={got!r}")
        # the four producers
        prods = {
            "vDDDTypes": lambda: it.call(ClassVal(vddd), [mk()], {}),
            "vDDDLists": lambda: it.call(ClassVal(vlist), [[mk(), mk()]], {}),
            "vPeriod(end)": lambda: it.call(ClassVal(vper), [(mk(1), mk(2))], {}),
            "vPeriod(duration)": lambda: it.call(ClassVal(vper), [(mk(1), TD(term={"D": 1}, mag="subday"))], {}),
            "vDDDTypes(period)": lambda: it.call(ClassVal(vddd), [(mk(1), mk(2))], {}),
        }
        for pname, make in prods.items():
            try:
                v = make()
            except (AbsRaise, Unsupported) as e:
                raise AnalysisError(f"{pname}({kind}) under {provider}: {e}")
            got = tz_params(v)
            ctx.check(got == want_tzid, "C11/TZ-TAG", f"[{provider}] {pname} {kind} TZID",
                      f"{pname} given a {kind} value attaches TZID={got!r}, expected "
                      f"{want_tzid!r} (UTC is written with Z and no TZID; zoned values "
                      f"carry their own zone id)", m.cls("prop." + pname.split("(")[0]).loc(),
                      detail=f"TZID={got!r}")
    # supplied values are stored unchanged (wall time and zone are kept)
    s, e = DT("zoned", 1, None, ZONE, tag="S"), DT("zoned", 2, None, ZONE, tag="E")
    v = it.call(ClassVal(vper), [(s, e)], {})
    ctx.check(v.attrs.get("start") is s and v.attrs.get("end") is e, "C11/TZ-TAG",
              f"[{provider}] vPeriod keeps supplied start and end",
              f"vPeriod stores start={v.attrs.get('start')!r} end={v.attrs.get('end')!r}: "
              f"a supplied period boundary must be stored as given (a conversion such as "
              f"pytz normalize() moves wall times that lie in a DST gap)", vper.loc(),
              detail="identity preserved")
    d = DT("zoned", 1, None, ZONE, tag="X")
    v = it.call(ClassVal(vddd), [d], {})
    ctx.check(v.attrs.get("dt") is d, "C11/TZ-TAG", f"[{provider}] vDDDTypes keeps supplied value",
              "vDDDTypes must store the supplied date-time unchanged", vddd.loc(),
              detail="identity preserved")


# ---------------------------------------------------------------------------
def _utc_forced(ctx):
    m = ctx.model
    it = Interp(m)
    owners = {"ACKNOWLEDGED": "cal.Alarm"}
    for name in rfc.UTC_ONLY:
        ci = m.cls(owners.get(name, "cal.Event"))
        for kind in ("zoned", "naive", "utc"):
            comp = it.call(ClassVal(ci), [], {})
            val = DT(kind, 7, None, ZONE if kind == "zoned" else None)
            try:
                it.call(it.getattr(comp, "add"), [name.lower(), val], {})
            except (AbsRaise, Unsupported) as e:
                raise AnalysisError(f"add({name}, <{kind}>): {e}")
            stored = comp.items.get(name)
            dt = stored.attrs.get("dt") if isinstance(stored, Obj) else None
            ctx.check(isinstance(dt, DT) and dt.kind == "utc" and dt.rank == 7
                      and tz_params(stored) is None, "C11/UTC-FORCED",
                      f"add {name} <{kind}>",
                      f"add({name.lower()!r}, <{kind} date-time>) stores {dt!r} with "
                      f"TZID={tz_params(stored)!r}: {name} MUST be written in UTC "
                      f"(same instant)", ci.loc(), detail=repr(dt))
    # UTC descriptors: getter and setter both convert
    for cq, attr, key in (("cal.Event", "DTSTAMP", "DTSTAMP"), ("cal.Event", "LAST_MODIFIED", "LAST-MODIFIED"),
                          ("cal.Alarm", "ACKNOWLEDGED", "ACKNOWLEDGED"),
                          ("cal.Event", "X_MOZ_LASTACK", "X-MOZ-LASTACK"),
                          ("cal.Event", "X_MOZ_SNOOZE_TIME", "X-MOZ-SNOOZE-TIME")):
        ci = m.cls(cq)
        for kind in ("zoned", "naive", "date"):
            comp = it.call(ClassVal(ci), [], {})
            val = DT(kind, 3, None, ZONE if kind == "zoned" else None)
            try:
                it.setattr(comp, attr, val)
                stored = comp.items.get(key)
                dt = stored.attrs.get("dt") if isinstance(stored, Obj) else None
                got = it.getattr(comp, attr)
            except (AbsRaise, Unsupported) as e:
                raise AnalysisError(f"{cq}.{attr} = <{kind}>: {e}")
            ctx.check(isinstance(dt, DT) and dt.kind == "utc" and dt.rank == 3
                      and tz_params(stored) is None, "C11/UTC-FORCED",
                      f"{ci.name}.{attr} = <{kind}> stores UTC",
                      f"the UTC property setter stores {dt!r} with TZID="
                      f"{tz_params(stored)!r}; it must store the same instant in UTC",
                      ci.loc(), detail=repr(dt))
            ctx.check(isinstance(got, DT) and got.kind == "utc" and got.rank == 3,
                      "C11/UTC-FORCED", f"{ci.name}.{attr} reads UTC (<{kind}>)",
                      f"the UTC property getter returns {got!r}", ci.loc(), detail=repr(got))
        # a value stored by other means (parsing) is converted on read
        comp = it.call(ClassVal(ci), [], {})
        comp.items[key] = it.call(ClassVal(m.cls("prop.vDDDTypes")), [DT("zoned", 4, None, ZONE)], {})
        got = it.getattr(comp, attr)
        ctx.check(isinstance(got, DT) and got.kind == "utc" and got.rank == 4,
                  "C11/UTC-FORCED", f"{ci.name}.{attr} converts a stored zoned value",
                  f"getter returns {got!r} for a stored zoned value", ci.loc(), detail=repr(got))


# ---------------------------------------------------------------------------
def _tzid_of(ctx):
    """tzid_from_tzinfo itself (the function the analyser otherwise uses by contract), interpreted
    on tzinfo models of both libraries: UTC gives 'UTC', every other zone - also one that is an
    alias of UTC in the tz database, such as Etc/UTC - gives its own key, None gives None."""
    m = ctx.model
    f = m.func("timezone.tzid.tzid_from_tzinfo")
    for prov in ("zoneinfo", "pytz"):
        for label, tz, want in (("UTC", TZ("utc", "UTC", prov), "UTC"), ("Etc/UTC", TZ("zone", "Etc/UTC", prov), "Etc/UTC"),
                                (ZONE, TZ("zone", ZONE, prov), ZONE), ("Etc/GMT+5", TZ("zone", "Etc/GMT+5", prov), "Etc/GMT+5"),
                                ("no tzinfo", None, None)):
            it = Interp(m, provider=prov)
            try:
                got = it.call(Closure(f), [tz], {})
            except AbsRaise as e:
                ctx.fail("C11/TZ-TAG", f"[{prov}] tzid_from_tzinfo({label})", f"raises {e.cls_name}", f.loc())
                continue
            except Unsupported as e:
                raise AnalysisError(f"tzid_from_tzinfo({label}) under {prov} leaves the abstract interface: {e}")
            got = got.strval if isinstance(got, Obj) and got.strval is not None else got
            ctx.check(got == want, "C11/TZ-TAG", f"[{prov}] tzid_from_tzinfo({label})",
                      f"tzid_from_tzinfo of the {prov} zone {label} is {got!r}, expected {want!r}: a value in "
                      f"that zone would be written {'with Z and without its TZID' if got == 'UTC' else 'with TZID=' + repr(got)} "
                      f"and read back in another zone", f.loc(), detail=repr(want))


def _provider_contract(ctx):
    """One level below TZP: each provider's localize / localize_utc interpreted on top of the
    library's own operation (pytz: tz.localize(dt) / astimezone; zoneinfo: replace(tzinfo=) /
    astimezone).  A provider that computes offsets itself instead of asking the library leaves
    this model (exit 2, not decided) - it is never passed silently."""
    m = ctx.model
    for cq, prov in (("timezone.pytz.PYTZ", "pytz"), ("timezone.zoneinfo.ZONEINFO", "zoneinfo")):
        ci = m.cls(cq)
        for meth in ("localize", "localize_utc"):
            f = m.lookup_method(ci, meth)
            if f is None:
                raise AnalysisError(f"anchor vanished: {ci.name}.{meth}")
            for kind in ("naive", "utc", "zoned"):
                if meth == "localize" and kind != "naive":
                    continue
                it = Interp(m, provider=prov)
                self_ = it.instantiate(ci, [], {}) if m.lookup_method(ci, "__init__") is None else Obj(ci)
                if "utc" not in self_.attrs:
                    self_.attrs["utc"] = TZ("utc", "UTC", prov)
                x = DT(kind, 4, {"t": 1}, ZONE if kind == "zoned" else None)
                label = f"{ci.name}.{meth}(<{kind}>)"
                try:
                    args = [x] if meth == "localize_utc" else [x, TZ("zone", ZONE, prov)]
                    got = it.call(Bound(Closure(f), self_), args, {})
                except AbsRaise as e:
                    ctx.fail("C11/TZP-CONTRACT", label, f"{label} raises {e.cls_name}", f.loc())
                    continue
                except Unsupported as e:
                    raise AnalysisError(f"{label} leaves the abstract interface (the provider does "
                                        f"something other than asking the tz library): {e}")
                if meth == "localize_utc":
                    good = isinstance(got, DT) and got.kind == "utc" and got.rank == 4 and \
                        (got.tag is None or str(got.tag).startswith("utc-of:"))      # (provenance note only)
                    want = "a UTC datetime denoting the same instant"
                else:
                    good = isinstance(got, DT) and got.kind == "zoned" and got.zone == ZONE and \
                        got.term == x.term and got.tag is None
                    want = f"the same wall time placed in {ZONE} by the library"
                ctx.check(good, "C11/TZP-CONTRACT", label, f"{label} returns {got!r}; expected {want}",
                          f.loc(), detail=want)


def _tzp_contract(ctx):
    """The analyser treats TZP.localize_utc / TZP.localize as contracts (a UTC
    datetime denoting the same instant; the wall time placed in the zone).  Here
    the two methods themselves are interpreted, on top of the same contracts one
    level down (the provider's localize_utc / localize), so that a change inside
    TZP is not hidden by the contract."""
    m = ctx.model
    tzp_cls = m.cls("timezone.tzp.TZP")
    ZERO = "ZeroOffset/London-in-winter"

    class P(Interp):
        def _native_obj_attr(self, o, name):
            if o.name == "provider":
                if name == "localize_utc":
                    def lu(i, a, k):
                        x = a[0]
                        if not (isinstance(x, DT) and x.is_datetime):
                            raise AbsRaise("AttributeError", "provider.localize_utc needs a datetime")
                        return x.with_(kind="utc", zone=None)
                    return Native("provider.localize_utc", lu)
                if name == "localize":
                    def lo(i, a, k):
                        x, tz = a
                        if not (isinstance(x, DT) and x.is_datetime and isinstance(tz, TZ)):
                            raise AbsRaise("AttributeError", "provider.localize needs a datetime and a tzinfo")
                        return x.with_(kind="utc" if tz.kind == "utc" else "zoned",
                                       zone=None if tz.kind == "utc" else tz.key_)
                    return Native("provider.localize", lo)
                if name == "timezone":
                    return Native("provider.timezone", lambda i, a, k: TZ("zone", self._str(a[0])))
                raise Unsupported(f"provider.{name}")
            return super()._native_obj_attr(o, name)

    from ..absint import NativeObj
    for meth in ("localize_utc", "localize"):
        f = m.lookup_method(tzp_cls, meth)
        if f is None:
            raise AnalysisError(f"anchor vanished: TZP.{meth}")
        for kind, zone in (("date", None), ("naive", None), ("utc", None), ("zoned", ZONE),
                           ("zoned", ZERO)):
            if meth == "localize" and kind in ("utc", "zoned"):
                continue
            it = P(m)
            self_ = Obj(tzp_cls)
            self_.attrs["__provider"] = NativeObj("provider")
            self_.attrs["_TZP__provider"] = self_.attrs["__provider"]
            self_.attrs["__tz_cache"] = {}
            self_.attrs["_TZP__tz_cache"] = self_.attrs["__tz_cache"]
            x = DT(kind, 4, {"t": 1}, zone)
            label = f"TZP.{meth}(<{kind}{' with offset 0' if zone == ZERO else ''}>)"
            try:
                args = [x] if meth == "localize_utc" else [x, TZ("zone", ZONE)]
                got = it.call(Bound(Closure(f), self_), args, {})
            except AbsRaise as e:
                ctx.fail("C11/TZP-CONTRACT", label, f"{label} raises {e.cls_name}", f.loc())
                continue
            except Unsupported as e:
                raise AnalysisError(f"{label} leaves the abstract interface: {e}")
            if meth == "localize_utc":
                good = isinstance(got, DT) and got.kind == "utc" and got.rank == 4
                want = "a UTC datetime denoting the same instant"
            else:
                good = isinstance(got, DT) and got.kind == "zoned" and got.zone == ZONE and got.rank == 4
                want = f"the same wall time in {ZONE}"
            ctx.check(good, "C11/TZP-CONTRACT", label,
                      f"{label} returns {got!r}; the contract the analyser (and every UTC-only "
                      f"property) relies on is: {want}", f.loc(), detail=repr(got))


def tzid_forward_names(ctx):
    """(names for which from_ical passes the TZID parameter to the decoder,
    whether FREEBUSY is among them, FuncInfo) - decided by exploring the
    parse loop itself (sa.parseloop.tzid_probe), not from its shape."""
    from .. import parseloop
    m = ctx.model
    fi = m.func("cal.Component.from_ical")
    probe = parseloop.tzid_probe(ctx)
    names = {k for k, (with_tz, _) in probe.items() if with_tz == "forwarded" and not k.islower()}
    return names - {"FREEBUSY"}, "FREEBUSY" in names, fi


def _tzid_forward(ctx):
    m = ctx.model
    names, fb, fi = tzid_forward_names(ctx)
    ctx.check(fb, "C11/TZID-FORWARD", "FREEBUSY branch forwards TZID",
              "the FREEBUSY branch of from_ical does not pass params['TZID'] to the "
              "period decoder", fi.loc(), detail="forwarded")
    want = set(rfc.TZID_ADMITTING)
    ctx.check(names == want, "C11/TZID-FORWARD", "names that get the TZID",
              f"from_ical forwards TZID for {sorted(names)}; RFC 5545 admits TZID on "
              f"{sorted(want)} (missing: {sorted(want - names)}, extra: {sorted(names - want)})",
              fi.loc(), detail=str(sorted(names)))
    # a line without a TZID parameter is decoded without one (and nothing fails)
    from .. import parseloop
    parseloop.report(ctx, "C11/TZID-FORWARD", lambda d: d["cause"] == "TZID forwarding differs",
                     "every value of a TZID-carrying line is decoded with that TZID",
                     laws=("TZID handed to the decoder of every value of the line",))
    probe = parseloop.tzid_probe(ctx)
    odd = {k: v for k, v in probe.items() if not k.islower()
           and (v[1] != "dropped" or v[0] not in ("forwarded", "dropped"))}
    ctx.check(not odd, "C11/TZID-FORWARD", "TZID presence tested",
              f"parsing a property line with/without a TZID parameter: {odd} "
              f"(a line without TZID must decode without one; nothing may fail)", fi.loc(),
              detail=f"{len(probe)} property names probed with and without TZID")
    # decoders that receive the TZID accept it
    for cname in ("vDDDTypes", "vDDDLists", "vPeriod", "vDatetime"):
        f = m.own_method(f"prop.{cname}.from_ical")
        a = f.node.args
        pnames = [x.arg for x in a.args]
        ctx.check("timezone" in pnames, "C11/TZID-FORWARD", f"{cname}.from_ical accepts timezone",
                  f"{cname}.from_ical has no `timezone` parameter", f.loc(), detail="timezone=None")
    # classes registered for the TZID-admitting names accept two positional args
    for name in sorted(want | {"FREEBUSY"}):
        ci = m.class_for_property(name)
        f = m.lookup_method(ci, "from_ical")
        npos = len(f.node.args.args) - (1 if f.kind == "class" else 0)
        ctx.check(npos >= 2, "C11/TZID-FORWARD", f"{name} decoder takes the TZID",
                  f"{name} is decoded by {ci.name}.from_ical which takes {npos} "
                  f"argument(s); from_ical passes the TZID as the second", f.loc(),
                  detail=f"{ci.name}.from_ical(ical, timezone)")
    # vDatetime.from_ical uses it (E7 on concrete text shapes)
    it = Interp(m)
    vdt = m.cls("prop.vDatetime")
    fn = it.getattr(ClassVal(vdt), "from_ical")
    for text, tz, want_kind in (("20200101T120000", None, "naive"),
                                ("20200101T120000Z", None, "utc"),
                                ("20200101T120000", ZONE, "zoned"),
                                ("20200101T120000", TZ("zone", ZONE), "zoned")):
        try:
            got = it.call(fn, [text, tz], {})
        except (AbsRaise, Unsupported) as e:
            raise AnalysisError(f"vDatetime.from_ical({text!r}, {tz!r}): {e}")
        ctx.check(isinstance(got, DT) and got.kind == want_kind
                  and (want_kind != "zoned" or got.zone == ZONE), "C11/TZID-FORWARD",
                  f"vDatetime.from_ical({'Z' if text.endswith('Z') else 'local'}, tz={'given' if tz else 'none'})",
                  f"decoded as {got!r}, expected a {want_kind} date-time", vdt.loc(),
                  detail=repr(got))
