"""C17 - components and parameter maps are dicts keyed by upper-cased names.

Decided: OVERRIDES (every key-taking mapping operation is overridden and the
key reaching the super() storage call is to_unicode(key).upper()), SIGNATURE
(override signatures / missing-key behaviour agree with dict), EQ-BOTH
(__eq__ normalises both operands), CANON (canonical ordering function shape).
Not decided: equivalence to a reference dict over all operation sequences as
such (follows from OVERRIDES assuming OrderedDict's own methods are correct).
"""
import ast

from ..core import AnalysisError
from ..flow import SymEnv, is_param, dump
from ..model import ClassInfo, FuncInfo, is_super_call, walk_no_nested
from .. import common

KEY_OPS = ["__getitem__", "__setitem__", "__delitem__", "__contains__",
           "get", "pop", "setdefault"]
BULK_OPS = ["__init__", "update", "copy", "__eq__"]


def normalised(expr, param, ctx, module, depth=0):
    """expr (already expanded) == to_unicode(<param>).upper() in either
    nesting order, possibly via a repo helper that does the same."""
    def strip(e, seen):
        # peel .upper() and to_unicode() layers, recording which were seen
        while True:
            if (isinstance(e, ast.Call) and isinstance(e.func, ast.Attribute)
                    and e.func.attr == "upper" and not e.args):
                seen.add("upper")
                e = e.func.value
                continue
            if isinstance(e, ast.Call) and isinstance(e.func, ast.Name) \
                    and len(e.args) >= 1:
                r = ctx.model.resolve_name(module, e.func.id)
                if isinstance(r, FuncInfo) and r.qualname == "parser_tools.to_unicode":
                    seen.add("to_unicode")
                    e = e.args[0]
                    continue
                if isinstance(r, FuncInfo) and depth < 2 and len(e.args) == 1:
                    # helper: inline its single return
                    rets = [n for n in walk_no_nested(r.node)
                            if isinstance(n, ast.Return) and n.value is not None]
                    if len(rets) == 1 and r.params:
                        env = SymEnv(r.node)
                        inner = env.expand_at(rets[0].value, rets[0])
                        s2 = set()
                        base = strip(inner, s2)
                        if is_param(base, r.params[0]):
                            seen |= s2
                            e = e.args[0]
                            continue
            return e
    seen = set()
    base = strip(expr, seen)
    return is_param(base, param) and seen >= {"upper", "to_unicode"}


def run(ctx):
    m = ctx.model
    cd = m.cls("caselessdict.CaselessDict")
    mod = cd.module
    ctx.explanation = (
        "override completeness + key taint over CaselessDict and all its repo "
        "subclasses; signature agreement with dict; __eq__ operand "
        "normalisation; shape of canonsort_keys. Decides these structural "
        "clauses, not equivalence to a reference dict over all histories.")
    ctx.assume("collections.OrderedDict.__init__/__or__/__ior__/fromkeys store "
               "through the overridden __setitem__/update/copy (CPython "
               "behaviour); OrderedDict's own methods are correct")

    # ---- OVERRIDES: key-taking operations --------------------------------
    for op in KEY_OPS:
        f = cd.methods.get(op)
        if f is None:
            ctx.fail("C17/OVERRIDES", f"CaselessDict.{op}",
                     f"CaselessDict does not override {op}; dict's version "
                     f"would see raw-case keys", cd.loc())
            continue
        keyp = f.params[1] if len(f.params) > 1 else None
        if keyp is None:
            ctx.fail("C17/OVERRIDES", f"CaselessDict.{op}",
                     "override takes no key parameter", f.loc())
            continue
        env = SymEnv(f.node)
        sup = [c for c in ast.walk(f.node)
               if isinstance(c, ast.Call) and is_super_call(c)]
        # storage may also be reached through self[...] (goes via overrides)
        via_self = [n for n in ast.walk(f.node)
                    if isinstance(n, ast.Subscript)
                    and isinstance(n.value, ast.Name) and n.value.id == f.params[0]]
        if not sup and not via_self:
            ctx.fail("C17/OVERRIDES", f"CaselessDict.{op}",
                     "override never reaches the underlying storage "
                     "(no super() call, no self[...] access)", f.loc())
            continue
        good = True
        for c in sup:
            if not c.args:
                good = False
                ctx.fail("C17/OVERRIDES", f"CaselessDict.{op}",
                         f"super().{c.func.attr}() called without a key", f.loc(c))
                continue
            k = env.expand_at(c.args[0])
            if not normalised(k, keyp, ctx, mod):
                good = False
                ctx.fail("C17/OVERRIDES", f"CaselessDict.{op}",
                         f"key reaching super().{c.func.attr} is `{dump(k)}`, "
                         f"not to_unicode({keyp}).upper()", f.loc(c))
        # every return/exit must go through storage: no early return that
        # bypasses (e.g. `return dict.get(self, key)`)
        for c in ast.walk(f.node):
            if (isinstance(c, ast.Call) and isinstance(c.func, ast.Attribute)
                    and isinstance(c.func.value, ast.Name)
                    and c.func.value.id in ("dict", "OrderedDict")):
                good = False
                ctx.fail("C17/OVERRIDES", f"CaselessDict.{op}",
                         f"direct call `{dump(c)[:50]}` bypasses key folding",
                         f.loc(c))
        if good:
            ctx.ok("C17/OVERRIDES", f"CaselessDict.{op}", f.loc(),
                   f"{len(sup)} super() storage call(s) with folded key")

    # has_key (legacy) follows the same rule when present
    hk = cd.methods.get("has_key")
    if hk is not None:
        env = SymEnv(hk.node)
        for c in ast.walk(hk.node):
            if isinstance(c, ast.Call) and is_super_call(c) and c.args:
                k = env.expand_at(c.args[0])
                ctx.check(normalised(k, hk.params[1], ctx, mod),
                          "C17/OVERRIDES", "CaselessDict.has_key",
                          f"key `{dump(k)}` not folded", hk.loc(c))

    # ---- OVERRIDES: bulk operations -----------------------------------------
    upd = cd.methods.get("update")
    if upd is None:
        ctx.fail("C17/OVERRIDES", "CaselessDict.update",
                 "update not overridden: dict.update bypasses __setitem__",
                 cd.loc())
    else:
        selfn = upd.params[0]
        stores = [n for n in ast.walk(upd.node)
                  if isinstance(n, ast.Assign)
                  and any(isinstance(t, ast.Subscript)
                          and isinstance(t.value, ast.Name)
                          and t.value.id == selfn for t in n.targets)]
        sup_upd = [c for c in ast.walk(upd.node)
                   if isinstance(c, ast.Call) and is_super_call(c, "update")]
        in_loop = False
        for st in stores:
            for loop in ast.walk(upd.node):
                if isinstance(loop, ast.For) and any(x is st for x in ast.walk(loop)):
                    in_loop = True
        ok = bool(stores) and in_loop and not sup_upd
        # both positional mappings and keywords must be consumed
        srcs = dump(upd.node)
        uses_args = upd.node.args.vararg is not None and \
            upd.node.args.vararg.arg in {n.id for n in ast.walk(upd.node)
                                         if isinstance(n, ast.Name)}
        uses_kw = upd.node.args.kwarg is not None and \
            upd.node.args.kwarg.arg in {n.id for n in ast.walk(upd.node)
                                        if isinstance(n, ast.Name)}
        merged = [c for c in ast.walk(upd.node) if isinstance(c, ast.Call)
                  and isinstance(c.func, ast.Name) and c.func.id in ("dict", "OrderedDict")
                  and (any(isinstance(a, ast.Starred) for a in c.args)
                       or any(k.arg is None for k in c.keywords) or len(c.args) > 0)]
        ctx.check(not merged, "C17/OVERRIDES", "CaselessDict.update no case-sensitive merge",
                  f"update() first merges its arguments with `{dump(merged[0])[:50] if merged else ''}`: "
                  f"a case-sensitive intermediate collapses repeated spellings before "
                  f"the keys are folded, so 'last entry wins per upper-cased name' fails",
                  upd.loc(merged[0]) if merged else upd.loc(),
                  witness="update([('role',1),('ROLE',2),('role',3)]) -> ROLE=2",
                  detail="pairs are stored in argument order")
        ctx.check(ok and uses_args and uses_kw, "C17/OVERRIDES",
                  "CaselessDict.update",
                  "update must store every (key, value) of every positional "
                  "mapping and of the keywords through self[key] = value",
                  upd.loc(), detail="item-wise self[key] = value in a loop; "
                  "*args and **kwargs both consumed")

    init = cd.methods.get("__init__")
    if init is None:
        ctx.fail("C17/OVERRIDES", "CaselessDict.__init__",
                 "no __init__: relies entirely on OrderedDict", cd.loc())
    else:
        sup_init = [c for c in ast.walk(init.node)
                    if isinstance(c, ast.Call) and is_super_call(c, "__init__")]
        forwards = any(any(isinstance(a, ast.Starred) for a in c.args)
                       and any(k.arg is None for k in c.keywords)
                       for c in sup_init)
        ctx.check(bool(sup_init) and forwards, "C17/OVERRIDES",
                  "CaselessDict.__init__",
                  "__init__ must forward *args/**kwargs to OrderedDict.__init__ "
                  "(which stores through the overridden __setitem__)",
                  init.loc(), detail="forwards to super().__init__(*args, **kwargs)")

    cp = cd.methods.get("copy")
    if cp is None:
        ctx.fail("C17/OVERRIDES", "CaselessDict.copy",
                 "copy not overridden: OrderedDict.copy is fine only if it "
                 "constructs type(self)", cd.loc())
    else:
        rets = [n for n in walk_no_nested(cp.node) if isinstance(n, ast.Return)]
        good = bool(rets)
        for r in rets:
            v = r.value
            good &= (isinstance(v, ast.Call) and isinstance(v.func, ast.Call)
                     and isinstance(v.func.func, ast.Name)
                     and v.func.func.id == "type")
        ctx.check(good, "C17/OVERRIDES", "CaselessDict.copy",
                  "copy must build type(self)(...) so the copy keeps folding keys",
                  cp.loc(), detail="returns type(self)(...)")

    # ---- OVERRIDES: subclasses must not bypass ----------------------------
    subs = m.subclasses(cd)
    n_sub = 0
    for sc in subs:
        for op in KEY_OPS + ["update", "copy"]:
            f = sc.methods.get(op)
            if f is None:
                continue
            n_sub += 1
            keyp = f.params[1] if len(f.params) > 1 else None
            env = SymEnv(f.node)
            sup = [c for c in ast.walk(f.node)
                   if isinstance(c, ast.Call) and is_super_call(c, op)]
            via_self = [n for n in ast.walk(f.node)
                        if isinstance(n, (ast.Subscript, ast.Call))
                        and any(isinstance(x, ast.Name) and x.id == f.params[0]
                                for x in ast.walk(n))]
            raw_dict = [c for c in ast.walk(f.node)
                        if isinstance(c, ast.Call)
                        and isinstance(c.func, ast.Attribute)
                        and isinstance(c.func.value, ast.Name)
                        and c.func.value.id in ("dict", "OrderedDict")]
            ctx.check((sup or via_self) and not raw_dict, "C17/OVERRIDES",
                      f"{sc.qualname}.{op}",
                      f"{sc.qualname}.{op} overrides a key-taking operation "
                      f"without delegating to the folding implementation",
                      f.loc(), detail="delegates to super()/self[...]")
        f = sc.methods.get("__init__")
        if f is not None:
            sup = [c for c in ast.walk(f.node)
                   if isinstance(c, ast.Call) and is_super_call(c, "__init__")]
            ctx.check(bool(sup), "C17/OVERRIDES", f"{sc.qualname}.__init__",
                      "subclass __init__ does not call super().__init__: "
                      "initial items bypass key folding", f.loc(),
                      detail="calls super().__init__")
    ctx.extra["subclasses_examined"] = [s.qualname for s in subs]
    if len(subs) < 13:
        raise AnalysisError(f"C17: only {len(subs)} CaselessDict subclasses "
                            f"found, 14 confirmed by hand")
    ctx.floor("C17/OVERRIDES", 15)

    # ---- SIGNATURE ---------------------------------------------------------
    # dict signatures: get(key, default=None), setdefault(key, default=None),
    # pop(key[, default]) -> KeyError when missing and no default given.
    for op, want_default in (("get", True), ("setdefault", True)):
        f = cd.methods.get(op)
        if f is None:
            continue
        a = f.node.args
        okd = len(f.params) == 3 and len(a.defaults) == 1 and \
            isinstance(a.defaults[0], ast.Constant) and a.defaults[0].value is None
        ctx.check(okd, "C17/SIGNATURE", f"CaselessDict.{op}",
                  f"{op} must take (key, default=None) like dict.{op}", f.loc(),
                  detail="(key, default=None)")
    for op in ("__getitem__", "__delitem__", "__contains__"):
        f = cd.methods.get(op)
        if f is not None:
            ctx.check(len(f.params) == 2 and not f.node.args.defaults,
                      "C17/SIGNATURE", f"CaselessDict.{op}",
                      f"{op} must take exactly (key)", f.loc(), detail="(key)")
    f = cd.methods.get("__setitem__")
    if f is not None:
        ctx.check(len(f.params) == 3 and not f.node.args.defaults,
                  "C17/SIGNATURE", "CaselessDict.__setitem__",
                  "__setitem__ must take exactly (key, value)", f.loc(),
                  detail="(key, value)")
    # missing-key behaviour of __getitem__/__delitem__: the super() call is
    # not wrapped in a handler that swallows KeyError
    for op in ("__getitem__", "__delitem__"):
        f = cd.methods.get(op)
        if f is None:
            continue
        swallowed = any(isinstance(n, ast.Try) for n in ast.walk(f.node))
        ctx.check(not swallowed, "C17/SIGNATURE", f"CaselessDict.{op} missing-key",
                  f"{op} wraps the lookup in try: a missing key must raise "
                  f"KeyError like dict", f.loc(), detail="KeyError propagates")
    f = cd.methods.get("pop")
    if f is not None:
        # dict.pop(key) raises KeyError; pop(key, d) returns d.  An override
        # with a plain default that is always forwarded cannot tell the two
        # apart.
        a = f.node.args
        always_forwards = False
        for c in ast.walk(f.node):
            if isinstance(c, ast.Call) and is_super_call(c, "pop"):
                if len(c.args) >= 2 and isinstance(c.args[1], ast.Name) and \
                        len(f.params) == 3 and c.args[1].id == f.params[2]:
                    always_forwards = True
        plain_default = len(a.defaults) == 1 and isinstance(a.defaults[0], ast.Constant)
        conditional = any(isinstance(n, (ast.If, ast.IfExp)) for n in ast.walk(f.node))
        bad = plain_default and always_forwards and not conditional
        ctx.check(not bad, "C17/SIGNATURE", "CaselessDict.pop missing-key",
                  "pop(key) on a missing key returns the default (None) where "
                  "dict.pop raises KeyError: the override always forwards its "
                  "own default to super().pop", f.loc(),
                  witness="CaselessDict().pop('x') -> None")

    # ---- EQ-BOTH -----------------------------------------------------------
    eq = cd.methods.get("__eq__")
    if eq is None:
        ctx.fail("C17/EQ-BOTH", "CaselessDict.__eq__",
                 "no __eq__: OrderedDict.__eq__ is order-sensitive and does "
                 "not fold the other operand's keys", cd.loc())
    else:
        other = eq.params[1]
        env = SymEnv(eq.node)
        cmp_sites = []
        for n in walk_no_nested(eq.node):
            if isinstance(n, ast.Compare) and any(
                    isinstance(o, (ast.Eq, ast.NotEq)) for o in n.ops):
                cmp_sites.append(n)
        if not cmp_sites:
            ctx.fail("C17/EQ-BOTH", "CaselessDict.__eq__",
                     "no == comparison found in __eq__", eq.loc())
        for n in cmp_sites:
            ex = env.expand_at(n)
            bad = _raw_other_uses(ex, other, ctx, mod)
            ctx.check(not bad, "C17/EQ-BOTH", "CaselessDict.__eq__ other-operand",
                      f"the other operand is compared without folding its keys: "
                      f"`{dump(ex)[:90]}`", eq.loc(n),
                      witness="CaselessDict(a=1) == {'a': 1} -> False",
                      detail="other operand normalised before comparison")
        # self side: compared via self.items()/dict(self) - stored keys are
        # upper-case by OVERRIDES

    # ---- CANON -------------------------------------------------------------
    common.check_canonsort(ctx, "C17/CANON")
    common.check_canonical_orders(ctx, "C17/CANON")


def _raw_other_uses(expr, other, ctx, module):
    """Occurrences of parameter `other` inside a comparison operand that are
    not wrapped by a key-normalising construct."""
    bad = []
    cd = ctx.model.cls("caselessdict.CaselessDict")

    def visit(e, wrapped):
        if is_param(e, other):
            if not wrapped:
                bad.append(e)
            return
        if isinstance(e, ast.Call):
            fn = e.func
            w = wrapped
            if isinstance(fn, ast.Name):
                r = ctx.model.resolve_name(module, fn.id)
                if isinstance(r, ClassInfo) and cd in ctx.model.mro(r):
                    w = True
            if isinstance(fn, ast.Call) and isinstance(fn.func, ast.Name) \
                    and fn.func.id == "type":
                w = True     # type(self)(other)
            if isinstance(fn, ast.Attribute) and fn.attr == "__class__":
                w = True
            for a in e.args:
                visit(a, w)
            for k in e.keywords:
                visit(k.value, w)
            if isinstance(fn, ast.Attribute):
                visit(fn.value, w)
            return
        if isinstance(e, ast.DictComp):
            key_up = any(isinstance(c, ast.Call)
                         and isinstance(c.func, ast.Attribute)
                         and c.func.attr == "upper" for c in ast.walk(e.key))
            for g in e.generators:
                visit(g.iter, wrapped or key_up)
            return
        for c in ast.iter_child_nodes(e):
            visit(c, wrapped)

    if isinstance(expr, ast.Compare):
        # `self is other` / isinstance parts are not == operands
        ops = [expr.left] + list(expr.comparators)
        for i, op in enumerate(expr.ops):
            if isinstance(op, (ast.Eq, ast.NotEq)):
                visit(ops[i], False)
                visit(ops[i + 1], False)
    return bad
