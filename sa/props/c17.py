"""C17 - components and parameter maps are dicts keyed by upper-cased names.

Decided: OVERRIDES (every key-taking mapping operation is overridden and the
key reaching the super() storage call is to_unicode(key).upper()), SIGNATURE
(override signatures / missing-key behaviour agree with dict), EQ-BOTH
(__eq__ normalises both operands), CANON (canonical ordering function shape).
Not decided: equivalence to a reference dict over all operation sequences as
such (follows from OVERRIDES assuming OrderedDict's own methods are correct).
"""
import ast

from ..core import AnalysisError
from ..flow import SymEnv, is_param, dump
from ..model import ClassInfo, FuncInfo, is_super_call, walk_no_nested
from .. import common

KEY_OPS = ["__getitem__", "__setitem__", "__delitem__", "__contains__",
           "get", "pop", "setdefault"]
BULK_OPS = ["__init__", "update", "copy", "__eq__"]


def normalised(expr, param, ctx, module, depth=0):
    """expr (already expanded) == to_unicode(<param>).upper() in either
    nesting order, possibly via a repo helper that does the same."""
    def strip(e, seen):
        # peel .upper() and to_unicode() layers, recording which were seen
        while True:
            if (isinstance(e, ast.Call) and isinstance(e.func, ast.Attribute)
                    and e.func.attr == "upper" and not e.args):
                seen.add("upper")
                e = e.func.value
                continue
            if isinstance(e, ast.Call) and isinstance(e.func, ast.Name) \
                    and len(e.args) >= 1:
                r = ctx.model.resolve_name(module, e.func.id)
                if isinstance(r, FuncInfo) and r.qualname == "parser_tools.to_unicode":
                    seen.add("to_unicode")
                    e = e.args[0]
                    continue
                if isinstance(r, FuncInfo) and depth < 2 and len(e.args) == 1:
                    # helper: inline its single return
                    rets = [n for n in walk_no_nested(r.node)
                            if isinstance(n, ast.Return) and n.value is not None]
                    if len(rets) == 1 and r.params:
                        env = SymEnv(r.node)
                        inner = env.expand_at(rets[0].value, rets[0])
                        s2 = set()
                        base = strip(inner, s2)
                        if is_param(base, r.params[0]):
                            seen |= s2
                            e = e.args[0]
                            continue
            return e
    seen = set()
    base = strip(expr, seen)
    return is_param(base, param) and seen >= {"upper", "to_unicode"}


def run(ctx):
    m = ctx.model
    cd = m.cls("caselessdict.CaselessDict")
    ctx.explanation = (
        "model-based exploration by interpretation (E7, sa.mapmodel): the "
        "CaselessDict family's own methods, run on top of a model of the builtin "
        "OrderedDict they inherit from, on every sequence of mapping operations up "
        "to the length bound (keys in either case, str and bytes; construction from "
        "mappings, pairs and keywords; get/set/delete, membership, get, pop, "
        "setdefault, update, copy, |, |=, ==), compared after every step with a "
        "dictionary keyed by the upper-cased name; canonical ordering of every class "
        "of the family against the stated order.")
    ctx.assume("which inherited OrderedDict operations go through the instance's overridable "
               "methods (established against CPython 3.12, see sa/mapmodel.py): __init__/update/"
               "copy/|/|= store through __setitem__, setdefault uses __contains__ then "
               "__getitem__/__setitem__, get/pop/popitem/keys/values/items act on the raw table")
    from .. import mapmodel
    mapmodel.report(ctx, "C17/MAP-MODEL", cd.loc())
    # subclasses that override part of the mapping API are explored too (one step)
    api = {"__getitem__", "__setitem__", "__delitem__", "__contains__", "get", "pop", "setdefault",
           "update", "copy", "__eq__", "__ne__", "popitem", "has_key", "__or__", "__ior__", "__ror__",
           "keys", "items", "values", "__iter__", "__len__", "clear"}
    for sc in m.subclasses(cd):
        own = sorted(set(sc.methods) & api)
        if not own or sc.qualname in ("parser.Parameters", "cal.Component"):
            continue
        if sc.qualname == "cal.Component" or m.is_subclass(sc, "cal.Component") and own == ["__eq__"]:
            continue        # Component.__eq__ is C20's (EQ-LAWS)
        try:
            n, fails = mapmodel.explore(ctx, sc.qualname, 1)
        except AnalysisError as e:
            raise AnalysisError(f"{sc.qualname} overrides {own}: {e}")
        for (law, desc), detail in sorted(fails.items()):
            if law == "pop" and "missing key returns None" in desc:
                continue        # inherited K6
            ctx.fail("C17/MAP-MODEL", f"{sc.name}: {law}: {desc}"[:170],
                     f"{sc.qualname} (overrides {own}): {desc} ({detail})", sc.loc(), witness=detail)
        ctx.ok("C17/MAP-MODEL", f"{sc.name} overrides {own}", sc.loc(), detail=f"{n} operations")
    common.check_canonical_orders(ctx, "C17/CANON")


def _raw_other_uses(expr, other, ctx, module):
    """Occurrences of parameter `other` inside a comparison operand that are
    not wrapped by a key-normalising construct."""
    bad = []
    cd = ctx.model.cls("caselessdict.CaselessDict")

    def visit(e, wrapped):
        if is_param(e, other):
            if not wrapped:
                bad.append(e)
            return
        if isinstance(e, ast.Call):
            fn = e.func
            w = wrapped
            if isinstance(fn, ast.Name):
                r = ctx.model.resolve_name(module, fn.id)
                if isinstance(r, ClassInfo) and cd in ctx.model.mro(r):
                    w = True
            if isinstance(fn, ast.Call) and isinstance(fn.func, ast.Name) \
                    and fn.func.id == "type":
                w = True     # type(self)(other)
            if isinstance(fn, ast.Attribute) and fn.attr == "__class__":
                w = True
            for a in e.args:
                visit(a, w)
            for k in e.keywords:
                visit(k.value, w)
            if isinstance(fn, ast.Attribute):
                visit(fn.value, w)
            return
        if isinstance(e, ast.DictComp):
            key_up = any(isinstance(c, ast.Call)
                         and isinstance(c.func, ast.Attribute)
                         and c.func.attr == "upper" for c in ast.walk(e.key))
            for g in e.generators:
                visit(g.iter, wrapped or key_up)
            return
        for c in ast.iter_child_nodes(e):
            visit(c, wrapped)

    if isinstance(expr, ast.Compare):
        # `self is other` / isinstance parts are not == operands
        ops = [expr.left] + list(expr.comparators)
        for i, op in enumerate(expr.ops):
            if isinstance(op, (ast.Eq, ast.NotEq)):
                visit(ops[i], False)
                visit(ops[i + 1], False)
    return bad
