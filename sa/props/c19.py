"""C19 - recurrence rules round-trip all parts, FREQ first.

Decided: ORDER, TYPES, DELIMS, GRAMMAR (see DESIGN.md 5/C19).
Not decided: equality of occurrence sequences; typed equality of every part.
"""
import ast

from ..core import AnalysisError
from ..flow import SymEnv, is_param, is_marker, dump
from ..model import ClassInfo, walk_no_nested
from ..oracles import rfc
from .. import rx


def _cval(e):
    return e.value if isinstance(e, ast.Constant) else None


def _s(v):
    return v.decode() if isinstance(v, bytes) else v


def run(ctx):
    m = ctx.model
    vr = m.cls("prop.vRecur")
    pm = vr.module
    ctx.explanation = (
        "table agreement of vRecur.canonical_order / vRecur.types with the "
        "RFC 5545 3.3.10 + RFC 7529 part table; interpretation (E7, "
        "sa.recurmodel) of vRecur.to_ical / from_ical / parse_type and the part "
        "codecs on rules of every part, alone and combined, in several insertion "
        "orders, read back by an independent RECUR reader; regex inclusion "
        "L(RFC weekdaynum) ⊆ L(WEEKDAY_RULE); enumerations equal the RFC's.")

    # ---- ORDER -------------------------------------------------------------
    order = m.class_const(vr, "canonical_order")
    if not isinstance(order, (tuple, list)) or len(order) < 10:
        raise AnalysisError("vRecur.canonical_order is not a sequence constant")
    loc = vr.loc(vr.attr_nodes["canonical_order"])
    for part in rfc.RECUR_PARTS:
        ctx.check(part in order, "C19/ORDER", f"part {part} listed",
                  f"RFC rule part {part} is missing from vRecur.canonical_order: "
                  f"it would be emitted after the listed parts in alphabetical "
                  f"position", loc, detail="in canonical_order")
    ctx.check(all(isinstance(x, str) and x == x.upper() for x in order)
              and len(set(order)) == len(order),
              "C19/ORDER", "upper-case distinct", "canonical_order must hold "
              "distinct upper-case names", loc, detail=f"{len(order)} names")
    head = [x for x in order if x in ("RSCALE", "FREQ")]
    ctx.check(list(order[:2]) == ["RSCALE", "FREQ"] or order[0] == "FREQ",
              "C19/ORDER", "FREQ first", f"FREQ (after optional RSCALE) must "
              f"lead canonical_order, found {list(order[:3])}", loc,
              detail=f"starts with {list(order[:2])}")
    ti = vr.methods.get("to_ical")
    if ti is None:
        raise AnalysisError("anchor vanished: vRecur.to_ical")
    # ---- TYPES -------------------------------------------------------------
    # the table as the class body builds it (E7 evaluates the class-level expression, whatever
    # its spelling: literal, dict.fromkeys groups, comprehension); constant folding as fallback
    types = None
    try:
        from ..absint import Interp, Obj, ClassVal, AbsRaise, Unsupported
        it_ = Interp(m)
        tv = it_.class_level_value(vr, "types")
        if isinstance(tv, Obj) and tv.items is not None:
            types = {k: (("class", v.ci.qualname) if isinstance(v, ClassVal) else repr(v))
                     for k, v in tv.items.items()}
        elif isinstance(tv, dict):
            types = {str(k).upper(): (("class", v.ci.qualname) if isinstance(v, ClassVal) else repr(v))
                     for k, v in tv.items()}
    except (AbsRaise, Unsupported, AnalysisError):
        types = None
    if types is None:
        types = m.class_const(vr, "types")
    if not isinstance(types, dict) or len(types) < 5:
        raise AnalysisError(f"vRecur.types is not a mapping of rule parts to codecs")
    tloc = vr.loc(vr.attr_nodes["types"])

    # the default codec of parts missing from the table: vText (decided by RECUR-MODEL on RSCALE)
    dw = "vText"
    for part, kind in rfc.RECUR_PARTS.items():
        want = rfc.RECUR_KIND_CLASS[kind]
        got = types.get(part)
        if got is None:
            have = dw
        else:
            have = got[1].split(".")[-1] if isinstance(got, tuple) else str(got)
        ctx.check(have in want, "C19/TYPES", f"part {part}",
                  f"RECUR part {part} is a {kind} per RFC; vRecur.types gives "
                  f"{have}, expected one of {sorted(want)}", tloc,
                  detail=f"{have}")
    # extra (non-RFC) entries must still be registered codecs with both directions
    for part, got in types.items():
        if part in rfc.RECUR_PARTS:
            continue
        cname = got[1] if isinstance(got, tuple) else None
        ci = m.cls(cname, required=False) if cname else None
        ctx.check(ci is not None and m.lookup_method(ci, "to_ical") is not None
                  and m.lookup_method(ci, "from_ical") is not None,
                  "C19/TYPES", f"extra part {part}",
                  f"non-RFC part {part} maps to {got}, which is not a codec "
                  f"class with to_ical and from_ical", tloc, detail=str(cname))

    # ---- GRAMMAR -----------------------------------------------------------
    wr = rx.repo_rx(m, "prop", "WEEKDAY_RULE")
    spec = rx.Rx(rfc.RFC_WEEKDAYNUM, 0, "RFC weekdaynum")
    okk, wit, n = rx.included(rx.Lang(spec, "full"), rx.Lang(wr, "match"))
    ctx.check(okk, "C19/GRAMMAR", "WEEKDAY_RULE accepts RFC weekdaynum",
              "an RFC weekdaynum is rejected by WEEKDAY_RULE", None, witness=wit,
              detail=f"inclusion proved over {n} product states")
    for g in ("signal", "relative", "weekday"):
        ctx.check(g in wr.groups, "C19/GRAMMAR", f"WEEKDAY_RULE group {g}",
                  f"named group {g} read by vWeekday.__new__ is missing", None,
                  detail="present")
    vw = m.cls("prop.vWeekday")
    wd = m.class_const(vw, "week_days")
    ctx.check(isinstance(wd, dict) and sorted(wd) == sorted(rfc.WEEKDAYS),
              "C19/GRAMMAR", "weekday table",
              f"vWeekday.week_days keys {sorted(wd) if isinstance(wd, dict) else wd} "
              f"!= RFC weekdays", vw.loc(vw.attr_nodes["week_days"]),
              detail="SU..SA")
    vf = m.cls("prop.vFrequency")
    fr = m.class_const(vf, "frequencies")
    ctx.check(isinstance(fr, dict) and sorted(fr) == sorted(rfc.FREQUENCIES)
              and all(k == v for k, v in fr.items()),
              "C19/GRAMMAR", "frequency table",
              f"vFrequency.frequencies != RFC freq enumeration",
              vf.loc(vf.attr_nodes["frequencies"]), detail="7 values")
    vs = m.cls("prop.vSkip")
    members = {k: m.const(v, vs.module) for k, v in vs.attrs.items()
               if isinstance(v, ast.Constant) and isinstance(v.value, str)}
    ctx.check(sorted(members) == sorted(rfc.SKIP_VALUES)
              and all(k == v for k, v in members.items()),
              "C19/GRAMMAR", "skip enumeration",
              f"vSkip members {sorted(members)} != RFC 7529 {sorted(rfc.SKIP_VALUES)}",
              vs.loc(), detail="OMIT/BACKWARD/FORWARD")
    ctx.floor("C19/TYPES", 16)
    ctx.floor("C19/ORDER", 16)
    # the part codecs (weekday, month incl. leap months of two digits, frequency in any case)
    from .. import codecmodel
    codecmodel.report(ctx, "C19/PART-CODECS", codecmodel.explore_scalars, codecmodel.SCALAR_LAWS,
                      m.cls("prop.vMonth").loc(), 30)
    # ---- RECUR-MODEL: the codec interpreted on rules of every part (last: a table
    # violation found above is reported even when the interpretation gives up) ----
    from .. import recurmodel
    recurmodel.report(ctx, "C19/RECUR-MODEL", ti.loc())


def _writer_delims(ctx, ti):
    """Roles: 'part' = join applied to the returned accumulator; 'value' =
    join over the per-value to_ical generator; 'keyvalue' = constant between
    key and values in the concatenation appended to the accumulator."""
    out = {}
    env = SymEnv(ti.node)
    for n in walk_no_nested(ti.node):
        if isinstance(n, ast.Return) and n.value is not None:
            v = n.value
            if isinstance(v, ast.Call) and isinstance(v.func, ast.Attribute) \
                    and v.func.attr == "join" and isinstance(v.func.value, ast.Constant):
                out["part"] = _s(v.func.value.value)
    for c in ast.walk(ti.node):
        if isinstance(c, ast.Call) and isinstance(c.func, ast.Attribute) \
                and c.func.attr == "join" and isinstance(c.func.value, ast.Constant) \
                and c.args and isinstance(c.args[0], (ast.GeneratorExp, ast.ListComp)):
            elt = c.args[0].elt
            if any(isinstance(x, ast.Call) and isinstance(x.func, ast.Attribute)
                   and x.func.attr == "to_ical" for x in ast.walk(elt)):
                out["value"] = _s(c.func.value.value)
    for c in ast.walk(ti.node):
        if isinstance(c, ast.Call) and isinstance(c.func, ast.Attribute) \
                and c.func.attr == "append" and c.args:
            e = c.args[0]
            consts = []
            def flat(x):
                if isinstance(x, ast.BinOp) and isinstance(x.op, ast.Add):
                    flat(x.left); flat(x.right)
                else:
                    consts.append(x)
            flat(e)
            mids = [x for x in consts[1:-1] if isinstance(x, ast.Constant)]
            if len(consts) == 3 and len(mids) == 1:
                out["keyvalue"] = _s(mids[0].value)
    if len(out) < 3:
        raise AnalysisError(f"vRecur.to_ical: separator roles not recognised: {out}")
    return out


def _reader_delims(ctx, fi, pt):
    out = {}
    env = SymEnv(fi.node)
    ical_p = fi.params[1]
    for lp in walk_no_nested(fi.node):
        if isinstance(lp, ast.For):
            it = env.expand_at(lp.iter, lp)
            if isinstance(it, ast.Call) and isinstance(it.func, ast.Attribute) \
                    and it.func.attr == "split" and is_param(it.func.value, ical_p) \
                    and it.args and isinstance(it.args[0], ast.Constant):
                out["part"] = _s(it.args[0].value)
            for st in ast.walk(lp):
                if isinstance(st, ast.Assign) and isinstance(st.targets[0], ast.Tuple) \
                        and isinstance(st.value, ast.Call) \
                        and isinstance(st.value.func, ast.Attribute) \
                        and st.value.func.attr == "split" and st.value.args \
                        and isinstance(st.value.args[0], ast.Constant):
                    out["keyvalue"] = _s(st.value.args[0].value)
    vals_p = pt.params[2] if len(pt.params) > 2 else None
    for c in ast.walk(pt.node):
        if isinstance(c, ast.Call) and isinstance(c.func, ast.Attribute) \
                and c.func.attr == "split" and isinstance(c.func.value, ast.Name) \
                and c.func.value.id == vals_p and c.args \
                and isinstance(c.args[0], ast.Constant):
            out["value"] = _s(c.args[0].value)
    if len(out) < 3:
        raise AnalysisError(f"vRecur.from_ical/parse_type: separator roles not recognised: {out}")
    return out
