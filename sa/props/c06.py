"""C06 - folding: lines <= 75 octets, no split characters, exact unfolding.

Proof-level: BOUND-ASCII (linear normal forms of the slice expression),
BOUND-UTF8 (exhaustive exploration of the loop's integer state with a ghost
octet meter), WHOLE-CHARS (fold on str, encode afterwards, each character
appended exactly once), UNFOLD (regex language facts), EMIT (single emission
path, CRLF join and terminator).
"""
import ast

from ..core import AnalysisError
from ..flow import SymEnv, is_param, dump
from ..model import walk_no_nested, body_without_docstring, FuncInfo
from ..loops import linear, lin_eq, lin_sub, lin_eval, lin_str, LoopExplorer
from ..oracles import rfc
from .. import rx


def fold_defaults(ctx):
    f = ctx.model.func("parser.foldline")
    a = f.node.args
    names = [x.arg for x in a.args]
    if len(names) < 3 or len(a.defaults) < 2:
        raise AnalysisError("foldline lost its (line, limit=, fold_sep=) signature")
    d = dict(zip(names[-len(a.defaults):], a.defaults))
    line_p, limit_p, sep_p = names[0], names[1], names[2]
    limit = ctx.model.const(d[limit_p], f.module)
    sep = ctx.model.const(d[sep_p], f.module)
    if not isinstance(limit, int) or not isinstance(sep, str):
        raise AnalysisError("foldline defaults are not an int and a str")
    return f, line_p, limit_p, sep_p, limit, sep


def run(ctx):
    m = ctx.model
    ctx.explanation = (
        "proof obligations over parser.foldline: linear normal forms of the "
        "ASCII slice (width == stride == limit-1; continuation = |tail(sep)| + "
        "width <= limit), exhaustive reachability of (byte_count, ghost octet "
        "meter) for the per-character branch with width c in {1,2,3,4}, "
        "each character appended exactly once after any separator; regex "
        "language facts for uFOLD; encode-after-fold ordering and the single "
        "emission path.")
    ctx.trusted_base = [
        "UTF-8 encodes one code point in 1..4 octets",
        "the checker's interpreter of the loop body (sa/loops.py) and the "
        "linear normaliser",
        "regex-to-NFA translation of sa/rx.py (re._parser ASTs)",
        "str.join/slice semantics: chunks line[i:i+w] for i in range(0, n, w) tile the line",
    ]
    f, line_p, limit_p, sep_p, limit, sep = fold_defaults(ctx)
    ctx.extra["defaults"] = {"limit": limit, "fold_sep": sep}
    tail = sep[sep.rfind("\n") + 1:] if "\n" in sep else None

    # ---- spec of the separator --------------------------------------------
    ctx.check(limit == 75, "C06/BOUND-ASCII", "default limit",
              f"default limit is {limit}; RFC 5545 3.1 says 75 octets", f.loc(),
              detail="75")
    ctx.check(sep in ("\r\n ", "\r\n\t"), "C06/UNFOLD", "fold_sep is CRLF + one WSP",
              f"default fold_sep {sep!r} is not CRLF followed by exactly one "
              f"space or tab", f.loc(), detail=repr(sep))
    if tail is None:
        raise AnalysisError("fold_sep contains no line feed")
    tail_octets = len(tail.encode("utf-8"))

    # the only caller passes no overrides
    callers = []
    for g in m.all_functions():
        for c in ast.walk(g.node):
            if isinstance(c, ast.Call) and isinstance(c.func, ast.Name) \
                    and c.func.id == "foldline":
                r = m.resolve_name(g.module, "foldline")
                if isinstance(r, FuncInfo) and r.qualname == f.qualname:
                    callers.append((g, c))
    # what the serialiser actually hands to foldline (interpreted, E7): a caller may spell the
    # call in any way - pass-through keyword arguments with the same defaults included - as long
    # as Contentline(...).to_ical() folds with the values the bound is proved for
    if callers:
        from ..absint import Interp, Closure as _Closure, ClassVal as _ClassVal, AbsRaise as _AbsRaise, \
            Unsupported as _Unsupported
        seen = []

        class Rec(Interp):
            pass
        it = Rec(m)
        pnames = [a.arg for a in f.node.args.args]

        def rec(self_, args, kwargs, _f=f):
            vals = dict(zip(pnames, args))
            vals.update(kwargs)
            seen.append((vals.get(limit_p, limit), vals.get(sep_p, sep)))
            del self_.contracts[_f.qualname]
            try:
                return self_.call(_Closure(_f), list(args), dict(kwargs))
            finally:
                self_.contracts[_f.qualname] = rec
        it.contracts[f.qualname] = rec
        try:
            cl = it.instantiate(m.cls("parser.Contentline"), ["X-NAME:" + "v" * 100], {})
            it.call(it.getattr(cl, "to_ical"), [], {})
        except (_AbsRaise, _Unsupported) as e:
            raise AnalysisError(f"Contentline.to_ical leaves the abstract interface: {e}")
        used = sorted(set((l if isinstance(l, int) else repr(l), sp if isinstance(sp, str) else repr(sp))
                          for l, sp in seen), key=repr)
        ctx.check(bool(seen) and all(l == limit and sp == sep for l, sp in seen), "C06/EMIT",
                  "the serialiser folds with the proved limit and separator",
                  f"Contentline.to_ical() calls foldline with (limit, fold_sep) = {used}; the bound is "
                  f"proved for the defaults ({limit}, {sep!r}) only", callers[0][0].loc(callers[0][1]),
                  detail=f"foldline(limit={limit}, fold_sep={sep!r})")
    if not callers:
        # the serialiser does not fold through foldline: nothing proved about foldline says
        # anything about the bytes that are written
        ctx.note("foldline is not called by the serialiser of this tree: the symbolic rules about "
                 "foldline do not apply; the fold laws are decided on Contentline.to_ical itself by "
                 "C06/PHYS-MODEL (bounded) only - the 'proof' level does not hold for this tree")
        ctx.extra["bound_decided_by"] = "PHYS-MODEL only"
    else:
        # ---- shape-specific rules (ASCII fast path + one character loop) ---------
        try:
            _shape_rules(ctx, m, f, line_p, limit_p, sep_p, limit, sep, tail_octets)
            shape_ok = True
        except AnalysisError as e:
            shape_ok = False
            ctx.note(f"shape-specific fold rules not applicable ({e}); the general abstract "
                     f"execution below decides the octet bound")
        # ---- BOUND-GENERAL: abstract execution on A^n . R ---------------------------
        _general(ctx, m, f, limit, sep, required=not shape_ok)
    # ---- PHYS-MODEL: to_ical / from_ical of lines and line lists (E9) ------------
    from .. import strmodel, treemodel
    ti = m.own_method("parser.Contentline.to_ical")
    strmodel.report(ctx, "C06/PHYS-MODEL", strmodel.explore_physical, strmodel.PHYS_LAWS,
                    ti.loc(), 100, select=lambda law: law != "invariance")
    # the same laws end to end: properties of every value family through Component.add/to_ical
    strmodel.report(ctx, "C06/COMPONENT", strmodel.explore_component_lines, strmodel.COMPONENT_LAWS,
                    m.func("cal.Component.content_line").loc(), 5)
    # every line of a serialised component is such a Contentline (E7 on trees)
    treemodel.report(ctx, "C06/EMIT", treemodel.explore_emit,
                     "Component.to_ical emits Contentlines of Contentline.from_parts lines",
                     m.func("cal.Component.content_lines").loc(), 200)
    # ---- UNFOLD -----------------------------------------------------------
    unfold_rule(ctx, "C06/UNFOLD", sep)
    ctx.floor("C06/UNFOLD", 5)
    if shape_ok:
        ctx.floor("C06/BOUND-ASCII", 7)


# ---------------------------------------------------------------------------
def _shape_rules(ctx, m, f, line_p, limit_p, sep_p, limit, sep, tail_octets):
    body = body_without_docstring(f.node)
    ascii_ret = None
    for st in body:
        if isinstance(st, ast.Try):
            for r in ast.walk(st):
                if isinstance(r, ast.Return):
                    ascii_ret = r
    loop = next((st for st in body if isinstance(st, ast.For)), None)
    final_ret = body[-1] if isinstance(body[-1], ast.Return) else None
    if ascii_ret is None or loop is None or final_ret is None:
        raise AnalysisError("foldline: ASCII fast path / character loop / "
                            "final return not recognised")

    # ---- BOUND-ASCII --------------------------------------------------------
    v = ascii_ret.value
    ok_shape = (isinstance(v, ast.Call) and isinstance(v.func, ast.Attribute)
                and v.func.attr == "join" and isinstance(v.func.value, ast.Name)
                and v.func.value.id == sep_p and len(v.args) == 1
                and isinstance(v.args[0], (ast.GeneratorExp, ast.ListComp))
                and len(v.args[0].generators) == 1)
    if not ok_shape:
        raise AnalysisError("foldline ASCII path is not fold_sep.join(<slices>)")
    gen = v.args[0]
    g0 = gen.generators[0]
    elt = gen.elt
    rng = g0.iter
    if not (isinstance(elt, ast.Subscript) and isinstance(elt.slice, ast.Slice)
            and isinstance(elt.value, ast.Name) and elt.value.id == line_p
            and isinstance(rng, ast.Call) and isinstance(rng.func, ast.Name)
            and rng.func.id == "range" and len(rng.args) == 3
            and isinstance(g0.target, ast.Name) and not g0.ifs):
        raise AnalysisError("foldline ASCII path: slices over range(start, stop, step) not recognised")
    iv = g0.target.id
    lo = linear(elt.slice.lower) if elt.slice.lower else {}
    hi = linear(elt.slice.upper) if elt.slice.upper else None
    if hi is None or elt.slice.step is not None:
        raise AnalysisError("foldline ASCII slice has no upper bound / has a step")
    width = lin_sub(hi, lo)
    stride = linear(rng.args[2])
    start = linear(rng.args[0])
    stop = rng.args[1]
    ctx.check(lin_eq(lo, {iv: 1}), "C06/BOUND-ASCII", "slice starts at loop index",
              f"slice lower bound is {lin_str(lo)}, not the range variable",
              f.loc(ascii_ret), detail=f"line[{iv}:...]")
    ctx.check(lin_eq(width, stride), "C06/BOUND-ASCII", "width equals stride",
              f"slice width {lin_str(width)} != range step {lin_str(stride)}: "
              f"chunks overlap or skip characters (lossy)", f.loc(ascii_ret),
              detail=f"width ≡ stride ≡ {lin_str(width)}")
    ctx.check(lin_eq(start, {}) and dump(stop) == f"len({line_p})",
              "C06/BOUND-ASCII", "range covers the line",
              f"range({dump(rng.args[0])}, {dump(stop)}, …) does not run from 0 "
              f"to len(line)", f.loc(ascii_ret), detail="range(0, len(line), w)")
    try:
        w_val = lin_eval(width, {limit_p: limit})
    except AnalysisError:
        raise AnalysisError(f"ASCII slice width {lin_str(width)} is not a function of limit")
    ctx.check(w_val >= 1, "C06/BOUND-ASCII", "positive width",
              f"slice width {w_val} is not positive", f.loc(ascii_ret),
              detail=str(w_val))
    ctx.check(w_val <= limit, "C06/BOUND-ASCII", "first line bound",
              f"first physical line has {w_val} octets > {limit}", f.loc(ascii_ret),
              witness="x" * (w_val + 1), detail=f"{w_val} <= {limit}")
    ctx.check(tail_octets + w_val <= limit, "C06/BOUND-ASCII",
              "continuation line bound",
              f"continuation line = {tail_octets} (separator tail) + {w_val} "
              f"= {tail_octets + w_val} octets > {limit}", f.loc(ascii_ret),
              witness="x" * (2 * w_val), detail=f"{tail_octets}+{w_val} <= {limit}")
    # ASCII guard: the fast path is taken only if line.encode('ascii') succeeds
    tr = next(st for st in body if isinstance(st, ast.Try))
    enc = [c for c in ast.walk(ast.Module(body=tr.body, type_ignores=[]))
           if isinstance(c, ast.Call) and isinstance(c.func, ast.Attribute)
           and c.func.attr == "encode" and isinstance(c.func.value, ast.Name)
           and c.func.value.id == line_p and c.args
           and isinstance(c.args[0], ast.Constant) and c.args[0].value == "ascii"]
    in_else = any(r is ascii_ret for s in tr.orelse for r in ast.walk(s))
    catches = {n.id for h in tr.handlers if h.type is not None
               for n in ast.walk(h.type) if isinstance(n, ast.Name)}
    ctx.check(bool(enc) and in_else and "UnicodeEncodeError" in catches,
              "C06/BOUND-ASCII", "fast path only for ASCII",
              "the one-octet-per-character slicing is valid only when "
              "line.encode('ascii') succeeded (try/else)", f.loc(tr),
              detail="try: line.encode('ascii') … else: return join(...)")

    # ---- BOUND-UTF8 ---------------------------------------------------------
    jr = final_ret.value
    if not (isinstance(jr, ast.Call) and isinstance(jr.func, ast.Attribute)
            and jr.func.attr == "join" and isinstance(jr.func.value, ast.Constant)
            and jr.func.value.value == "" and isinstance(jr.args[0], ast.Name)):
        raise AnalysisError("foldline: final return is not ''.join(<buffer>)")
    buf = jr.args[0].id
    init = {}
    for st in body:
        if st is loop:
            break
        if isinstance(st, ast.Assign) and isinstance(st.targets[0], ast.Name) \
                and isinstance(st.value, ast.Constant) \
                and isinstance(st.value.value, int):
            init[st.targets[0].id] = st.value.value
    if not (isinstance(loop.iter, ast.Name) and loop.iter.id == line_p):
        raise AnalysisError("foldline: the loop does not iterate the line's characters")
    # the width is measured in the serialisation encoding
    enc_const = "utf-8"
    for c in ast.walk(loop):
        if isinstance(c, ast.Call) and isinstance(c.func, ast.Attribute) \
                and c.func.attr == "encode" and c.args:
            try:
                enc_const = m.const(c.args[0], f.module)
            except AnalysisError:
                enc_const = None
    ctx.check(enc_const in ("utf-8", "utf8", "UTF-8"), "C06/BOUND-UTF8",
              "width measured in utf-8",
              f"character width is measured with codec {enc_const!r}, but "
              f"Contentline.to_ical emits utf-8", f.loc(loop), detail="utf-8")
    widths = (1, 2, 3, 4)
    ex = LoopExplorer(loop, {limit_p: limit}, buf, sep_p, tail_octets, limit,
                      widths, init).explore()
    ctx.extra.update({"loop_states": ex.states, "loop_transitions": ex.transitions,
                      "max_octets_in_a_line": ex.max_meter, "exhaustive": True})
    kinds = {}
    for kind, st, c, val in ex.violations:
        kinds.setdefault(kind, (st, c, val))
    for kind in ("line-end", "after-iter"):
        if kind in kinds:
            st, c, val = kinds[kind]
            ctx.fail("C06/BOUND-UTF8", f"octet bound ({kind})",
                     f"a physical line reaches {val} octets > {limit} "
                     f"(state {st}, next character {c} octets wide)", f.loc(loop),
                     witness={"state": st, "char_octets": c, "octets": val})
        else:
            ctx.ok("C06/BOUND-UTF8", f"octet bound ({kind})", f.loc(loop),
                   f"{ex.states} states closed, max {ex.max_meter} <= {limit}")
    ctx.check("order" not in kinds, "C06/WHOLE-CHARS", "separator before character",
              "a character is appended before the separator of the same step",
              f.loc(loop), detail="fold_sep appended first")
    ctx.check(ex.appends_per_iter == {1}, "C06/WHOLE-CHARS",
              "each character appended exactly once",
              f"an iteration appends the current character "
              f"{sorted(ex.appends_per_iter)} times: characters are lost or "
              f"duplicated", f.loc(loop), detail="exactly once per iteration")



def _general(ctx, m, f, limit, sep, required):
    from ..foldinterp import FoldRun, Unsupported as FUnsupported, AbsRaise as FRaise
    regs = set(rx.compiled_regexes(m, "parser"))
    periods = 4 if ctx.thorough else 2
    worst = 0
    n_runs = 0
    states = 0
    try:
        for n in range(0, periods * limit + 2):
            for rest in (False, True):
                r = FoldRun(m, f, n, rest, limit, sep, regs).run()
                n_runs += 1
                states += getattr(r, "loop_states", 0)
                key = f"line = {n} ASCII chars{' + arbitrary non-ASCII tail' if rest else ''}"
                if r.max_line > limit or r.loop_reports:
                    rep = r.loop_reports[0] if r.loop_reports else None
                    ctx.fail("C06/BOUND-GENERAL", "octet bound on abstract lines",
                             f"foldline on a {key} produces a physical line of "
                             f"{max(r.max_line, rep[3] if rep else 0)} octets > {limit}"
                             f"{' (loop state ' + str(rep[1]) + ', next char ' + str(rep[2]) + ' octets)' if rep else ''}",
                             f.loc(), witness={"ascii_prefix": n, "tail": rest})
                    raise StopIteration
                if not rest and r.ascii_out != n:
                    ctx.fail("C06/BOUND-GENERAL", "no character lost or duplicated",
                             f"foldline on a {key} emits {r.ascii_out} of the {n} characters",
                             f.loc(), witness={"ascii_prefix": n})
                    raise StopIteration
                worst = max(worst, r.max_line)
    except StopIteration:
        return
    except (FUnsupported, AnalysisError) as e:
        if required:
            # neither symbolic argument applies to this way of writing foldline: the
            # octet bound is then decided only by the bounded execution C06/PHYS-MODEL
            ctx.note(f"C06: neither the linear-form rules nor the general abstract execution "
                     f"apply to foldline as written ({e}); the 75-octet bound is decided by "
                     f"C06/PHYS-MODEL (bounded) only - the 'proof' level does not hold for this tree")
            ctx.extra["bound_decided_by"] = "PHYS-MODEL only"
            return
        ctx.note(f"general abstract execution not applicable: {e}")
        return
    except FRaise as e:
        ctx.fail("C06/BOUND-GENERAL", "foldline raises on an abstract line",
                 f"foldline raises {e.name} on a valid content line", f.loc())
        return
    ctx.ok("C06/BOUND-GENERAL", "octet bound on abstract lines", f.loc(),
           f"{n_runs} abstract lines (ASCII prefix 0..{periods * limit + 1} x with/without an "
           f"arbitrary tail, tails explored to closure: {states} loop states); max {worst} <= {limit}")
    ctx.ok("C06/BOUND-GENERAL", "no character lost or duplicated", f.loc(),
           "every ASCII prefix is emitted completely")
    ctx.extra["general_runs"] = n_runs


def unfold_rule(ctx, rule, sep=None):
    """uFOLD denotes exactly the RFC fold language (shared by C05, C06, C09)."""
    m = ctx.model
    ufold = rx.repo_rx(m, "parser", "uFOLD")
    spec = rx.Rx(rfc.UNFOLD_SPEC, 0, "unfold spec")
    a_in_b, w1, n1 = rx.included(rx.Lang(ufold, "full"), rx.Lang(spec, "full"))
    b_in_a, w2, n2 = rx.included(rx.Lang(spec, "full"), rx.Lang(ufold, "full"))
    ctx.check(a_in_b, rule, "uFOLD removes nothing but folds",
              "uFOLD matches text that is not (CR?LF)+ followed by exactly one "
              "space/tab: unfolding would eat content (e.g. a lone CR before a "
              "space inside a value)", None, witness=w1,
              detail=f"L(uFOLD) ⊆ L(spec), {n1} states")
    ctx.check(b_in_a, rule, "uFOLD removes every fold",
              "a fold form is not matched by uFOLD", None, witness=w2,
              detail=f"L(spec) ⊆ L(uFOLD), {n2} states")
    if sep is not None:
        ctx.check(rx.accepts(rx.Lang(ufold, "full"), sep), rule,
                  "fold_sep is a fold", f"the separator {sep!r} inserted by foldline "
                  f"is not matched by uFOLD", None, detail="fold_sep ∈ L(uFOLD)")
    okc, wc = rx.all_contain(rx.Lang(ufold, "full"), 10)
    ctx.check(okc, rule, "every fold contains LF",
              "uFOLD matches a string without LF (content lines contain no LF, "
              "so such a match lies inside content)", None, witness=wc,
              detail="all matches contain LF")
    fold_b = rx.repo_rx(m, "parser", "FOLD")
    same = isinstance(fold_b.pattern, bytes) and \
        fold_b.pattern.decode("latin-1") == ufold.pattern
    ctx.check(same, rule, "FOLD bytes twin agrees",
              f"FOLD (bytes) {fold_b.pattern!r} and uFOLD (str) {ufold.pattern!r} differ",
              None, detail="same pattern")
